//! Shared harness for the `Service`-based checks (C10, C11, C13a, C16, C29): a real
//! `radicle_node::service::Service` over in-memory stores, driven event by event. The harness plays
//! the wire layer: it drains the outbox after every call and classifies each `Io`.
//! Included with `#[path = "../svc.rs"] mod svc;` from the check binaries.
#![allow(dead_code)]

use std::collections::BTreeMap;
use std::str::FromStr;
use std::sync::atomic::{AtomicU64, Ordering};
use std::sync::Mutex;

use radicle::crypto::test::signer::MockSigner;
use radicle::identity::{Did, Doc, Visibility};
use radicle::node::device::Device;
use radicle::node::policy::{Scope, SeedingPolicy};
use radicle::node::{Alias, Database, Features, UserAgent};
use radicle::test::storage::{MockRepository, MockStorage};
use radicle_node::prelude::*;
use radicle_node::runtime::Emitter;
use radicle_node::service::io::Io;
use radicle_node::service::message::*;
use radicle_node::service::{self, policy, Service};
use radicle_node::Link;

pub type Svc = Service<Database, MockStorage, MockSigner>;

/// Fixed start of time for every harness (2023-11-14T22:13:20Z, far from 0 and from overflow).
pub const T0_MS: u64 = 1_700_000_000_000;

pub fn t0() -> LocalTime {
    LocalTime::from_millis(T0_MS as u128)
}

/// A remote peer: just a key pair with which the harness signs messages.
#[derive(Clone)]
pub struct Peer {
    pub name: &'static str,
    pub signer: Device<MockSigner>,
    pub id: NodeId,
    pub addr: Address,
}

impl Peer {
    pub fn new(name: &'static str, seed: u8) -> Peer {
        let signer = Device::mock_from_seed([seed; 32]);
        let id = *signer.public_key();
        // Routable (non-local) address so that the rate limiter and address book treat it as a
        // normal internet peer.
        let addr = Address::from(std::net::SocketAddr::from(([99, 99, 99, seed], 8776)));
        Peer { name, signer, id, addr }
    }
    pub fn did(&self) -> Did {
        Did::from(self.id)
    }

    pub fn node_ann(&self, ts: u64) -> Announcement {
        self.node_ann_with(ts, Features::SEED)
    }
    pub fn node_ann_with(&self, ts: u64, features: Features) -> Announcement {
        let ann = NodeAnnouncement {
            version: 1,
            features,
            timestamp: Timestamp::try_from(ts).unwrap(),
            alias: Alias::from_str(self.name).unwrap(),
            addresses: vec![self.addr.clone()].try_into().unwrap(),
            nonce: 0,
            agent: UserAgent::default(),
        };
        AnnouncementMessage::from(ann).signed(&self.signer)
    }
    pub fn inv_ann(&self, rids: &[RepoId], ts: u64) -> Announcement {
        let ann = InventoryAnnouncement { inventory: rids.to_vec().try_into().unwrap(), timestamp: Timestamp::try_from(ts).unwrap() };
        AnnouncementMessage::from(ann).signed(&self.signer)
    }
    pub fn refs_ann(&self, rid: RepoId, refs: &[radicle::storage::refs::RefsAt], ts: u64) -> Announcement {
        let ann = RefsAnnouncement { rid, refs: refs.to_vec().try_into().unwrap(), timestamp: Timestamp::try_from(ts).unwrap() };
        AnnouncementMessage::from(ann).signed(&self.signer)
    }
}

/// Deterministic repository id / oid helpers.
pub fn rid(n: u8) -> RepoId {
    RepoId::from(radicle::git::Oid::try_from([n; 20].as_slice()).unwrap())
}
pub fn oid(n: u8) -> radicle::git::Oid {
    radicle::git::Oid::try_from([n; 20].as_slice()).unwrap()
}

pub fn doc(delegates: &[&Peer], visibility: Visibility) -> Doc {
    let project = radicle::identity::project::Project::new(
        radicle::identity::project::ProjectName::from_str("acme").unwrap(),
        "Acme".to_string(),
        radicle::git::refname!("master"),
    )
    .unwrap();
    let d = Doc::initial(project, delegates[0].did(), visibility);
    if delegates.len() > 1 {
        let extra: Vec<Did> = delegates[1..].iter().map(|p| p.did()).collect();
        d.with_edits(|raw| raw.delegates.extend(extra)).unwrap()
    } else {
        d
    }
}

pub fn mock_repo(id: RepoId, d: Doc) -> MockRepository {
    MockRepository::new(id, d)
}

/// A mock repository carrying verified signed refs for each of `owners` (needed for the service
/// to build refs announcements about it).
pub fn mock_repo_with_sigrefs(id: RepoId, d: Doc, owners: &[&Device<MockSigner>]) -> MockRepository {
    use radicle::storage::refs::{Refs, SignedRefsAt};
    let mut repo = MockRepository::new(id, d);
    for (i, dev) in owners.iter().enumerate() {
        let refs = Refs::from(std::collections::BTreeMap::from([(radicle::git::refname!("refs/heads/master"), oid(0x70 + i as u8))]));
        let signed = refs.signed(dev).expect("sign").verified(&repo).expect("verify");
        repo.remotes.insert(*dev.public_key(), SignedRefsAt { sigrefs: signed, at: oid(0x60 + i as u8) });
    }
    repo
}

pub struct Build {
    pub storage: MockStorage,
    pub seed: Vec<(RepoId, Scope)>,
    pub relay: bool,
    pub fetch_concurrency: Option<usize>,
    pub persistent: Vec<(NodeId, Address)>,
}

impl Default for Build {
    fn default() -> Self {
        Build { storage: MockStorage::empty(), seed: vec![], relay: true, fetch_concurrency: None, persistent: vec![] }
    }
}

pub fn local_signer() -> Device<MockSigner> {
    Device::mock_from_seed([1u8; 32])
}

/// Build and initialise a real service at time `t0()`.
pub fn build(b: Build) -> Svc {
    let signer = local_signer();
    let id = *signer.public_key();
    let now = t0();
    let mut config = service::Config::test(Alias::from_str("local").unwrap());
    config.relay = if b.relay { radicle::node::config::Relay::Always } else { radicle::node::config::Relay::Never };
    // Rate limits far above anything a bounded history can reach: a limited message would be a
    // silently dropped alphabet symbol.
    config.limits.rate.inbound = radicle::node::config::RateLimit { fill_rate: 1000.0, capacity: 1_000_000 };
    config.limits.rate.outbound = radicle::node::config::RateLimit { fill_rate: 1000.0, capacity: 1_000_000 };
    if let Some(c) = b.fetch_concurrency {
        config.limits.fetch_concurrency = c;
    }
    for (nid, addr) in &b.persistent {
        config.connect.insert((*nid, addr.clone()).into());
    }
    let mut pstore = policy::Store::<policy::store::Write>::memory().unwrap();
    for (rid, scope) in &b.seed {
        pstore.seed(rid, *scope).unwrap();
    }
    let policies = policy::Config::new(SeedingPolicy::default(), pstore);
    let db = pooled_db()
        .init(&id, config.features(), &config.alias, &UserAgent::default(), now.into(), config.external_addresses.iter())
        .unwrap()
        .into();
    let ann = service::gossip::node(&config, Timestamp::from(now) + 1);
    let rng = fastrand::Rng::with_seed(7);
    let mut svc = Service::new(config, db, b.storage, policies, signer, rng, ann, Emitter::default());
    svc.initialize(now).unwrap();
    svc
}

thread_local! {
    static DB_POOL: std::cell::RefCell<Vec<Database>> = const { std::cell::RefCell::new(Vec::new()) };
}

/// An empty, migrated in-memory node database. Opening and migrating one costs more than
/// everything else in building a `Service`, and replay-from-scratch builds one per transition, so
/// each thread recycles the databases of services it has already dropped (all rows deleted; the
/// engine's replay-divergence check would notice any state leaking through).
fn pooled_db() -> Database {
    DB_POOL.with(|pool| {
        let mut pool = pool.borrow_mut();
        if let Some(d) = pool.iter().find(|d| std::sync::Arc::strong_count(&d.db) == 1) {
            let d = d.clone();
            let tables: Vec<String> = {
                let mut names = vec![];
                let mut stmt = d.db.prepare("SELECT name FROM sqlite_master WHERE type = 'table' AND name NOT LIKE 'sqlite_%'").expect("sqlite_master");
                while let Ok(sqlite::State::Row) = stmt.next() {
                    names.push(stmt.read::<String, _>(0).expect("table name"));
                }
                names
            };
            for t in tables {
                d.db.execute(format!("DELETE FROM \"{t}\"")).expect("clear table");
            }
            return d;
        }
        let d = Database::memory().expect("memory db");
        pool.push(d.clone());
        d
    })
}

/// Drain the outbox completely.
pub fn drain(svc: &mut Svc) -> Vec<Io> {
    let mut out = vec![];
    while let Some(io) = svc.next() {
        out.push(io);
    }
    out
}

pub fn connect_inbound(svc: &mut Svc, p: &Peer) -> Vec<Io> {
    svc.connected(p.id, p.addr.clone(), Link::Inbound);
    drain(svc)
}

pub fn disconnect_inbound(svc: &mut Svc, p: &Peer) -> Vec<Io> {
    svc.disconnected(p.id, Link::Inbound, &service::DisconnectReason::connection());
    drain(svc)
}

/// Advance the service clock by `ms` and run the periodic tasks.
pub fn elapse(svc: &mut Svc, ms: u64) -> Vec<Io> {
    let now = svc.local_time() + LocalDuration::from_millis(ms as u128);
    svc.tick(now, &service::Metrics::default());
    svc.wake();
    drain(svc)
}

// ---------------------------------------------------------------------------------------------
// Capturing logger: counts the service's own "dropped" log lines so that a check can assert that
// an alphabet symbol was *handled*, not silently dropped by the limiter or the session gate.

pub struct Capture;
pub static RATE_LIMITED: AtomicU64 = AtomicU64::new(0);
pub static SESSION_NOT_FOUND: AtomicU64 = AtomicU64::new(0);
pub static IGNORED_DISCONNECTED: AtomicU64 = AtomicU64::new(0);
static LAST_LINES: Mutex<Vec<String>> = Mutex::new(Vec::new());

thread_local! {
    pub static TL_DROPS: std::cell::Cell<u64> = const { std::cell::Cell::new(0) };
}

impl log::Log for Capture {
    fn enabled(&self, m: &log::Metadata) -> bool {
        m.level() <= log::Level::Debug
    }
    fn log(&self, r: &log::Record) {
        if r.level() > log::Level::Debug {
            return;
        }
        let s = r.args().to_string();
        if s.starts_with("Rate limiting message") {
            RATE_LIMITED.fetch_add(1, Ordering::Relaxed);
            TL_DROPS.with(|d| d.set(d.get() + 1));
        } else if s.starts_with("Session not found") {
            SESSION_NOT_FOUND.fetch_add(1, Ordering::Relaxed);
            TL_DROPS.with(|d| d.set(d.get() + 1));
        } else if s.starts_with("Ignoring message from disconnected peer") {
            IGNORED_DISCONNECTED.fetch_add(1, Ordering::Relaxed);
            TL_DROPS.with(|d| d.set(d.get() + 1));
        }
    }
    fn flush(&self) {}
}

extern "C" {
    fn sqlite3_config(op: std::os::raw::c_int, ...) -> std::os::raw::c_int;
}

/// SQLite keeps allocation statistics under one global mutex by default, which serialises the
/// exploration threads (each owns private in-memory databases). Must run before the first
/// connection is opened.
pub fn sqlite_no_memstatus() {
    const SQLITE_CONFIG_MEMSTATUS: std::os::raw::c_int = 9;
    unsafe {
        sqlite3_config(SQLITE_CONFIG_MEMSTATUS, 0 as std::os::raw::c_int);
    }
}

pub fn install_logger() {
    sqlite_no_memstatus();
    static L: Capture = Capture;
    let _ = log::set_logger(&L);
    log::set_max_level(log::LevelFilter::Debug);
}

/// Number of "message dropped before the handler" log lines seen on this thread so far.
pub fn drops() -> u64 {
    TL_DROPS.with(|d| d.get())
}

// ---------------------------------------------------------------------------------------------
// Canonical-key helpers.

pub fn session_key(svc: &Svc) -> Vec<String> {
    use radicle_node::service::ServiceState;
    let mut v: Vec<String> = svc
        .sessions()
        .iter()
        .map(|(nid, s)| {
            let mut fetching: Vec<String> = match &s.state {
                radicle::node::State::Connected { fetching, .. } => fetching.iter().map(|r| r.to_string()).collect(),
                _ => vec![],
            };
            fetching.sort();
            let queue: Vec<String> = s.queue.iter().map(|q| format!("{}<{}:{:?}:{}", q.rid, q.from, q.refs_at, q.channel.is_some())).collect();
            let state = match &s.state {
                radicle::node::State::Initial => "initial",
                radicle::node::State::Attempted => "attempted",
                radicle::node::State::Connected { .. } => "connected",
                radicle::node::State::Disconnected { .. } => "disconnected",
            };
            format!("{nid}|{:?}|{state}|sub={}|f={fetching:?}|q={queue:?}", s.link, s.subscribe.is_some())
        })
        .collect();
    v.sort();
    v
}

pub fn fetching_key(svc: &Svc) -> BTreeMap<String, (String, String, usize)> {
    use radicle_node::service::ServiceState;
    svc.fetching().iter().map(|(rid, f)| (rid.to_string(), (f.from.to_string(), format!("{:?}", f.refs_at), f.subscribers.len()))).collect()
}
