//! C13, codec-level sub-checks (13b frame level, 13c git request header) — a module, included by
//! the C13 binary with `#[path = "../c13_codec.rs"] mod c13_codec;` (and by C14 / C15 for the
//! shared corpus of valid frames and the mutation neighbourhood).
//!
//! Property C13: "For any byte sequence … that a connected peer sends (gossip messages, control
//! frames, git stream request headers), the node never panics or aborts."
//!
//! * [`frames`]  — Engine B over the real `Deserializer<MAX_INBOX_SIZE, Frame>` (the peer inbox of
//!   `wire/protocol.rs`): every byte string of length ≤ 2 (quick) / ≤ 3 (thorough) after the
//!   4-byte version, and the substitution / truncation / insertion neighbourhood of a corpus of
//!   valid frames (one per message type and control type, boundary sizes).
//! * [`pktline`] — Engine B over the real `pktline::git_request`: every 4-hex-digit length with a
//!   matching / shorter / longer body, every length field over a small byte alphabet (non-hex,
//!   non-UTF-8, signs), and the mutation neighbourhood of valid request headers.
//!
//! Oracle (both): the call returns (`Ok(Some)`, `Ok(None)` or `Err` / `Ok` or `Err`); a panic, an
//! abort or a hang is a violation. Both run in isolated worker processes (`sweep::procs`). The
//! decode is wrapped in `mcx::alloc::measure`, so that — when the binary installs the counting
//! allocator — a request above 256 MiB ends the worker (`MCX-OVERSIZE`) instead of the machine;
//! without that allocator the real allocation failure aborts the worker, which is attributed the
//! same way.
//!
//! NOTE for the including binary: `sweep::procs` re-executes the binary; everything `main` does
//! before calling [`frames`] / [`pktline`] is repeated in every worker, so call them first (or
//! guard expensive work with `std::env::var_os("MCX_CHILD").is_none()`).
#![allow(dead_code)]

use std::str::FromStr;

use mcx::panics::Caught;
use mcx::report::{Ctx, Violation};
use mcx::sweep::{self, Crash, ItemOut, ProcOpts, Stats};
use radicle::crypto::test::signer::MockSigner;
use radicle::node::device::Device;
use radicle::node::{Alias, Features, UserAgent};
use radicle::storage::refs::RefsAt;
use radicle_node::prelude::*;
use radicle_node::service::filter::BloomFilter;
use radicle_node::service::message::*;
use radicle_node::wire::verif::{Control, Frame, FrameData};
use radicle_node::wire::{self, StreamId};
use radicle_node::worker::verif::git_request;
use radicle_node::Link;
use serde_json::{json, Value};

/// Mirrors `radicle_node::wire::protocol::MAX_INBOX_SIZE` (private; wire/protocol.rs:55).
pub const MAX_INBOX_SIZE: usize = 1024 * 1024 * 2;
/// `rad` + protocol version 1.
pub const VERSION: [u8; 4] = [b'r', b'a', b'd', 1];

pub type F = Frame<Message>;
pub type Inbox = Deserializer<MAX_INBOX_SIZE, F>;

// ------------------------------------------------------------------------------------------
// Deterministic building blocks
// ------------------------------------------------------------------------------------------

pub fn hex(b: &[u8]) -> String {
    b.iter().map(|x| format!("{x:02x}")).collect()
}

pub fn unhex(s: &str) -> Vec<u8> {
    (0..s.len() / 2).map(|i| u8::from_str_radix(&s[2 * i..2 * i + 2], 16).unwrap_or(0)).collect()
}

/// Short rendering of a byte string for messages.
pub fn hex_head(b: &[u8], n: usize) -> String {
    if b.len() <= n {
        hex(b)
    } else {
        format!("{}…(+{} bytes)", hex(&b[..n]), b.len() - n)
    }
}

pub fn oid(k: u8) -> radicle::git::Oid {
    radicle::git::Oid::try_from(&[k; 20][..]).expect("20 bytes")
}

pub fn oid_n(n: u32) -> radicle::git::Oid {
    let mut b = [0x5au8; 20];
    b[..4].copy_from_slice(&n.to_be_bytes());
    radicle::git::Oid::try_from(&b[..]).expect("20 bytes")
}

pub fn rid(k: u8) -> RepoId {
    RepoId::from(oid(k))
}

pub fn device(k: u8) -> Device<MockSigner> {
    Device::mock_from_seed([k; 32])
}

pub fn ts(v: u64) -> Timestamp {
    Timestamp::try_from(v).expect("timestamp within range")
}

pub const TS_MAX: u64 = i64::MAX as u64;

/// Address of kind 0 ipv4, 1 ipv6, 2 dns (1 byte), 3 dns (255 bytes), 4 onion.
pub fn addr(kind: u8, k: u8) -> Address {
    use cyphernet::addr::{tor::OnionAddrV3, HostName, NetAddr};
    let host = match kind {
        0 => HostName::Ip(std::net::IpAddr::V4(std::net::Ipv4Addr::new(192, 0, 2, k))),
        1 => HostName::Ip(std::net::IpAddr::V6(std::net::Ipv6Addr::new(0x2001, 0xdb8, 0, 0, 0, 0, 0xff00, k as u16))),
        2 => HostName::Dns(((b'a' + k % 26) as char).to_string()),
        3 => HostName::Dns(std::iter::repeat((b'a' + k % 26) as char).take(255).collect()),
        _ => HostName::Tor(
            OnionAddrV3::from_str("xmrhfasfg5suueegrnc4gsgyi2tyclcy5oz7f5drnrodmdtob6t2ioyd.onion").expect("valid onion address"),
        ),
    };
    Address::from(NetAddr { host, port: 8776u16.wrapping_add(k as u16) })
}

pub const ADDR_KINDS: [&str; 5] = ["ipv4", "ipv6", "dns1", "dns255", "onion"];

pub fn alias(len: usize) -> Alias {
    Alias::from_str(&"abcdefghijklmnopqrstuvwxyz012345"[..len]).expect("valid alias")
}

pub fn agent(kind: u8) -> UserAgent {
    match kind {
        0 => UserAgent::default(),
        1 => UserAgent::from_str("/a/").expect("valid agent"),
        2 => UserAgent::from_str("/radicle:1.2.0/").expect("valid agent"),
        _ => UserAgent::from_str(&format!("/{}/", "r".repeat(62))).expect("valid agent"), // 64 bytes: the maximum
    }
}

#[allow(clippy::too_many_arguments)]
pub fn node_ann(version: u8, features: u64, t: u64, alias_len: usize, addrs: Vec<Address>, nonce: u64, agent_kind: u8) -> NodeAnnouncement {
    NodeAnnouncement {
        version,
        features: Features::from(features),
        timestamp: ts(t),
        alias: alias(alias_len),
        addresses: BoundedVec::try_from(addrs).expect("within ADDRESS_LIMIT"),
        nonce,
        agent: agent(agent_kind),
    }
}

pub fn inv_ann(n: usize, t: u64) -> InventoryAnnouncement {
    let v: Vec<RepoId> = (0..n as u32).map(|i| RepoId::from(oid_n(i))).collect();
    InventoryAnnouncement { inventory: BoundedVec::try_from(v).expect("within INVENTORY_LIMIT"), timestamp: ts(t) }
}

pub fn refs_ann(r: u8, n: usize, t: u64) -> RefsAnnouncement {
    let remote = *device(9).public_key();
    let v: Vec<RefsAt> = (0..n as u32).map(|i| RefsAt { remote, at: oid_n(i) }).collect();
    RefsAnnouncement { rid: rid(r), refs: BoundedVec::try_from(v).expect("within REF_REMOTE_LIMIT"), timestamp: ts(t) }
}

/// Filter of kind 0 S all-ones (default), 1 S empty, 2 S with two items, 3 M, 4 L.
pub fn filter(kind: u8) -> Filter {
    use radicle_node::service::filter::{FILTER_SIZE_L, FILTER_SIZE_M};
    match kind {
        0 => Filter::default(),
        1 => Filter::empty(),
        2 => Filter::new([rid(1), rid(2)]),
        3 => {
            let mut b = vec![0u8; FILTER_SIZE_M];
            b[7] = 0x81;
            b[FILTER_SIZE_M - 1] = 1;
            Filter::from(BloomFilter::from(b))
        }
        _ => {
            let mut b = vec![0u8; FILTER_SIZE_L];
            b[0] = 0xff;
            b[FILTER_SIZE_L - 1] = 0x80;
            Filter::from(BloomFilter::from(b))
        }
    }
}

pub fn signed(m: impl Into<AnnouncementMessage>, key: u8) -> Message {
    Message::Announcement(m.into().signed(&device(key)))
}

/// Message corpus: (name, message, big). `big` marks boundary-size messages (≥ ~1 KiB).
pub fn message_corpus() -> Vec<(String, Message, bool)> {
    let mut v: Vec<(String, Message, bool)> = vec![];
    let mut add = |n: &str, m: Message, big: bool| v.push((n.to_string(), m, big));
    add("node/none", signed(node_ann(1, 1, 1_700_000_000_000, 1, vec![], 0, 0), 1), false);
    add("node/ipv4", signed(node_ann(1, 1, 1_700_000_000_000, 5, vec![addr(0, 1)], 7, 2), 1), false);
    add("node/ipv6", signed(node_ann(1, 0, 1, 5, vec![addr(1, 1)], 7, 0), 2), false);
    add("node/dns", signed(node_ann(1, 1, 1_700_000_000_000, 5, vec![addr(2, 1)], 7, 1), 1), false);
    add("node/onion", signed(node_ann(1, 1, 1_700_000_000_000, 5, vec![addr(4, 1)], 7, 0), 1), false);
    add(
        "node/max",
        signed(node_ann(255, u64::MAX, TS_MAX, 32, (0..ADDRESS_LIMIT as u8).map(|i| addr(if i % 5 == 3 { 2 } else { i % 5 }, i)).collect(), u64::MAX, 3), 3),
        false,
    );
    add("inv/0", signed(inv_ann(0, 1_700_000_000_000), 1), false);
    add("inv/1", signed(inv_ann(1, 1_700_000_000_000), 1), false);
    add("inv/3", signed(inv_ann(3, 0), 2), false);
    add("inv/limit", signed(inv_ann(INVENTORY_LIMIT, TS_MAX), 1), true);
    add("refs/0", signed(refs_ann(1, 0, 1_700_000_000_000), 1), false);
    add("refs/1", signed(refs_ann(1, 1, 1_700_000_000_000), 1), false);
    add("refs/2", signed(refs_ann(2, 2, 0), 2), false);
    add("refs/limit", signed(refs_ann(1, REF_REMOTE_LIMIT, TS_MAX), 1), true);
    add("subscribe/S", Message::subscribe(filter(0), ts(0), ts(TS_MAX)), true);
    add("subscribe/S-items", Message::subscribe(filter(2), ts(1_700_000_000_000), ts(1_700_000_000_001)), true);
    add("subscribe/M", Message::subscribe(filter(3), ts(5), ts(5)), true);
    add("subscribe/L", Message::subscribe(filter(4), ts(TS_MAX), ts(0)), true);
    add("ping/0", Message::Ping(Ping { ponglen: 0, zeroes: ZeroBytes::new(0) }), false);
    add("ping/3", Message::Ping(Ping { ponglen: Ping::MAX_PONG_ZEROES, zeroes: ZeroBytes::new(3) }), false);
    add("ping/max", Message::Ping(Ping { ponglen: 65535, zeroes: ZeroBytes::new(Ping::MAX_PING_ZEROES) }), true);
    add("pong/0", Message::Pong { zeroes: ZeroBytes::new(0) }, false);
    add("pong/5", Message::Pong { zeroes: ZeroBytes::new(5) }, false);
    add("pong/max", Message::Pong { zeroes: ZeroBytes::new(Ping::MAX_PONG_ZEROES) }, true);
    add("info/synced", Message::Info(Info::RefsAlreadySynced { rid: rid(3), at: oid(0xee) }), false);
    v
}

/// One valid frame of the corpus.
pub struct Entry {
    pub name: String,
    pub frame: F,
    pub bytes: Vec<u8>,
    /// 'c' control, 'g' gossip, 't' git.
    pub kind: char,
    /// Boundary-size frame (≥ ~1 KiB), used only where the cost allows.
    pub big: bool,
}

fn entry(name: String, frame: F, kind: char, big: bool) -> Entry {
    let bytes = frame.to_bytes();
    Entry { name, frame, bytes, kind, big }
}

/// Corpus of valid frames: every message of [`message_corpus`] as a gossip frame, the three
/// control types with stream ids of every varint width, git frames with payload lengths around
/// the varint width boundaries.
pub fn frame_corpus() -> Vec<Entry> {
    let mut v = vec![];
    for (i, (name, msg, big)) in message_corpus().into_iter().enumerate() {
        // Alternate the initiator bit so both gossip stream ids (2, 3) occur.
        let link = if i % 4 == 3 { Link::Inbound } else { Link::Outbound };
        v.push(entry(format!("gossip/{name}"), F::gossip(link, msg), 'g', big));
    }
    let sid = |link: Link, n: u64| StreamId::git(link).nth(n).expect("stream id within varint range");
    v.push(entry("control/open-1B".into(), F::control(Link::Outbound, Control::Open { stream: sid(Link::Outbound, 1) }), 'c', false));
    v.push(entry("control/open-2B".into(), F::control(Link::Inbound, Control::Open { stream: sid(Link::Inbound, 1 << 8) }), 'c', false));
    v.push(entry("control/close-1B".into(), F::control(Link::Outbound, Control::Close { stream: sid(Link::Inbound, 0) }), 'c', false));
    v.push(entry("control/close-4B".into(), F::control(Link::Outbound, Control::Close { stream: sid(Link::Outbound, 1 << 20) }), 'c', false));
    v.push(entry("control/eof-1B".into(), F::control(Link::Inbound, Control::Eof { stream: sid(Link::Outbound, 2) }), 'c', false));
    v.push(entry("control/eof-8B".into(), F::control(Link::Outbound, Control::Eof { stream: sid(Link::Inbound, (1 << 59) - 1) }), 'c', false));
    let data = |n: usize| (0..n).map(|i| (i * 7 + 3) as u8).collect::<Vec<u8>>();
    v.push(entry("git/0".into(), F::git(sid(Link::Outbound, 0), data(0)), 't', false));
    v.push(entry("git/1".into(), F::git(sid(Link::Inbound, 1), data(1)), 't', false));
    v.push(entry("git/63".into(), F::git(sid(Link::Outbound, 3), data(63)), 't', false));
    v.push(entry("git/64".into(), F::git(sid(Link::Outbound, 1 << 9), data(64)), 't', false));
    v.push(entry("git/pktline".into(), F::git(sid(Link::Inbound, 5), valid_request(0)), 't', false));
    v.push(entry("git/16383".into(), F::git(sid(Link::Outbound, 1), data(16383)), 't', true));
    v.push(entry("git/16384".into(), F::git(sid(Link::Outbound, 1), data(16384)), 't', true));
    v.push(entry("git/65536".into(), F::git(sid(Link::Inbound, 1 << 21), data(65536)), 't', true));
    v
}

// ------------------------------------------------------------------------------------------
// Mutation neighbourhood
// ------------------------------------------------------------------------------------------

/// Substitution / insertion alphabet: the varint width boundaries and the extremes.
pub const SUBST: [u8; 9] = [0x00, 0x01, 0x3f, 0x40, 0x7f, 0x80, 0xbf, 0xc0, 0xff];
const OPS_PER_POS: u64 = 21; // 9 substitutions + b-1 + b+1 + truncate-here + 9 insertions

#[derive(Clone, Copy, Debug, PartialEq, Eq)]
pub enum Mutation {
    Subst { pos: usize, byte: u8 },
    Truncate { len: usize },
    Insert { pos: usize, byte: u8 },
}

impl Mutation {
    pub fn op(&self) -> &'static str {
        match self {
            Mutation::Subst { .. } => "subst",
            Mutation::Truncate { .. } => "truncate",
            Mutation::Insert { .. } => "insert",
        }
    }
    pub fn pos(&self) -> usize {
        match *self {
            Mutation::Subst { pos, .. } | Mutation::Insert { pos, .. } => pos,
            Mutation::Truncate { len } => len,
        }
    }
    pub fn to_json(&self) -> Value {
        match *self {
            Mutation::Subst { pos, byte } => json!({"op": "subst", "pos": pos, "byte": byte}),
            Mutation::Truncate { len } => json!({"op": "truncate", "pos": len}),
            Mutation::Insert { pos, byte } => json!({"op": "insert", "pos": pos, "byte": byte}),
        }
    }
    pub fn from_json(v: &Value) -> Option<Mutation> {
        let pos = v.get("pos")?.as_u64()? as usize;
        let byte = v.get("byte").and_then(Value::as_u64).unwrap_or(0) as u8;
        match v.get("op")?.as_str()? {
            "subst" => Some(Mutation::Subst { pos, byte }),
            "truncate" => Some(Mutation::Truncate { len: pos }),
            "insert" => Some(Mutation::Insert { pos, byte }),
            _ => None,
        }
    }
    pub fn apply(&self, b: &[u8]) -> Vec<u8> {
        let mut out = b.to_vec();
        match *self {
            Mutation::Subst { pos, byte } => {
                if pos < out.len() {
                    out[pos] = byte
                }
            }
            Mutation::Truncate { len } => out.truncate(len),
            Mutation::Insert { pos, byte } => out.insert(pos.min(b.len()), byte),
        }
        out
    }
}

/// Number of mutations of a string of length `len`: at every position 11 substitutions, the
/// truncation to that position and 9 insertions before it, plus 9 insertions at the end.
pub fn neighbourhood(len: usize) -> u64 {
    OPS_PER_POS * len as u64 + SUBST.len() as u64
}

pub fn mutation(b: &[u8], j: u64) -> Mutation {
    let pos = (j / OPS_PER_POS) as usize;
    let r = (j % OPS_PER_POS) as usize;
    if pos >= b.len() {
        return Mutation::Insert { pos: b.len(), byte: SUBST[r % SUBST.len()] };
    }
    match r {
        0..=8 => Mutation::Subst { pos, byte: SUBST[r] },
        9 => Mutation::Subst { pos, byte: b[pos].wrapping_sub(1) },
        10 => Mutation::Subst { pos, byte: b[pos].wrapping_add(1) },
        11 => Mutation::Truncate { len: pos },
        _ => Mutation::Insert { pos, byte: SUBST[r - 12] },
    }
}

/// Index space made of the neighbourhoods of several strings.
pub struct NeighbourSpace {
    offsets: Vec<u64>, // offsets[k] = first index of string k; last = total
}

impl NeighbourSpace {
    pub fn new(lens: impl Iterator<Item = usize>) -> Self {
        let mut offsets = vec![0u64];
        for l in lens {
            offsets.push(offsets.last().unwrap() + neighbourhood(l));
        }
        NeighbourSpace { offsets }
    }
    pub fn size(&self) -> u64 {
        *self.offsets.last().unwrap()
    }
    /// (string index, mutation index within its neighbourhood)
    pub fn locate(&self, i: u64) -> (usize, u64) {
        let k = self.offsets.partition_point(|o| *o <= i) - 1;
        (k, i - self.offsets[k])
    }
}

/// All byte strings of length 0..=max_len, shortest first.
pub fn n_strings(max_len: u32) -> u64 {
    (0..=max_len).map(|l| 256u64.pow(l)).sum()
}

pub fn string_at(max_len: u32, mut i: u64) -> Vec<u8> {
    let mut l = 0u32;
    while l < max_len && i >= 256u64.pow(l) {
        i -= 256u64.pow(l);
        l += 1;
    }
    let mut out = vec![0u8; l as usize];
    for k in (0..l as usize).rev() {
        out[k] = (i & 0xff) as u8;
        i >>= 8;
    }
    out
}

// ------------------------------------------------------------------------------------------
// Driving the real inbox
// ------------------------------------------------------------------------------------------

pub fn err_label(e: &wire::Error) -> String {
    use wire::Error::*;
    match e {
        Io(io) => format!("Io({:?})", io.kind()),
        FromUtf8(_) => "FromUtf8".into(),
        InvalidSize { .. } => "InvalidSize".into(),
        InvalidFilterSize(_) => "InvalidFilterSize".into(),
        InvalidStreamKind(_) => "InvalidStreamKind".into(),
        InvalidRefName(_) => "InvalidRefName".into(),
        InvalidAlias(_) => "InvalidAlias".into(),
        InvalidUserAgent(_) => "InvalidUserAgent".into(),
        InvalidControlMessage(_) => "InvalidControlMessage".into(),
        InvalidProtocolVersion(_) => "InvalidProtocolVersion".into(),
        InvalidOnionAddr(_) => "InvalidOnionAddr".into(),
        InvalidTimestamp(_) => "InvalidTimestamp".into(),
        WrongProtocolVersion(_) => "WrongProtocolVersion".into(),
        UnknownAddressType(_) => "UnknownAddressType".into(),
        UnknownMessageType(_) => "UnknownMessageType".into(),
        UnknownInfoType(_) => "UnknownInfoType".into(),
        UnexpectedBytes => "UnexpectedBytes".into(),
    }
}

pub fn frame_kind(f: &F) -> &'static str {
    match &f.data {
        FrameData::Control(_) => "control",
        FrameData::Gossip(_) => "gossip",
        FrameData::Git(_) => "git",
    }
}

/// How draining the inbox ended.
#[derive(Debug, Clone, PartialEq, Eq)]
pub enum End {
    /// `Ok(None)`: the decoder waits for more bytes.
    Incomplete,
    /// `Err(_)`: the peer would be disconnected.
    Error(String),
    /// `input` refused the bytes (inbox full).
    Overflow,
    /// `Ok(Some)` without consuming anything (would loop forever in `wire/protocol.rs`).
    NoProgress,
}

impl End {
    pub fn label(&self) -> String {
        match self {
            End::Incomplete => "Ok(None)".into(),
            End::Error(e) => format!("Err({e})"),
            End::Overflow => "inbox-overflow".into(),
            End::NoProgress => "no-progress".into(),
        }
    }
}

/// Input one chunk and drain the inbox exactly like `Wire::received` does
/// (`inbox.input(..)`, then `deserialize_next` until `Ok(None)` or `Err`).
pub fn feed(de: &mut Inbox, chunk: &[u8], out: &mut Vec<F>) -> End {
    if de.input(chunk).is_err() {
        return End::Overflow;
    }
    loop {
        let before = de.len();
        match de.deserialize_next() {
            Ok(Some(f)) => {
                out.push(f);
                if de.len() >= before {
                    return End::NoProgress;
                }
            }
            Ok(None) => return End::Incomplete,
            Err(e) => return End::Error(err_label(&e)),
        }
    }
}

/// One-shot: fresh inbox, all bytes at once. Label like `2xgossip,git+Ok(None)`.
pub fn feed_once(bytes: &[u8]) -> (Vec<F>, End, usize) {
    let mut de = Inbox::new(64);
    let mut out = vec![];
    let end = feed(&mut de, bytes, &mut out);
    (out, end, de.len())
}

pub fn result_label(frames: &[F], end: &End) -> String {
    let kinds: Vec<&str> = frames.iter().map(frame_kind).collect();
    if kinds.is_empty() {
        end.label()
    } else {
        format!("Ok(Some {})+{}", kinds.join(","), end.label())
    }
}

/// Size requested by the counting allocator's hard-cap exit, if that is what ended the worker.
pub fn oversize(stderr_tail: &str) -> Option<u128> {
    let at = stderr_tail.rfind("MCX-OVERSIZE ")?;
    stderr_tail[at + 13..].split_whitespace().next()?.parse().ok()
}

/// Size of a failed real allocation ("memory allocation of N bytes failed"), if that aborted the worker.
pub fn alloc_failed(stderr_tail: &str) -> Option<u128> {
    let at = stderr_tail.rfind("memory allocation of ")?;
    stderr_tail[at + 21..].split_whitespace().next()?.parse().ok()
}

/// Harness-side varint reader (RFC 9000 §16): (value, width).
pub fn read_varint(b: &[u8]) -> Option<(u64, usize)> {
    let first = *b.first()?;
    let w = 1usize << (first >> 6);
    if b.len() < w {
        return None;
    }
    let mut v = (first & 0x3f) as u64;
    for x in &b[1..w] {
        v = (v << 8) | *x as u64;
    }
    Some((v, w))
}

/// The payload length a gossip / git frame declares (version, stream id, length), if present.
pub fn declared_payload_len(input: &[u8]) -> Option<u64> {
    let (_, w) = read_varint(input.get(4..)?)?;
    read_varint(input.get(4 + w..)?).map(|x| x.0)
}

/// Shorter inputs first; ties broken by content so that the reported witness does not depend on
/// scheduling.
pub fn witness_cost(input: &[u8]) -> u64 {
    ((input.len() as u64).min(0xff_ffff) << 24) | (mcx::fnv64(input) & 0xff_ffff)
}

pub fn crash_label(c: Crash) -> String {
    match c {
        Crash::Hang => "hang".into(),
        Crash::Abort { signal, code } => format!("abort(signal={signal:?},code={code:?})"),
    }
}

// ------------------------------------------------------------------------------------------
// 13b — frame level
// ------------------------------------------------------------------------------------------

enum FrameItem {
    /// version ++ tail
    Bytes(Vec<u8>),
    /// corpus entry, mutation
    Neigh(usize, Mutation),
}

struct FrameSpace {
    corpus: Vec<Entry>,
    max_len: u32,
    n_bytes: u64,
    neigh: NeighbourSpace,
}

impl FrameSpace {
    fn new(thorough: bool) -> Self {
        // quick: the boundary-size frames are left out of the neighbourhood (their every-position
        // neighbourhood costs ~2 CPU-minutes); thorough: all.
        let corpus: Vec<Entry> = frame_corpus().into_iter().filter(|e| thorough || !e.big).collect();
        let max_len = if thorough { 3 } else { 2 };
        let neigh = NeighbourSpace::new(corpus.iter().map(|e| e.bytes.len()));
        FrameSpace { n_bytes: n_strings(max_len), max_len, neigh, corpus }
    }
    fn size(&self) -> u64 {
        self.n_bytes + self.neigh.size()
    }
    fn item(&self, i: u64) -> FrameItem {
        if i < self.n_bytes {
            FrameItem::Bytes(string_at(self.max_len, i))
        } else {
            let (k, j) = self.neigh.locate(i - self.n_bytes);
            FrameItem::Neigh(k, mutation(&self.corpus[k].bytes, j))
        }
    }
    fn input(&self, it: &FrameItem) -> Vec<u8> {
        match it {
            FrameItem::Bytes(tail) => [&VERSION[..], tail].concat(),
            FrameItem::Neigh(k, m) => m.apply(&self.corpus[*k].bytes),
        }
    }
    fn witness(&self, it: &FrameItem) -> Value {
        match it {
            FrameItem::Bytes(tail) => json!({"check": "13b", "family": "bytes", "tail_hex": hex(tail)}),
            FrameItem::Neigh(k, m) => json!({"check": "13b", "family": "neighbourhood", "frame": self.corpus[*k].name, "mutation": m.to_json()}),
        }
    }
    fn shape(&self, it: &FrameItem) -> String {
        match it {
            FrameItem::Bytes(tail) => format!("bytes{}", tail.len()),
            FrameItem::Neigh(k, m) => format!("{}:{}", self.corpus[*k].name, m.op()),
        }
    }
}

fn frames_eval(sp: &FrameSpace, it: &FrameItem) -> ItemOut {
    let input = sp.input(it);
    // `measure` arms the counting allocator's hard cap (if the binary installed it).
    let ((frames, end, _residue), _max, _total) = mcx::alloc::measure(|| feed_once(&input));
    let label = result_label(&frames, &end);
    let mut vs = vec![];
    if end == End::NoProgress {
        vs.push(Violation::new(
            "C13/frames/hang/frame-yielded-without-consuming-input",
            format!("deserialize_next returned a frame without consuming input for {}", hex_head(&input, 24)),
            sp.witness(it),
        ));
    }
    let trivial = matches!(it, FrameItem::Bytes(t) if t.is_empty());
    let family = if matches!(it, FrameItem::Bytes(_)) { "bytes" } else { "neigh" };
    let class = if trivial { 0 } else { mcx::fnv64(format!("{}|{label}", sp.shape(it)).as_bytes()) | 1 };
    ItemOut::new(class, format!("13b/{family}:{label}")).with(vs)
}

fn frames_on_panic(sp: &FrameSpace, it: &FrameItem, c: &Caught) -> Violation {
    let input = sp.input(it);
    Violation::new(
        format!("C13/frames/panic/{}", c.site()),
        format!("frame decoding panicked at {}:{} ({}) on input {}", c.file, c.line, c.message, hex_head(&input, 24)),
        sp.witness(it),
    )
    .cost(witness_cost(&input))
}

fn frames_on_crash(sp: &FrameSpace, it: &FrameItem, crash: Crash, tail: &str) -> Violation {
    let input = sp.input(it);
    // The requested size is on the worker's stderr; should that tail be lost, the hard-cap exit
    // code still identifies the cause and the size is the length the input declares.
    let hard_cap_exit = matches!(crash, Crash::Abort { code: Some(c), .. } if c == mcx::alloc::OVERSIZE_EXIT);
    let requested = oversize(tail).or_else(|| alloc_failed(tail)).or_else(|| if hard_cap_exit { declared_payload_len(&input).map(u128::from) } else { None });
    let (fp, what) = match (crash, requested) {
        (Crash::Hang, _) => ("C13/frames/hang".to_string(), "frame decoding did not return within the item timeout".to_string()),
        (_, Some(n)) if n >= 1u128 << 47 => (
            "C13/frames/abort/alloc-beyond-address-space".to_string(),
            format!("frame decoding requested a single allocation of {n} bytes (≥ 2^47: cannot succeed on any machine, the node aborts in handle_alloc_error)"),
        ),
        (_, Some(n)) => (
            "C13/frames/abort/alloc-over-256MiB".to_string(),
            format!("frame decoding requested a single allocation of {n} bytes for a {}-byte input (aborts the node whenever the allocation fails)", input.len()),
        ),
        (c, None) => (format!("C13/frames/abort/{}", crash_label(c)), format!("worker died ({}) while decoding; stderr: {}", crash_label(c), tail.trim())),
    };
    Violation::new(fp, format!("{what}; input {}", hex_head(&input, 24)), sp.witness(it)).cost(witness_cost(&input))
}

/// 13b. See the module documentation.
pub fn frames(ctx: &Ctx) -> Stats {
    let sp = FrameSpace::new(ctx.tier == mcx::Tier::Thorough);
    sweep::procs(
        "c13b-frames",
        sp.size(),
        ProcOpts::default(),
        |i| frames_eval(&sp, &sp.item(i)),
        Some(|i: u64, c: &Caught| frames_on_panic(&sp, &sp.item(i), c)),
        |i, crash, tail: &str| frames_on_crash(&sp, &sp.item(i), crash, tail),
    )
}

/// Re-execute one 13b witness (in an isolated worker, since an abort is a possible verdict).
pub fn frames_replay(w: &Value) -> Vec<Violation> {
    let sp = FrameSpace::new(true);
    let it = match w.get("family").and_then(Value::as_str) {
        Some("bytes") => FrameItem::Bytes(unhex(w.get("tail_hex").and_then(Value::as_str).unwrap_or(""))),
        _ => {
            let name = w.get("frame").and_then(Value::as_str).unwrap_or("");
            let k = sp.corpus.iter().position(|e| e.name == name).unwrap_or_else(|| mcx::report::machinery(&format!("unknown corpus frame {name:?}")));
            let m = w.get("mutation").and_then(Mutation::from_json).unwrap_or_else(|| mcx::report::machinery("bad mutation in witness"));
            FrameItem::Neigh(k, m)
        }
    };
    let mut st = sweep::procs(
        "c13b-replay",
        1,
        ProcOpts::default(),
        |_| frames_eval(&sp, &it),
        Some(|_: u64, c: &Caught| frames_on_panic(&sp, &it, c)),
        |_, crash, tail: &str| frames_on_crash(&sp, &it, crash, tail),
    );
    std::mem::take(&mut st.violations).by_fp.into_values().map(|(mut ws, _)| ws.remove(0)).collect()
}

pub const FRAMES_RULE: &str = "13b: real Deserializer<2 MiB, Frame<Message>> fed (i) 'rad\\x01' followed by every byte string of length ≤2 (quick) / ≤3 (thorough), \
(ii) for every corpus frame (one per message type / control type / git payload width; boundary-size frames only in thorough) every position × {9 substitutions 00,01,3f,40,7f,80,bf,c0,ff; b-1; b+1; truncation; 9 insertions}; \
trivial = the empty tail; distinct = distinct (family or corpus frame, operation, decoder result)";

// ------------------------------------------------------------------------------------------
// 13c — git request header
// ------------------------------------------------------------------------------------------

/// The repository id used in request headers.
pub fn request_rid() -> RepoId {
    rid(0x21)
}

/// Valid request bodies (without the 4-byte length): kind 0 path only, 1 with host, 2 host and
/// port, 3 host + extra parameters, 4 no host but extra parameters.
pub fn request_body(kind: u8) -> Vec<u8> {
    let r = request_rid();
    match kind {
        0 => format!("git-upload-pack /{r}\0"),
        1 => format!("git-upload-pack /{r}\0host=seed.example\0"),
        2 => format!("git-upload-pack /{r}\0host=seed.example:8776\0"),
        3 => format!("git-upload-pack /{r}\0host=seed.example\0\0version=2\0object-format=sha1\0"),
        _ => format!("git-upload-pack /{r}\0\0version=2\0flag\0"),
    }
    .into_bytes()
}

pub fn pkt(body: &[u8]) -> Vec<u8> {
    [format!("{:04x}", body.len() + 4).as_bytes(), body].concat()
}

pub fn valid_request(kind: u8) -> Vec<u8> {
    pkt(&request_body(kind))
}

/// A body of exactly `n` bytes that is a valid request whenever `n` is large enough: the
/// minimal valid body followed by an extra parameter made of filler; shorter `n` truncate it.
fn body_of_len(n: usize) -> Vec<u8> {
    let base = request_body(0); // "git-upload-pack /rad:…\0"
    if n <= base.len() {
        return base[..n].to_vec();
    }
    let mut b = base;
    b.push(0); // empty host part; what follows are extra parameters
    while b.len() < n {
        b.push(b'k');
    }
    b
}

/// Length-field alphabet: hex digits of both cases, a non-hex letter, signs, blank, NUL and two
/// bytes that make the field invalid UTF-8.
pub const LEN_ALPHABET: [u8; 11] = [b'0', b'4', b'f', b'F', b'g', b'+', b'-', b' ', 0x00, 0xff, 0xc3];

enum PktItem {
    /// declared length, supplied body bytes relative to the declared ones (-1, 0, +1)
    Len(u16, i8),
    /// 4 header bytes, body fixed (the 60-byte valid body for "0040")
    Header([u8; 4]),
    /// valid request kind, mutation
    Neigh(usize, Mutation),
}

struct PktSpace {
    valid: Vec<Vec<u8>>,
    neigh: NeighbourSpace,
    n_len: u64,
    n_hdr: u64,
}

impl PktSpace {
    fn new() -> Self {
        let valid: Vec<Vec<u8>> = (0..5).map(valid_request).collect();
        let neigh = NeighbourSpace::new(valid.iter().map(|v| v.len()));
        PktSpace { valid, neigh, n_len: 65536 * 3, n_hdr: (LEN_ALPHABET.len() as u64).pow(4) }
    }
    fn size(&self) -> u64 {
        self.n_len + self.n_hdr + self.neigh.size()
    }
    fn item(&self, i: u64) -> PktItem {
        if i < self.n_len {
            PktItem::Len((i / 3) as u16, (i % 3) as i8 - 1)
        } else if i < self.n_len + self.n_hdr {
            let mut j = i - self.n_len;
            let mut h = [0u8; 4];
            for k in (0..4).rev() {
                h[k] = LEN_ALPHABET[(j % LEN_ALPHABET.len() as u64) as usize];
                j /= LEN_ALPHABET.len() as u64;
            }
            PktItem::Header(h)
        } else {
            let (k, j) = self.neigh.locate(i - self.n_len - self.n_hdr);
            PktItem::Neigh(k, mutation(&self.valid[k], j))
        }
    }
    fn input(&self, it: &PktItem) -> Vec<u8> {
        match it {
            PktItem::Len(l, d) => {
                let declared_body = (*l as usize).saturating_sub(4);
                let supplied = (declared_body as i64 + *d as i64).max(0) as usize;
                // The content is that of a body of the *declared* length, cut or extended by one byte.
                let mut body = body_of_len(declared_body.max(supplied));
                body.truncate(supplied);
                [format!("{l:04x}").as_bytes(), &body[..]].concat()
            }
            PktItem::Header(h) => [&h[..], &body_of_len(0x40 - 4)[..]].concat(),
            PktItem::Neigh(k, m) => m.apply(&self.valid[*k]),
        }
    }
    fn witness(&self, it: &PktItem) -> Value {
        let input = self.input(it);
        match it {
            PktItem::Len(l, d) => json!({"check": "13c", "family": "length", "declared": format!("{l:04x}"), "body_delta": d, "input_hex": hex(&input[..input.len().min(96)]), "input_len": input.len()}),
            PktItem::Header(h) => json!({"check": "13c", "family": "header", "header_hex": hex(h)}),
            PktItem::Neigh(k, m) => json!({"check": "13c", "family": "neighbourhood", "request": k, "mutation": m.to_json()}),
        }
    }
    /// What the 4-byte length field says, read as the pkt-line format defines it.
    fn declared(&self, it: &PktItem) -> Option<usize> {
        let input = self.input(it);
        let field = &input[..input.len().min(4)];
        std::str::from_utf8(field).ok().filter(|_| field.len() == 4).and_then(|s| usize::from_str_radix(s, 16).ok())
    }
    /// Abstract shape of the length field (used in fingerprints and class keys).
    fn shape(&self, it: &PktItem) -> String {
        let input = self.input(it);
        let field = &input[..input.len().min(4)];
        let declared = self.declared(it);
        let len = match declared {
            None if field.len() < 4 => "short-field",
            None => "non-hex",
            Some(0..=3) => "len<4",
            Some(4) => "len=4",
            Some(5..=1024) => "len≤1024",
            Some(_) => "len>1024",
        };
        let fam = match it {
            PktItem::Len(_, d) => ["length/short-body", "length/exact-body", "length/long-body"][(*d + 1) as usize],
            PktItem::Header(_) => "header",
            PktItem::Neigh(_, m) => m.op(),
        };
        format!("{fam}/{len}")
    }
}

fn pkt_eval(sp: &PktSpace, it: &PktItem) -> ItemOut {
    let input = sp.input(it);
    let (res, _, _) = mcx::alloc::measure(|| git_request(&mut &input[..]));
    let label = match &res {
        Ok(req) => format!("Ok(host={},extra={})", if req.host.is_some() { "some" } else { "none" }, req.extra.len().min(3)),
        Err(e) => format!("Err({:?})", e.kind()),
    };
    let shape = sp.shape(it);
    let class = mcx::fnv64(format!("{shape}|{label}").as_bytes()) | 1;
    ItemOut::new(class, format!("13c/{}:{label}", shape.rsplit('/').next().unwrap_or("")))
}

fn pkt_on_panic(sp: &PktSpace, it: &PktItem, c: &Caught) -> Violation {
    let input = sp.input(it);
    let shape = sp.shape(it);
    let len_class = shape.rsplit('/').next().unwrap_or("").to_string();
    Violation::new(
        format!("C13/pktline/panic/{}/{}", c.site(), len_class),
        format!("git_request panicked at {}:{} ({}) on a request header starting {:?} ({} bytes)", c.file, c.line, c.message, String::from_utf8_lossy(&input[..input.len().min(4)]), input.len()),
        sp.witness(it),
    )
    .cost(((sp.declared(it).map(|d| d as u64).unwrap_or(70_000)) << 32) | (witness_cost(&input) & 0xffff_ffff))
}

fn pkt_on_crash(sp: &PktSpace, it: &PktItem, crash: Crash, tail: &str) -> Violation {
    Violation::new(
        format!("C13/pktline/{}", if matches!(crash, Crash::Hang) { "hang".to_string() } else { format!("abort/{}", crash_label(crash)) }),
        format!("git_request worker died ({}); stderr: {}", crash_label(crash), tail.trim()),
        sp.witness(it),
    )
}

/// 13c. See the module documentation.
pub fn pktline(_ctx: &Ctx) -> Stats {
    let sp = PktSpace::new();
    sweep::procs(
        "c13c-pktline",
        sp.size(),
        ProcOpts::default(),
        |i| pkt_eval(&sp, &sp.item(i)),
        Some(|i: u64, c: &Caught| pkt_on_panic(&sp, &sp.item(i), c)),
        |i, crash, tail: &str| pkt_on_crash(&sp, &sp.item(i), crash, tail),
    )
}

pub fn pktline_replay(w: &Value) -> Vec<Violation> {
    let sp = PktSpace::new();
    let it = match w.get("family").and_then(Value::as_str) {
        Some("length") => {
            let l = u16::from_str_radix(w.get("declared").and_then(Value::as_str).unwrap_or("0"), 16).unwrap_or(0);
            PktItem::Len(l, w.get("body_delta").and_then(Value::as_i64).unwrap_or(0) as i8)
        }
        Some("header") => {
            let h = unhex(w.get("header_hex").and_then(Value::as_str).unwrap_or("30303030"));
            PktItem::Header([h[0], h[1], h[2], h[3]])
        }
        _ => {
            let k = w.get("request").and_then(Value::as_u64).unwrap_or(0) as usize;
            let m = w.get("mutation").and_then(Mutation::from_json).unwrap_or_else(|| mcx::report::machinery("bad mutation in witness"));
            PktItem::Neigh(k.min(sp.valid.len() - 1), m)
        }
    };
    let mut st = sweep::procs(
        "c13c-replay",
        1,
        ProcOpts::default(),
        |_| pkt_eval(&sp, &it),
        Some(|_: u64, c: &Caught| pkt_on_panic(&sp, &it, c)),
        |_, crash, tail: &str| pkt_on_crash(&sp, &it, crash, tail),
    );
    std::mem::take(&mut st.violations).by_fp.into_values().map(|(mut ws, _)| ws.remove(0)).collect()
}

/// Replay dispatcher for witnesses produced by this module (`"check": "13b" | "13c"`).
pub fn replay(w: &Value) -> Option<Vec<Violation>> {
    match w.get("check").and_then(Value::as_str) {
        Some("13b") => Some(frames_replay(w)),
        Some("13c") => Some(pktline_replay(w)),
        _ => None,
    }
}

pub const PKTLINE_RULE: &str = "13c: real pktline::git_request on (i) every 4-hex-digit length 0000..ffff × body {one byte short, exact, one byte long} (content: a valid upload-pack request of the declared length), \
(ii) every 4-byte length field over {0,4,f,F,g,+,-,space,NUL,0xff,0xc3} before a valid 60-byte body, (iii) the substitution/truncation/insertion neighbourhood of 5 valid request headers; \
distinct = distinct (family, length-field class, result)";
