//! C16 — At most one fetch per repository, attributed to the right peer.
//!
//! Engine A over a real `Service`. The harness is the wire layer: every `Io::Fetch` becomes an
//! outstanding *token*; a token's result may be delivered later iff its peer is connected at wire
//! level at that moment — exactly the forwarding rule of `Wire::worker_result`, which looks the
//! peer up by node id (so a result for a peer that disconnected and reconnected in the meantime
//! *is* forwarded). A token is *live* from emission until its result is delivered or its peer is
//! disconnected.
//!
//! Invariants: no panic; at most one live token per repository; live tokens per peer within the
//! fetch concurrency limit; queues within capacity; delivering a non-live token's result changes
//! neither the set of ongoing fetches nor any subscriber channel; a subscriber only ever receives
//! the result marker of a live token of the repository and peer it asked for.

#[path = "../svc.rs"]
mod svc;

use std::collections::{BTreeMap, BTreeSet};
use std::time::Duration;

use crossbeam_channel as chan;
use mcx::explore::{self, Bounds, StepOut, System};
use mcx::report::{Ctx, Violation};
use radicle::identity::{DocAt, Visibility};
use radicle::node::policy::Scope;
use radicle::storage::refs::RefsAt;
use radicle_node::prelude::*;
use radicle_node::service::io::Io;
use radicle_node::service::{self, Command, ServiceState};
use radicle_node::worker::{fetch, FetchError};
use radicle_node::Link;
use serde::{Deserialize, Serialize};
use serde_json::json;
use svc::{Peer, Svc};

#[derive(Clone, Copy, Debug, PartialEq, Eq, PartialOrd, Ord, Serialize, Deserialize)]
enum Kind {
    Ok,
    Err,
    Timeout,
}

#[derive(Clone, Debug, PartialEq, Eq, PartialOrd, Ord, Serialize, Deserialize)]
enum Ev {
    Connect(usize),
    /// Transport of peer closed: service-level `disconnected`.
    Disconnect(usize),
    /// A crossing connection of the other direction lost the conflict resolution: the wire reports
    /// `disconnected(peer, <other link>, Conflict)` while the established session stays up.
    CrossDisconnect(usize),
    FetchCmd(usize, usize), // repo, peer
    RefsAnn(usize, usize),  // repo, announcing peer (connected)
    /// Worker result for the k-th outstanding token (in emission order).
    Result(usize, Kind),
    Idle,
}

struct Token {
    n: usize,
    rid: RepoId,
    remote: NodeId,
    live: bool,
}

struct Sub {
    rid: RepoId,
    from: NodeId,
    rx: chan::Receiver<radicle::node::FetchResult>,
    got: Vec<String>,
}

#[derive(Clone, Copy)]
struct Cfg {
    peers: usize,
    repos: usize,
}

struct Sys {
    cfg: Cfg,
    svc: Svc,
    peers: Vec<Peer>,
    rids: Vec<RepoId>,
    doc: DocAt,
    /// Peers with an established transport (results are forwarded for these).
    wire: BTreeSet<usize>,
    /// Peers the service asked to disconnect; transport closing (no forwarding, no new connection
    /// until the service-level `disconnected` is delivered).
    closing: BTreeSet<usize>,
    tokens: Vec<Token>,
    next_token: usize,
    subs: Vec<Sub>,
    steps: u64,
    idles: u64,
    concurrency: usize,
}

fn marker(n: usize) -> String {
    format!("tok#{n}")
}
fn marker_key(n: usize) -> NodeId {
    *radicle::node::device::Device::mock_from_seed([100 + n as u8; 32]).public_key()
}

impl Sys {
    fn new(cfg: Cfg) -> Sys {
        let peers: Vec<Peer> = [("alice", 11u8), ("bob", 12), ("carol", 13)][..cfg.peers].iter().map(|(n, s)| Peer::new(n, *s)).collect();
        let rids: Vec<RepoId> = (0..cfg.repos).map(|i| svc::rid(0x21 + i as u8)).collect();
        let concurrency = 1;
        let b = svc::Build { seed: rids.iter().map(|r| (*r, Scope::All)).collect(), fetch_concurrency: Some(concurrency), ..Default::default() };
        let s = svc::build(b);
        let d = svc::doc(&[&peers[0]], Visibility::Public);
        let (blob, _) = d.encode().unwrap();
        let doc = DocAt { commit: svc::oid(0xdd), blob, doc: d };
        Sys { cfg, svc: s, peers, rids, doc, wire: BTreeSet::new(), closing: BTreeSet::new(), tokens: vec![], next_token: 0, subs: vec![], steps: 0, idles: 0, concurrency }
    }

    fn peer_index(&self, nid: &NodeId) -> Option<usize> {
        self.peers.iter().position(|p| &p.id == nid)
    }

    /// Act as the wire layer on everything the service emitted. Returns labels and violations.
    fn absorb(&mut self, ios: Vec<Io>, labels: &mut Vec<String>, vs: &mut Vec<Violation>) {
        for io in ios {
            match io {
                Io::Fetch { rid, remote, .. } => {
                    let pi = self.peer_index(&remote);
                    let connected = pi.map(|i| self.wire.contains(&i)).unwrap_or(false);
                    if !connected {
                        // `Wire` drops fetches for peers that are not connected.
                        labels.push("fetch-dropped-by-wire".into());
                        continue;
                    }
                    // Invariants at emission.
                    if let Some(other) = self.tokens.iter().find(|t| t.live && t.rid == rid) {
                        vs.push(Violation::new(
                            "C16/two-fetches-in-flight",
                            format!("Io::Fetch for {rid} from {} while token #{} for the same repository (from {}) is still in flight", self.name(&remote), other.n, self.name(&other.remote)),
                            json!({}),
                        ));
                    }
                    let per_peer = self.tokens.iter().filter(|t| t.live && t.remote == remote).count();
                    if per_peer + 1 > self.concurrency {
                        vs.push(Violation::new(
                            "C16/per-peer-concurrency-exceeded",
                            format!("{} live fetches from {} exceed the concurrency limit {}", per_peer + 1, self.name(&remote), self.concurrency),
                            json!({}),
                        ));
                    }
                    let n = self.next_token;
                    self.next_token += 1;
                    self.tokens.push(Token { n, rid, remote, live: true });
                    labels.push("fetch-started".into());
                }
                Io::Disconnect(nid, _) => {
                    if let Some(i) = self.peer_index(&nid) {
                        if self.wire.remove(&i) {
                            self.closing.insert(i);
                            for t in self.tokens.iter_mut().filter(|t| t.remote == nid) {
                                t.live = false;
                            }
                            labels.push("service-disconnects-peer".into());
                        }
                    }
                }
                Io::Connect(nid, _) => {
                    // Outbound attempts are outside this alphabet: the dial fails at once.
                    self.svc.disconnected(nid, Link::Outbound, &service::DisconnectReason::Dial(std::sync::Arc::new(std::io::Error::from(std::io::ErrorKind::ConnectionRefused))));
                    let more = svc::drain(&mut self.svc);
                    labels.push("dial-refused".into());
                    self.absorb(more, labels, vs);
                }
                Io::Write(..) | Io::Wakeup(..) => {}
            }
        }
        // Queue capacity.
        for (nid, s) in self.svc.sessions().iter() {
            if s.queue.len() > service::session::MAX_FETCH_QUEUE_SIZE {
                vs.push(Violation::new("C16/queue-capacity-exceeded", format!("fetch queue of {} has {} entries", self.name(nid), s.queue.len()), json!({})));
            }
        }
    }

    fn name(&self, nid: &NodeId) -> String {
        self.peer_index(nid).map(|i| self.peers[i].name.to_string()).unwrap_or_else(|| nid.to_string())
    }

    /// Read everything that arrived on subscriber channels; returns (sub index, message text).
    fn poll_subs(&mut self) -> Vec<(usize, String)> {
        let mut out = vec![];
        for (i, s) in self.subs.iter_mut().enumerate() {
            while let Ok(r) = s.rx.try_recv() {
                let text = match r {
                    radicle::node::FetchResult::Success { namespaces, .. } => {
                        let mut ks: Vec<String> = namespaces.iter().map(|k| k.to_string()).collect();
                        ks.sort();
                        format!("success:{}", ks.join(","))
                    }
                    radicle::node::FetchResult::Failed { reason } => format!("failed:{reason}"),
                };
                s.got.push(text.clone());
                out.push((i, text));
            }
        }
        out
    }

    fn fetching_snapshot(&self) -> BTreeMap<String, (String, String, usize)> {
        svc::fetching_key(&self.svc)
    }

    fn marker_in(&self, text: &str) -> Option<usize> {
        // Either "failed:…tok#n…" or "success:<marker key>".
        if let Some(i) = text.find("tok#") {
            let digits: String = text[i + 4..].chars().take_while(|c| c.is_ascii_digit()).collect();
            return digits.parse().ok();
        }
        if let Some(rest) = text.strip_prefix("success:") {
            for n in 0..self.next_token {
                if rest.contains(&marker_key(n).to_string()) {
                    return Some(n);
                }
            }
        }
        None
    }
}

impl System for Sys {
    type Ev = Ev;

    fn enabled(&self) -> Vec<Ev> {
        let mut v = vec![];
        for p in 0..self.cfg.peers {
            if !self.wire.contains(&p) && !self.closing.contains(&p) {
                v.push(Ev::Connect(p));
            } else {
                v.push(Ev::Disconnect(p));
                if self.wire.contains(&p) {
                    v.push(Ev::CrossDisconnect(p));
                }
            }
        }
        for r in 0..self.cfg.repos {
            for p in 0..self.cfg.peers {
                v.push(Ev::FetchCmd(r, p));
                if self.wire.contains(&p) {
                    v.push(Ev::RefsAnn(r, p));
                }
            }
        }
        for k in 0..self.tokens.len() {
            for kind in [Kind::Ok, Kind::Err, Kind::Timeout] {
                v.push(Ev::Result(k, kind));
            }
        }
        v.push(Ev::Idle);
        v
    }

    fn is_deviation(&self, ev: &Ev) -> bool {
        match ev {
            Ev::Disconnect(_) | Ev::CrossDisconnect(_) => true,
            Ev::Result(k, _) => !self.tokens[*k].live,
            Ev::FetchCmd(_, p) => !self.wire.contains(p),
            _ => false,
        }
    }

    fn step(&mut self, ev: &Ev) -> StepOut {
        self.steps += 1;
        let mut labels = vec![];
        let mut vs = vec![];
        let mut poisoned = false;
        let drops_before = svc::drops();
        match ev {
            Ev::Connect(p) => {
                let peer = self.peers[*p].clone();
                self.wire.insert(*p);
                let ios = svc::connect_inbound(&mut self.svc, &peer);
                self.absorb(ios, &mut labels, &mut vs);
                // Like every real peer, it introduces itself with its node announcement.
                let ann = peer.node_ann(svc::T0_MS + self.steps);
                self.svc.received_message(peer.id, Message::Announcement(ann));
                let ios = svc::drain(&mut self.svc);
                self.absorb(ios, &mut labels, &mut vs);
                labels.push("connected".into());
            }
            Ev::Disconnect(p) => {
                let peer = self.peers[*p].clone();
                self.wire.remove(p);
                self.closing.remove(p);
                for t in self.tokens.iter_mut().filter(|t| t.remote == peer.id) {
                    t.live = false;
                }
                let ios = svc::disconnect_inbound(&mut self.svc, &peer);
                self.absorb(ios, &mut labels, &mut vs);
                labels.push("disconnected".into());
            }
            Ev::CrossDisconnect(p) => {
                // The established (inbound) session is untouched at wire level.
                let peer = self.peers[*p].clone();
                self.svc.disconnected(peer.id, Link::Outbound, &service::DisconnectReason::Conflict);
                let ios = svc::drain(&mut self.svc);
                self.absorb(ios, &mut labels, &mut vs);
                labels.push("cross-disconnect".into());
            }
            Ev::FetchCmd(r, p) => {
                let (tx, rx) = chan::unbounded();
                let (rid, from) = (self.rids[*r], self.peers[*p].id);
                self.subs.push(Sub { rid, from, rx, got: vec![] });
                self.svc.command(Command::Fetch(rid, from, Duration::from_secs(3), tx));
                let ios = svc::drain(&mut self.svc);
                self.absorb(ios, &mut labels, &mut vs);
                labels.push("fetch-cmd".into());
            }
            Ev::RefsAnn(r, p) => {
                let peer = self.peers[*p].clone();
                let refs = [RefsAt { remote: peer.id, at: svc::oid(0x40 + self.steps as u8) }];
                let ann = peer.refs_ann(self.rids[*r], &refs, svc::T0_MS + self.steps);
                self.svc.received_message(peer.id, Message::Announcement(ann));
                let ios = svc::drain(&mut self.svc);
                self.absorb(ios, &mut labels, &mut vs);
                labels.push("refs-ann".into());
            }
            Ev::Idle => {
                self.idles += 1;
                let ios = svc::elapse(&mut self.svc, service::IDLE_INTERVAL.as_millis() as u64);
                self.absorb(ios, &mut labels, &mut vs);
                labels.push("idle".into());
            }
            Ev::Result(k, kind) => {
                let t = self.tokens.remove(*k);
                let forwarded = self.peer_index(&t.remote).map(|i| self.wire.contains(&i)).unwrap_or(false);
                if !forwarded {
                    // `Wire::worker_result`: peer not connected → result is dropped.
                    labels.push("result-dropped-by-wire".into());
                } else {
                    let before = self.fetching_snapshot();
                    let stale_msgs = self.poll_subs(); // nothing should be pending, but keep the window clean
                    debug_assert!(stale_msgs.is_empty());
                    let result = match kind {
                        Kind::Ok => {
                            let mut r = fetch::FetchResult::new(self.doc.clone());
                            r.namespaces.insert(marker_key(t.n));
                            Ok(r)
                        }
                        Kind::Err => Err(FetchError::Io(std::io::Error::new(std::io::ErrorKind::Other, marker(t.n)))),
                        Kind::Timeout => Err(FetchError::Io(std::io::Error::new(std::io::ErrorKind::TimedOut, marker(t.n)))),
                    };
                    self.svc.fetched(t.rid, t.remote, result);
                    let ios = svc::drain(&mut self.svc);
                    let after_fetching = self.fetching_snapshot();
                    let msgs = self.poll_subs();
                    if !t.live {
                        labels.push("result-of-non-live-token".into());
                        if before != after_fetching {
                            // The service's bookkeeping of a live fetch has just been erased: every
                            // later in-flight / concurrency alarm along this history would only be
                            // a consequence of this defect, so the state is not expanded further.
                            poisoned = true;
                            // Which ongoing fetch did the stale result hit: one from the same peer
                            // (after a reconnect) or one from another peer?
                            let hit_from = before.get(&t.rid.to_string()).map(|e| e.0.clone()).unwrap_or_default();
                            let variant = if hit_from == t.remote.to_string() { "same-peer-after-reconnect" } else { "fetch-from-other-peer" };
                            vs.push(Violation::new(
                                format!("C16/stale-result-changed-ongoing-fetches/{variant}"),
                                format!(
                                    "late result of cancelled fetch #{} ({} from {}) changed the ongoing fetches from {:?} to {:?}",
                                    t.n, t.rid, self.name(&t.remote), before, after_fetching
                                ),
                                json!({}),
                            ));
                        }
                    } else {
                        labels.push("result-of-live-token".into());
                    }
                    for (si, text) in &msgs {
                        if let Some(m) = self.marker_in(text) {
                            let s = &self.subs[*si];
                            if m != t.n {
                                vs.push(Violation::new("C16/subscriber-got-foreign-marker", format!("subscriber got marker of token #{m} while #{} was delivered", t.n), json!({})));
                            } else if !t.live {
                                let variant = if s.from == t.remote { "same-peer-after-reconnect" } else { "fetch-from-other-peer" };
                                vs.push(Violation::new(
                                    format!("C16/stale-result-delivered-to-subscriber/{variant}"),
                                    format!("subscriber waiting for {} from {} received the late result of cancelled fetch #{}", s.rid, self.name(&s.from), t.n),
                                    json!({}),
                                ));
                            } else if s.rid != t.rid || s.from != t.remote {
                                vs.push(Violation::new(
                                    "C16/result-delivered-to-wrong-subscriber",
                                    format!("subscriber asked for {} from {} but received the result of {} from {}", s.rid, self.name(&s.from), t.rid, self.name(&t.remote)),
                                    json!({}),
                                ));
                            }
                        }
                    }
                    if poisoned {
                        // Fetches dequeued by the same call are consequences of the erased
                        // bookkeeping, not separate defects.
                        let mut consequences = vec![];
                        self.absorb(ios, &mut labels, &mut consequences);
                    } else {
                        self.absorb(ios, &mut labels, &mut vs);
                    }
                }
            }
        }
        // Subscriber messages produced by non-result steps (disconnect failures etc.) never carry a marker.
        for (_, text) in self.poll_subs() {
            if let Some(m) = self.marker_in(&text) {
                vs.push(Violation::new("C16/marker-outside-result-step", format!("marker of token #{m} surfaced outside a result step"), json!({})));
            }
        }
        if svc::drops() != drops_before {
            labels.push("message-dropped-before-handler".into());
        }
        labels.sort();
        labels.dedup();
        StepOut { violations: vs, outcome: labels.join("+"), dead: poisoned }
    }

    fn canon(&self) -> Vec<u8> {
        let mut toks: Vec<(String, String, bool)> = self.tokens.iter().map(|t| (t.rid.to_string(), t.remote.to_string(), t.live)).collect();
        // Order matters for Result(k, _) indices only up to renaming; sort for canonical form.
        toks.sort();
        let mut subs: Vec<(String, String, usize)> = self.subs.iter().map(|s| (s.rid.to_string(), s.from.to_string(), s.got.len())).collect();
        subs.sort();
        let key = json!({
            "sessions": svc::session_key(&self.svc),
            "fetching": svc::fetching_key(&self.svc),
            "wire": self.wire, "closing": self.closing,
            "tokens": toks, "subs": subs,
            "idles": self.idles,
        });
        key.to_string().into_bytes()
    }
}

fn main() {
    let ctx = Ctx::from_env("C16", "model_checking");
    svc::install_logger();
    let thorough = ctx.tier == mcx::Tier::Thorough;
    let cfg = if thorough { Cfg { peers: 3, repos: 2 } } else { Cfg { peers: 2, repos: 1 } };
    let (depth, devs) = if thorough { (7, 3) } else { (6, 2) };
    let make = move || Sys::new(cfg);
    if let Some(w) = ctx.replay_witness() {
        // A replay names its own configuration.
        let c = Cfg { peers: w["detail"]["peers"].as_u64().unwrap_or(3) as usize, repos: w["detail"]["repos"].as_u64().unwrap_or(2) as usize };
        ctx.finish_replay(explore::replay::<Sys>("C16", move || Sys::new(c), &w));
    }
    let mut res = explore::explore("C16", make, Bounds::new(depth, devs).wall_secs(if thorough { 1200 } else { 50 }));
    // Tag witnesses with the configuration so that replays rebuild the same system.
    for (_, (ws, _)) in res.violations.by_fp.iter_mut() {
        for w in ws {
            w.witness["detail"] = json!({"peers": cfg.peers, "repos": cfg.repos});
        }
    }
    // Thorough: a second, deeper pass on the small configuration (the stale-result-to-another-peer
    // shape needs seven events with two peers).
    let mut second = None;
    if thorough {
        let small = Cfg { peers: 2, repos: 1 };
        let mut deep = explore::explore("C16", move || Sys::new(small), Bounds::new(8, 3).wall_secs(900));
        for (_, (ws, _)) in deep.violations.by_fp.iter_mut() {
            for w in ws {
                w.witness["detail"] = json!({"peers": small.peers, "repos": small.repos});
            }
        }
        res.violations.merge(std::mem::take(&mut deep.violations));
        second = Some(deep.coverage("second pass: 2 peers, 1 repository, depth 8, deviation budget 3"));
    }
    let mut cov = res.coverage(
        "BFS over all histories of {Connect, Disconnect, FetchCmd(repo,peer), RefsAnn(repo,peer), Result(token, ok|err|timeout), Idle} applied to a real Service \
         (fetch_concurrency=1); deviations = Disconnect, fetch command to a peer that is not connected, result of a token whose peer disconnected since emission; \
         states are canonical keys of (sessions with per-session fetching sets and queues, Service::fetching, wire-level connection sets, outstanding tokens with live flag, waiting subscribers, idle count)",
    );
    if let Some(s) = second {
        cov.insert("second_pass_small_configuration".into(), serde_json::Value::Object(s));
    }
    cov.insert("peers".into(), json!(cfg.peers));
    cov.insert("repos".into(), json!(cfg.repos));
    cov.insert("dropped_before_handler".into(), json!({"rate_limited": svc::RATE_LIMITED.load(std::sync::atomic::Ordering::Relaxed), "session_not_found": svc::SESSION_NOT_FOUND.load(std::sync::atomic::Ordering::Relaxed)}));
    ctx.finish(
        cov,
        &[
            "the harness models the wire layer: results are forwarded iff the peer is connected at wire level (Wire::worker_result), fetches for unconnected peers are dropped (Wire Io::Fetch), a service-requested disconnect stops forwarding at once",
            "the wire delivers `disconnected` before the next `connected` of the same peer (as Wire does on connection conflicts)",
            "inbound sessions only; outbound dials issued by maintain_connections are refused immediately",
        ],
        res.violations,
    );
}
