//! C15 — Wire messages round-trip and have a unique encoding.
//!
//! "Every message the node can construct encodes within the 64 KiB frame limit and decodes to an
//! equal message. Any bytes that decode successfully re-encode to exactly the same bytes (a node
//! announcement without the optional trailing user agent excepted), so a signature checked on the
//! re-encoding is a signature over what the sender sent."
//!
//! Engine B (threads) at the public seam `Message::encode` / `wire::deserialize::<Message>` /
//! `wire::serialize`.
//!
//! * **Space 1 — constructible messages.** The full product of per-field boundary alphabets of
//!   every `Message` variant (see `Variant::dims`): node announcements (version, features,
//!   timestamp 0/1/MAX, alias 1 / 32 bytes / 32 bytes of 2-byte characters, no address, 1 or
//!   ADDRESS_LIMIT addresses of each address type and a mixed maximal list, nonce 0/MAX, user
//!   agent default / minimal / versioned / maximal), inventory 0/1/2/INVENTORY_LIMIT, refs
//!   0/1/2/REF_REMOTE_LIMIT, subscriptions with every filter size × since/until 0/1/MAX, ping and
//!   pong at the documented maxima, info. Oracle: `encode` succeeds with ≤ 65 535 bytes and
//!   `deserialize(encode(m)) == m`. One further constructible input is recorded under its own
//!   fingerprint: an address whose DNS name exceeds 255 bytes (accepted by `Address::from_str`,
//!   hence by the node configuration).
//! * **Space 2 — decodable bytes.** (a) the substitution / truncation / insertion neighbourhood
//!   (every position × {00,01,3f,40,7f,80,bf,c0,ff, b−1, b+1}, cut here, 9 insertions) of every
//!   encoded message of space 1 with ≤ 8 elements (quick: a 48-message sub-product of the node
//!   announcements and one of the three 1 KiB filters); (b) every
//!   byte string of length ≤ 2 (quick) / ≤ 3 (thorough) after each 2-byte message type, valid or
//!   not; (c) ping / pong byte strings whose zero count is at / above the documented maximum.
//!   Oracle: if `deserialize` succeeds then `serialize(decoded) == input`, except when the input
//!   is a node announcement and the re-encoding is the input followed by the encoded default
//!   user agent (i.e. the input ends exactly before the optional user-agent field).

#[path = "../c13_codec.rs"]
mod c13_codec;

use c13_codec::{addr, device, filter, hex, hex_head, inv_ann, mutation, oid, refs_ann, rid, ts, unhex, NeighbourSpace, ADDR_KINDS, TS_MAX};
use mcx::panics::Caught;
use mcx::report::{Ctx, Violation};
use mcx::sweep::{self, ItemOut, Radix, Stats};
use radicle::node::{Alias, Features, UserAgent};
use radicle_node::prelude::*;
use radicle_node::service::message::*;
use radicle_node::wire::{self, Encode};
use serde_json::{json, Value};
use std::str::FromStr;

const LIMIT: usize = wire::Size::MAX as usize;
/// The encoded default user agent `/radicle/` (length-prefixed string), spelled out.
const DEFAULT_AGENT_ENCODED: &[u8] = b"\x09/radicle/";
const TS3: [u64; 3] = [0, 1, TS_MAX];

// ------------------------------------------------------------------------------------------
// Space 1: constructible messages
// ------------------------------------------------------------------------------------------

#[derive(Clone, Copy, Debug, PartialEq, Eq)]
enum Variant {
    Node,
    Inventory,
    Refs,
    Subscribe,
    Ping,
    Pong,
    Info,
}

const VARIANTS: [Variant; 7] = [Variant::Node, Variant::Inventory, Variant::Refs, Variant::Subscribe, Variant::Ping, Variant::Pong, Variant::Info];

fn aliases() -> [Alias; 3] {
    [
        Alias::from_str("a").expect("alias"),
        Alias::from_str("abcdefghijklmnopqrstuvwxyz012345").expect("alias"),
        Alias::from_str(&"é".repeat(16)).expect("alias"), // 32 bytes, 16 characters
    ]
}

fn agents() -> [UserAgent; 4] {
    [c13_codec::agent(0), c13_codec::agent(1), c13_codec::agent(2), c13_codec::agent(3)]
}

/// Address lists: 0 none; 1+2k one address of kind k; 2+2k ADDRESS_LIMIT addresses of kind k; 11 mixed maximal.
fn addresses(sel: u64) -> (String, Vec<Address>) {
    match sel {
        0 => ("none".into(), vec![]),
        11 => ("mixed×16".into(), (0..ADDRESS_LIMIT as u8).map(|i| addr(i % 5, i)).collect()),
        s => {
            let kind = ((s - 1) / 2) as u8;
            if (s - 1) % 2 == 0 {
                (format!("{}×1", ADDR_KINDS[kind as usize]), vec![addr(kind, 1)])
            } else {
                (format!("{}×16", ADDR_KINDS[kind as usize]), (0..ADDRESS_LIMIT as u8).map(|i| addr(kind, i)).collect())
            }
        }
    }
}

const PONGLENS: [u16; 5] = [0, 1, Ping::MAX_PONG_ZEROES, Ping::MAX_PONG_ZEROES + 1, u16::MAX];
const PING_ZEROES: [u16; 3] = [0, 1, Ping::MAX_PING_ZEROES];
const PONG_ZEROES: [u16; 3] = [0, 1, Ping::MAX_PONG_ZEROES];
const COUNTS_INV: [usize; 4] = [0, 1, 2, INVENTORY_LIMIT];
const COUNTS_REFS: [usize; 4] = [0, 1, 2, REF_REMOTE_LIMIT];

impl Variant {
    fn name(&self) -> &'static str {
        match self {
            Variant::Node => "node-announcement",
            Variant::Inventory => "inventory-announcement",
            Variant::Refs => "refs-announcement",
            Variant::Subscribe => "subscribe",
            Variant::Ping => "ping",
            Variant::Pong => "pong",
            Variant::Info => "info",
        }
    }
    fn dims(&self) -> Radix {
        match self {
            // version, features, timestamp, alias, addresses, nonce, agent
            Variant::Node => Radix::new(&[3, 3, 3, 3, 12, 2, 4]),
            // count, timestamp, signer
            Variant::Inventory => Radix::new(&[4, 3, 2]),
            // rid, count, timestamp
            Variant::Refs => Radix::new(&[2, 4, 3]),
            // filter, since, until
            Variant::Subscribe => Radix::new(&[5, 3, 3]),
            // ponglen, zeroes
            Variant::Ping => Radix::new(&[5, 3]),
            Variant::Pong => Radix::new(&[3]),
            // rid, oid
            Variant::Info => Radix::new(&[2, 2]),
        }
    }
    /// Build message `i` of this variant; the bool says whether it has ≤ 8 elements (space 2a).
    fn build(&self, i: u64) -> (String, Message, bool) {
        let d = self.dims().decode(i);
        match self {
            Variant::Node => {
                let (an, av) = addresses(d[4]);
                let small = av.len() <= 8;
                let ann = NodeAnnouncement {
                    version: [0u8, 1, 255][d[0] as usize],
                    features: Features::from([0u64, 1, u64::MAX][d[1] as usize]),
                    timestamp: ts(TS3[d[2] as usize]),
                    alias: aliases()[d[3] as usize].clone(),
                    addresses: BoundedVec::try_from(av).expect("within ADDRESS_LIMIT"),
                    nonce: [0u64, u64::MAX][d[5] as usize],
                    agent: agents()[d[6] as usize].clone(),
                };
                (format!("node{{v{},f{},t{},alias{},addrs={an},nonce{},agent{}}}", d[0], d[1], d[2], d[3], d[5], d[6]), c13_codec::signed(ann, 1), small)
            }
            Variant::Inventory => {
                let n = COUNTS_INV[d[0] as usize];
                (format!("inventory{{n={n},t{}}}", d[1]), c13_codec::signed(inv_ann(n, TS3[d[1] as usize]), 1 + d[2] as u8), n <= 8)
            }
            Variant::Refs => {
                let n = COUNTS_REFS[d[1] as usize];
                (format!("refs{{rid{},n={n},t{}}}", d[0], d[2]), c13_codec::signed(refs_ann(1 + d[0] as u8, n, TS3[d[2] as usize]), 1), n <= 8)
            }
            Variant::Subscribe => (
                format!("subscribe{{filter{},since{},until{}}}", d[0], d[1], d[2]),
                Message::subscribe(filter(d[0] as u8), ts(TS3[d[1] as usize]), ts(TS3[d[2] as usize])),
                d[0] <= 2, // the 1 KiB filters
            ),
            Variant::Ping => {
                let (p, z) = (PONGLENS[d[0] as usize], PING_ZEROES[d[1] as usize]);
                (format!("ping{{ponglen={p},zeroes={z}}}"), Message::Ping(Ping { ponglen: p, zeroes: ZeroBytes::new(z) }), z <= 8)
            }
            Variant::Pong => {
                let z = PONG_ZEROES[d[0] as usize];
                (format!("pong{{zeroes={z}}}"), Message::Pong { zeroes: ZeroBytes::new(z) }, z <= 8)
            }
            Variant::Info => (
                format!("info{{rid{},oid{}}}", d[0], d[1]),
                Message::Info(Info::RefsAlreadySynced { rid: rid(1 + d[0] as u8 * 0xfe), at: oid(d[1] as u8 * 0xff) }),
                true,
            ),
        }
    }
}

struct Space1 {
    offsets: Vec<u64>,
}

impl Space1 {
    fn new() -> Self {
        let mut offsets = vec![0u64];
        for v in VARIANTS {
            offsets.push(offsets.last().unwrap() + v.dims().size());
        }
        Space1 { offsets }
    }
    fn size(&self) -> u64 {
        *self.offsets.last().unwrap()
    }
    fn locate(&self, i: u64) -> (Variant, u64) {
        let k = self.offsets.partition_point(|o| *o <= i) - 1;
        (VARIANTS[k], i - self.offsets[k])
    }
}

fn witness1(v: Variant, j: u64, desc: &str) -> Value {
    json!({"space": "constructible", "variant": v.name(), "index": j, "message": desc})
}

fn eval_constructible(v: Variant, j: u64) -> ItemOut {
    let (desc, m, _) = v.build(j);
    let mut buf: Vec<u8> = Vec::new();
    let mut vs = vec![];
    let outcome;
    match m.encode(&mut buf) {
        Err(e) => {
            vs.push(Violation::new(format!("C15/roundtrip/encode-fails/{}", v.name()), format!("{desc}: Message::encode failed: {e}"), witness1(v, j, &desc)));
            outcome = "ENCODE-FAILS".to_string();
        }
        Ok(n) => {
            if n != buf.len() || buf.len() > LIMIT {
                vs.push(Violation::new(
                    format!("C15/roundtrip/over-limit/{}", v.name()),
                    format!("{desc}: encoded to {} bytes (encode reported {n}); limit {LIMIT}", buf.len()),
                    witness1(v, j, &desc),
                ));
            }
            match wire::deserialize::<Message>(&buf) {
                Ok(back) if back == m => outcome = format!("roundtrip-ok({})", size_class(buf.len())),
                Ok(back) => {
                    vs.push(Violation::new(
                        format!("C15/roundtrip/decodes-different/{}", v.name()),
                        format!("{desc}: decode(encode(m)) = {back:?} ≠ m = {m:?}"),
                        witness1(v, j, &desc),
                    ));
                    outcome = "DECODES-DIFFERENT".to_string();
                }
                Err(e) => {
                    vs.push(Violation::new(
                        format!("C15/roundtrip/decode-fails/{}/{}", v.name(), c13_codec::err_label(&e)),
                        format!("{desc}: its own encoding ({} bytes) is rejected: {e}", buf.len()),
                        witness1(v, j, &desc),
                    ));
                    outcome = "DECODE-FAILS".to_string();
                }
            }
        }
    }
    ItemOut::new(mcx::fnv64(format!("{}/{j}", v.name()).as_bytes()) | 1, format!("constructible/{}:{outcome}", v.name())).with(vs)
}

fn size_class(n: usize) -> &'static str {
    match n {
        0..=255 => "≤255B",
        256..=16383 => "≤16KiB",
        16384..=65000 => "≤65000B",
        _ => "65001..65535B",
    }
}

/// Constructible by configuration: an external address with a DNS name of 256 bytes.
fn long_dns_message() -> Message {
    use cyphernet::addr::{HostName, NetAddr};
    let name = format!("{}.example", "a".repeat(248)); // 256 bytes
    debug_assert_eq!(name.len(), 256);
    let a = Address::from(NetAddr { host: HostName::Dns(name), port: 8776 });
    let ann = NodeAnnouncement {
        version: 1,
        features: Features::SEED,
        timestamp: ts(1_700_000_000_000),
        alias: aliases()[0].clone(),
        addresses: BoundedVec::try_from(vec![a]).expect("one address"),
        nonce: 0,
        agent: UserAgent::default(),
    };
    // Not signed through `signed()` (signing serializes): the announcement is wrapped directly.
    Message::Announcement(Announcement { node: *device(1).public_key(), signature: Signature::from([0u8; 64]), message: ann.into() })
}

fn eval_long_dns() -> ItemOut {
    // `Address::from_str` accepts the name, so the node can be configured with it.
    let parsed = Address::from_str(&format!("{}.example:8776", "a".repeat(248))).is_ok();
    let m = long_dns_message();
    let mut buf = vec![];
    let mut vs = vec![];
    let w = json!({"space": "constructible", "variant": "node-announcement", "edge": "dns-name-256-bytes"});
    let outcome = match mcx::panics::catch(|| m.encode(&mut buf)) {
        Ok(Ok(_)) => match wire::deserialize::<Message>(&buf) {
            Ok(back) if back == m => "roundtrip-ok",
            _ => {
                vs.push(Violation::new("C15/roundtrip/dns-name-over-255/not-equal", "a node announcement with a 256-byte DNS name does not round-trip", w));
                "DECODES-DIFFERENT"
            }
        },
        Ok(Err(e)) => {
            vs.push(Violation::new("C15/roundtrip/dns-name-over-255/encode-fails", format!("a node announcement with a 256-byte DNS name fails to encode: {e}"), w));
            "ENCODE-FAILS"
        }
        Err(c) => {
            vs.push(Violation::new(
                "C15/roundtrip/dns-name-over-255/encode-panics",
                format!(
                    "a node announcement carrying an address with a 256-byte DNS name (Address::from_str accepts it: {parsed}) panics in Message::encode at {}:{} ({})",
                    c.file, c.line, c.message
                ),
                w,
            ));
            "ENCODE-PANICS"
        }
    };
    ItemOut::new(mcx::fnv64(b"long-dns") | 1, format!("constructible/node-announcement(dns name 256 bytes):{outcome}")).with(vs)
}

// ------------------------------------------------------------------------------------------
// Space 2: decodable bytes
// ------------------------------------------------------------------------------------------

fn type_name(input: &[u8]) -> &'static str {
    if input.len() < 2 {
        return "short";
    }
    match u16::from_be_bytes([input[0], input[1]]) {
        2 => "node-announcement",
        4 => "inventory-announcement",
        6 => "refs-announcement",
        8 => "subscribe",
        10 => "ping",
        12 => "pong",
        14 => "info",
        _ => "unknown-type",
    }
}

/// The unique-encoding oracle on one byte string: (outcome label, violations).
fn unique_encoding(input: &[u8], family: &str, witness: &dyn Fn() -> Value) -> (String, Vec<Violation>) {
    let ty = type_name(input);
    let m = match wire::deserialize::<Message>(input) {
        Err(e) => return (format!("rejected:{}", c13_codec::err_label(&e)), vec![]),
        Ok(m) => m,
    };
    let mut buf: Vec<u8> = vec![];
    if let Err(e) = m.encode(&mut buf) {
        return (
            "DECODES-BUT-REENCODE-FAILS".into(),
            vec![Violation::new(
                format!("C15/unique-encoding/reencode-fails/{ty}"),
                format!("{} bytes [{}] decode to {m:?}, which cannot be encoded again: {e}", input.len(), hex_head(input, 24)),
                witness(),
            )
            .cost(witness_cost(input))],
        );
    }
    if buf == input {
        return (format!("decodes-canonical:{ty}"), vec![]);
    }
    if ty == "node-announcement" && buf.len() == input.len() + DEFAULT_AGENT_ENCODED.len() && buf.starts_with(input) && buf.ends_with(DEFAULT_AGENT_ENCODED) {
        return ("decodes-excepted:node-announcement-without-user-agent".into(), vec![]);
    }
    // Abstract shape: the field of the re-encoding in which the first difference lies.
    let first = input.iter().zip(buf.iter()).position(|(a, b)| a != b).unwrap_or(input.len().min(buf.len()));
    let shape = match &m {
        Message::Ping(_) if first >= 6 => "zero-bytes",
        Message::Pong { .. } if first >= 4 => "zero-bytes",
        Message::Announcement(Announcement { message: AnnouncementMessage::Node(n), .. }) if first + 1 + n.agent.as_str().len() >= buf.len() => "user-agent",
        _ if buf.len() != input.len() => "other-field/length-differs",
        _ => "other-field/same-length",
    };
    (
        format!("DECODES-NON-CANONICAL:{ty}/{shape}"),
        vec![Violation::new(
            format!("C15/unique-encoding/{ty}/{shape}"),
            format!(
                "{family}: {} bytes [{}] decode to {m:?} but re-encode to {} bytes [{}] (first difference at offset {first}, in the {shape} part)",
                input.len(),
                hex_head(input, 32),
                buf.len(),
                hex_head(&buf, 32)
            ),
            witness(),
        )
        .cost(witness_cost(input))],
    )
}

/// Shorter inputs first; ties broken by content so that the reported witness does not depend on
/// thread scheduling.
fn witness_cost(input: &[u8]) -> u64 {
    ((input.len() as u64) << 24) | (mcx::fnv64(input) & 0xff_ffff)
}

/// Message types put before the short byte strings: the seven valid ones and two invalid ones.
const TYPES: [u16; 9] = [2, 4, 6, 8, 10, 12, 14, 0, 16];

struct Space2 {
    /// encoded messages with ≤ 8 elements: (description, bytes)
    base: Vec<(String, Vec<u8>)>,
    neigh: NeighbourSpace,
    max_len: u32,
    n_strings: u64,
    /// (kind "ping"/"pong", zero count)
    overlimit: Vec<(&'static str, u16)>,
}

impl Space2 {
    fn new(thorough: bool) -> Self {
        let mut base = vec![];
        for v in VARIANTS {
            for j in 0..v.dims().size() {
                if !thorough && v == Variant::Node {
                    // quick: sub-product version=1, features=1, timestamp {0,MAX}, alias {1,32},
                    // addresses {none, one of each kind}, nonce 0, agent {default, maximal}
                    let d = v.dims().decode(j);
                    let keep = d[0] == 1 && d[1] == 1 && d[2] != 1 && d[3] != 2 && (d[4] == 0 || d[4] % 2 == 1) && d[4] != 11 && d[5] == 0 && (d[6] == 0 || d[6] == 3);
                    if !keep {
                        continue;
                    }
                }
                if !thorough && v == Variant::Subscribe && v.dims().decode(j)[0] != 2 {
                    continue; // quick: one 1 KiB filter (with items) instead of three
                }
                let (desc, m, small) = v.build(j);
                if small {
                    base.push((desc, wire::serialize(&m)));
                }
            }
        }
        let neigh = NeighbourSpace::new(base.iter().map(|b| b.1.len()));
        let max_len = if thorough { 3 } else { 2 };
        let overlimit = vec![
            ("ping", Ping::MAX_PING_ZEROES),
            ("ping", Ping::MAX_PING_ZEROES + 1),
            ("ping", u16::MAX),
            ("pong", Ping::MAX_PONG_ZEROES),
            ("pong", Ping::MAX_PONG_ZEROES + 1),
            ("pong", u16::MAX),
        ];
        Space2 { base, neigh, max_len, n_strings: c13_codec::n_strings(max_len), overlimit }
    }
    fn n_bytes(&self) -> u64 {
        TYPES.len() as u64 * self.n_strings
    }
    fn size(&self) -> u64 {
        self.neigh.size() + self.n_bytes() + self.overlimit.len() as u64
    }
}

fn overlimit_bytes(kind: &str, zeroes: u16) -> Vec<u8> {
    let mut b = if kind == "ping" { vec![0u8, 10, 0, 0] } else { vec![0u8, 12] };
    b.extend(zeroes.to_be_bytes());
    b.extend(std::iter::repeat(0u8).take(zeroes as usize));
    b
}

/// The input of item `i` of space 2, with its witness and a description of the family.
fn space2_item(sp: &Space2, i: u64) -> (Vec<u8>, Value, String, String) {
    if i < sp.neigh.size() {
        let (k, j) = sp.neigh.locate(i);
        let (desc, bytes) = &sp.base[k];
        let m = mutation(bytes, j);
        let input = m.apply(bytes);
        let w = json!({"space": "decodable", "family": "neighbourhood", "of": desc, "mutation": m.to_json(), "input_hex": hex(&input)});
        let shape = if input == *bytes { String::new() } else { format!("{}|{}", type_name(bytes), m.op()) };
        (input, w, format!("{} of {desc} at {}", m.op(), m.pos()), shape)
    } else if i < sp.neigh.size() + sp.n_bytes() {
        let j = i - sp.neigh.size();
        let ty = TYPES[(j / sp.n_strings) as usize];
        let tail = c13_codec::string_at(sp.max_len, j % sp.n_strings);
        let input = [&ty.to_be_bytes()[..], &tail[..]].concat();
        let w = json!({"space": "decodable", "family": "type+bytes", "input_hex": hex(&input)});
        (input, w, "message type followed by a short byte string".into(), format!("{ty}|{}", tail.len()))
    } else {
        let (kind, z) = sp.overlimit[(i - sp.neigh.size() - sp.n_bytes()) as usize];
        let input = overlimit_bytes(kind, z);
        let w = json!({"space": "decodable", "family": "zero-count-at-or-above-maximum", "kind": kind, "zeroes": z, "input_len": input.len()});
        let what = format!("{kind} with {z} zero bytes ({} bytes)", input.len());
        (input, w, what, format!("{kind}|{z}"))
    }
}

fn eval_space2(sp: &Space2, i: u64) -> ItemOut {
    // The witness is only rendered when a violation needs it.
    let (input, _, what, shape) = space2_item_lazy(sp, i);
    let (label, vs) = unique_encoding(&input, &what, &|| space2_item(sp, i).1);
    let family = if i < sp.neigh.size() {
        "neighbourhood".to_string()
    } else if i < sp.neigh.size() + sp.n_bytes() {
        "type+bytes".to_string()
    } else {
        format!("zero-count({})", if input.len() > LIMIT { ">65535B" } else { "≤65535B" })
    };
    let class = if shape.is_empty() { 0 } else { mcx::fnv64(format!("{shape}|{label}").as_bytes()) | 1 };
    ItemOut::new(class, format!("{family}/{label}")).with(vs)
}

/// Same as [`space2_item`] without rendering the (hex) witness.
fn space2_item_lazy(sp: &Space2, i: u64) -> (Vec<u8>, (), String, String) {
    if i < sp.neigh.size() {
        let (k, j) = sp.neigh.locate(i);
        let (desc, bytes) = &sp.base[k];
        let m = mutation(bytes, j);
        let input = m.apply(bytes);
        let shape = if input == *bytes { String::new() } else { format!("{}|{}", type_name(bytes), m.op()) };
        (input, (), format!("{} of {desc} at {}", m.op(), m.pos()), shape)
    } else {
        let (input, _, what, shape) = space2_item(sp, i);
        (input, (), what, shape)
    }
}

// ------------------------------------------------------------------------------------------

fn panic_violation(c: &Caught, what: &str, w: Value) -> Violation {
    Violation::new(format!("C15/panic/{}", c.site()), format!("{what}: panic at {}:{} ({})", c.file, c.line, c.message), w)
}

fn replay(w: &Value) -> Vec<Violation> {
    let run = |f: &dyn Fn() -> Vec<Violation>| match mcx::panics::catch(f) {
        Ok(v) => v,
        Err(c) => vec![panic_violation(&c, "replay", w.clone())],
    };
    match w.get("space").and_then(Value::as_str) {
        Some("constructible") => {
            if w.get("edge").is_some() {
                return run(&|| eval_long_dns().violations);
            }
            let name = w.get("variant").and_then(Value::as_str).unwrap_or("");
            let v = VARIANTS.iter().copied().find(|v| v.name() == name).unwrap_or_else(|| mcx::report::machinery("unknown variant in witness"));
            let j = w.get("index").and_then(Value::as_u64).unwrap_or(0).min(v.dims().size() - 1);
            run(&|| eval_constructible(v, j).violations)
        }
        Some("decodable") => {
            let input = match w.get("input_hex").and_then(Value::as_str) {
                Some(h) => unhex(h),
                None => overlimit_bytes(w.get("kind").and_then(Value::as_str).unwrap_or("ping"), w.get("zeroes").and_then(Value::as_u64).unwrap_or(0) as u16),
            };
            run(&|| unique_encoding(&input, "replay", &|| w.clone()).1)
        }
        _ => mcx::report::machinery("witness has no known space"),
    }
}

fn main() {
    let ctx = Ctx::from_env("C15", "exploration");
    let thorough = ctx.tier == mcx::Tier::Thorough;
    if let Some(w) = ctx.replay_witness() {
        ctx.finish_replay(replay(&w));
    }

    let mut st = Stats::default();

    // Space 1 (same in both tiers) + the configured-address edge.
    let s1 = Space1::new();
    let n1 = s1.size() + 1;
    st.merge(sweep::threads(
        n1,
        |i| {
            if i == s1.size() {
                return eval_long_dns();
            }
            let (v, j) = s1.locate(i);
            eval_constructible(v, j)
        },
        Some(|i: u64, c: &Caught| {
            let (v, j) = s1.locate(i.min(s1.size() - 1));
            let (desc, _, _) = v.build(j);
            panic_violation(c, &format!("encode / decode of the constructible message {desc}"), witness1(v, j, &desc))
        }),
    ));

    // Space 2.
    let s2 = Space2::new(thorough);
    st.merge(sweep::threads(
        s2.size(),
        |i| eval_space2(&s2, i),
        Some(|i: u64, c: &Caught| {
            let (_, w, what, _) = space2_item(&s2, i);
            panic_violation(c, &format!("decode / re-encode of received bytes ({what})"), w)
        }),
    ));

    let samples = vec![
        witness1(Variant::Node, 4321, &Variant::Node.build(4321).0),
        witness1(Variant::Subscribe, 44, &Variant::Subscribe.build(44).0),
        json!({"space": "decodable", "family": "neighbourhood", "of": s2.base[s2.base.len() / 2].0, "mutation": mutation(&s2.base[s2.base.len() / 2].1, 100).to_json()}),
        json!({"space": "decodable", "family": "type+bytes", "input_hex": "000c0001ff"}),
    ];
    let mut cov = st.coverage(
        "space 1: full product of the per-field boundary alphabets of each Message variant (node 3·3·3·3·12·2·4, inventory 4·3·2, refs 2·4·3, subscribe 5·3·3, ping 5·3, pong 3, info 2·2) plus one announcement with a 256-byte DNS name; \
         space 2: (a) every position × {9 substitutions, b-1, b+1, cut, 9 insertions} of every encoded space-1 message with ≤ 8 elements (quick: 48-message sub-product of the node announcements, one of the three 1 KiB filters), \
         (b) each of 9 two-byte message types followed by every byte string of length ≤2 (quick) / ≤3 (thorough), (c) ping/pong byte strings with a zero count at, one above, and far above the documented maximum; \
         trivial = a mutation that leaves the message unchanged; distinct = distinct message (space 1) / distinct (message type, operation or tail length, decoder verdict) (space 2)",
        samples,
    );
    cov.insert("constructible_messages".into(), json!(n1));
    cov.insert("neighbourhood_base_messages".into(), json!(s2.base.len()));
    cov.insert("neighbourhood_items".into(), json!(s2.neigh.size()));
    cov.insert("type_plus_bytes_items".into(), json!(s2.n_bytes()));
    ctx.finish(
        cov,
        &[
            "seam: Message::encode, wire::serialize, wire::deserialize::<Message> (public)",
            "messages are signed with MockSigner keys from fixed seeds; the codec does not look at signature validity",
            "the excepted case is recognised on the bytes: type 2 and re-encoding = input ++ 0x09 \"/radicle/\"",
            "a message with more than 8 list elements / zero bytes is covered by space 1 only",
        ],
        std::mem::take(&mut st.violations),
    );
}
