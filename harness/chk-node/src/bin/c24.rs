//! C24 — The node's persistent stores behave like in-memory maps.
//!
//! Engine A, one exploration per store (routing table, repository sync status, refs cache, seeding
//! / following policies, gossip announcements). Each drives the real store (`Database::memory()`,
//! `policy::Store::memory()`) with every operation sequence over a small alphabet, next to a
//! `BTreeMap` model transcribed from the property statement:
//!
//!  * routing: an entry's timestamp only increases; pruning never removes the local node's entries;
//!  * sync status / refs cache: an entry moves only to a strictly newer timestamp with a different value;
//!  * seeding / following policies reflect the last write;
//!  * a stored announcement is replaced only by a strictly newer one of the same kind.
//!
//! After every operation the whole store is dumped through its public query API and compared
//! with the model. Return values of mutating operations are recorded in the outcome histogram but
//! not judged (the statement is silent about them). The sqlite handles cannot be forked, so states
//! are rebuilt by replaying the history on an empty in-memory database.

use mcx::explore::{self, Bounds, Result_, StepOut, System};
use mcx::report::{Ctx, Violation, Violations};
use radicle::git::Oid;
use radicle::node::device::Device;
use radicle::node::policy::{Policy, Scope, SeedingPolicy};
use radicle::node::{Alias, Database, Features, NodeId, Timestamp, UserAgent};
use radicle::prelude::RepoId;
use radicle_node::prelude::BoundedVec;
use radicle_node::service::filter::Filter;
use radicle_node::service::gossip::{self, RelayStatus};
use radicle_node::service::message::{Announcement, AnnouncementMessage, InventoryAnnouncement, NodeAnnouncement, RefsAnnouncement};
use serde::{Deserialize, Serialize};
use serde_json::{json, Value};
use std::collections::{BTreeMap, BTreeSet};
use std::fmt::Debug;
use std::str::FromStr;
use std::sync::OnceLock;

// ───────────────────────────── fixtures ─────────────────────────────

/// Node 0 is the local node.
fn device(i: u8) -> &'static Device<radicle::crypto::test::signer::MockSigner> {
    static D: OnceLock<Vec<Device<radicle::crypto::test::signer::MockSigner>>> = OnceLock::new();
    &D.get_or_init(|| (0..3u8).map(|k| Device::mock_from_seed([60 + k; 32])).collect())[i as usize]
}
fn nid(i: u8) -> NodeId {
    *device(i).public_key()
}
fn node_ix(n: &NodeId) -> u8 {
    (0..3u8).find(|i| nid(*i) == *n).expect("node of the universe")
}
fn oid(k: u8) -> Oid {
    Oid::from_str(&format!("{:040x}", 0xabc000u32 + k as u32)).unwrap()
}
fn rid(k: u8) -> RepoId {
    RepoId::from(oid(100 + k))
}
fn rid_ix(r: &RepoId) -> u8 {
    (0..2u8).find(|i| rid(*i) == *r).expect("repo of the universe")
}
fn ts(t: u8) -> Timestamp {
    Timestamp::try_from(t as u64).unwrap()
}

thread_local! {
    /// Emptied databases waiting for reuse by this worker (see `recycle`).
    static POOL: std::cell::RefCell<Vec<(u8, Database)>> = const { std::cell::RefCell::new(Vec::new()) };
}

/// An empty in-memory node database knowing the local node and the other nodes of the universe
/// (routing and sync-status rows reference the `nodes` table). Opening and migrating a database
/// costs ten times more than a store operation and serialises the workers on the allocator, so a
/// worker reuses the databases of the systems it has dropped once all rows of the four tables
/// under test are deleted (row ids restart at 1 in an empty table). The engine's replay check —
/// every stored history must reach the same canonical key again, row ids and row order included —
/// guards this on every state.
fn database(nodes: u8) -> Database {
    use radicle::node::address::Store as _;
    let pooled = POOL.with(|p| {
        let mut p = p.borrow_mut();
        p.iter().position(|(n, _)| *n == nodes).map(|i| p.swap_remove(i).1)
    });
    if let Some(db) = pooled {
        return db;
    }
    let mut db = Database::memory()
        .unwrap()
        .init(&nid(0), Features::SEED, &Alias::new("local"), &UserAgent::default(), ts(1), [].iter())
        .unwrap();
    for i in 1..nodes {
        db.insert(&nid(i), 1, Features::SEED, &Alias::new(format!("n{i}")), 0, &UserAgent::default(), ts(1), []).unwrap();
    }
    db
}

/// Called when a system is dropped: empty the tables and keep the handle for the next system.
fn recycle(nodes: u8, db: &Database) {
    if std::thread::panicking() {
        return; // a store operation panicked half-way: this database is not reused
    }
    let emptied = db.db.execute("DELETE FROM routing; DELETE FROM `repo-sync-status`; DELETE FROM refs; DELETE FROM announcements;").is_ok();
    if emptied {
        POOL.with(|p| {
            let mut p = p.borrow_mut();
            if p.len() < 8 {
                p.push((nodes, db.clone()));
            }
        });
    }
}

/// Compare the real store's dump with the model; classify the first difference.
fn diff<K: Ord + Debug, V: PartialEq + Debug>(store: &str, op: &str, before: &BTreeMap<K, V>, model: &BTreeMap<K, V>, real: &BTreeMap<K, V>) -> Vec<Violation> {
    let mut out: BTreeMap<String, Violation> = BTreeMap::new();
    let keys: BTreeSet<&K> = model.keys().chain(real.keys()).collect();
    for k in keys {
        let (m, r, b) = (model.get(k), real.get(k), before.get(k));
        if m == r {
            continue;
        }
        let kind = if r == b {
            "write-lost" // the store kept the old state although the rule says the write applies
        } else if m == b {
            "changed-against-rule" // the rule says the entry stays as it was, the store changed it
        } else {
            "wrong-value"
        };
        let fp = format!("C24/{store}/{op}/{kind}");
        out.entry(fp.clone()).or_insert_with(|| {
            Violation::new(fp, format!("{store} after {op}: entry {k:?} was {b:?}, model says {m:?}, store says {r:?}"), json!({"key": format!("{k:?}"), "before": format!("{b:?}"), "model": format!("{m:?}"), "store": format!("{r:?}")}))
        });
    }
    out.into_values().collect()
}

fn inconsistent(store: &str, query: &str, what: String) -> Violation {
    Violation::new(format!("C24/{store}/query-inconsistent/{query}"), what, Value::Null)
}

// ───────────────────────────── routing ─────────────────────────────

#[derive(Clone, Debug, PartialEq, Eq, PartialOrd, Ord, Serialize, Deserialize)]
enum REv {
    RoutingAdd { repos: u8, node: u8, ts: u8 },
    RoutingRemove { repo: u8, node: u8 },
    RoutingRemoveMany { repos: u8, node: u8 },
    RoutingPrune { cutoff: u8, limit: Option<u8> },
}

#[derive(Clone, Copy)]
struct RSpace {
    nodes: u8,
}

struct RSys {
    sp: RSpace,
    db: Database,
    model: BTreeMap<(u8, u8), u64>,
    dump: BTreeMap<(u8, u8), u64>,
}

fn repos_of(mask: u8) -> Vec<RepoId> {
    (0..2u8).filter(|r| mask & (1 << r) != 0).map(rid).collect()
}

impl RSys {
    fn new(sp: RSpace) -> Self {
        RSys { sp, db: database(sp.nodes), model: BTreeMap::new(), dump: BTreeMap::new() }
    }

    fn dump(&self, vs: &mut Vec<Violation>) -> BTreeMap<(u8, u8), u64> {
        use radicle::node::routing::Store as _;
        let mut m = BTreeMap::new();
        for r in 0..2u8 {
            for n in 0..self.sp.nodes {
                if let Some(t) = self.db.entry(&rid(r), &nid(n)).unwrap() {
                    m.insert((r, n), *t);
                }
            }
        }
        // The other queries must describe the same table.
        for r in 0..2u8 {
            let want: BTreeSet<u8> = m.keys().filter(|k| k.0 == r).map(|k| k.1).collect();
            let got: BTreeSet<u8> = self.db.get(&rid(r)).unwrap().iter().map(node_ix).collect();
            if got != want {
                vs.push(inconsistent("routing", "get", format!("get(repo {r}) = {got:?} but entry() says {want:?}")));
            }
            let c = self.db.count(&rid(r)).unwrap();
            if c != want.len() {
                vs.push(inconsistent("routing", "count", format!("count(repo {r}) = {c} but entry() says {}", want.len())));
            }
        }
        for n in 0..self.sp.nodes {
            let want: BTreeSet<u8> = m.keys().filter(|k| k.1 == n).map(|k| k.0).collect();
            let got: BTreeSet<u8> = self.db.get_inventory(&nid(n)).unwrap().iter().map(rid_ix).collect();
            if got != want {
                vs.push(inconsistent("routing", "get_inventory", format!("get_inventory(node {n}) = {got:?} but entry() says {want:?}")));
            }
        }
        let all: Vec<(u8, u8)> = self.db.entries().unwrap().map(|(r, n)| (rid_ix(&r), node_ix(&n))).collect();
        let all_set: BTreeSet<(u8, u8)> = all.iter().copied().collect();
        if all.len() != all_set.len() || all_set != m.keys().copied().collect() {
            vs.push(inconsistent("routing", "entries", format!("entries() = {all:?} but entry() says {:?}", m.keys().collect::<Vec<_>>())));
        }
        let len = self.db.len().unwrap();
        if len != m.len() || self.db.is_empty().unwrap() != m.is_empty() {
            vs.push(inconsistent("routing", "len", format!("len() = {len} but entry() says {}", m.len())));
        }
        m
    }
}

impl Drop for RSys {
    fn drop(&mut self) {
        recycle(self.sp.nodes, &self.db);
    }
}

impl System for RSys {
    type Ev = REv;

    fn enabled(&self) -> Vec<REv> {
        let mut v = vec![];
        for n in 0..self.sp.nodes {
            for repos in 1..4u8 {
                for t in 1..4u8 {
                    v.push(REv::RoutingAdd { repos, node: n, ts: t });
                }
            }
            for r in 0..2u8 {
                v.push(REv::RoutingRemove { repo: r, node: n });
            }
            v.push(REv::RoutingRemoveMany { repos: 3, node: n });
        }
        for cutoff in 2..5u8 {
            for limit in [None, Some(1u8)] {
                v.push(REv::RoutingPrune { cutoff, limit });
            }
        }
        v
    }

    fn step(&mut self, ev: &REv) -> StepOut {
        use radicle::node::routing::Store as _;
        let before = self.model.clone();
        let mut vs = vec![];
        let (op, outcome);
        match *ev {
            REv::RoutingAdd { repos, node, ts: t } => {
                let ids = repos_of(repos);
                let ret = self.db.add_inventory(ids.iter(), nid(node), ts(t)).unwrap();
                // Rule: a new entry is inserted; an existing entry's timestamp only increases.
                for r in (0..2u8).filter(|r| repos & (1 << r) != 0) {
                    let e = self.model.entry((r, node)).or_insert(t as u64);
                    if (t as u64) > *e {
                        *e = t as u64;
                    }
                }
                op = "add";
                outcome = format!("routing.add:{:?}", ret.iter().map(|(_, r)| format!("{r:?}")).collect::<Vec<_>>());
            }
            REv::RoutingRemove { repo, node } => {
                let ret = self.db.remove_inventory(&rid(repo), &nid(node)).unwrap();
                self.model.remove(&(repo, node));
                op = "remove";
                outcome = format!("routing.remove:{ret}");
            }
            REv::RoutingRemoveMany { repos, node } => {
                let ids = repos_of(repos);
                self.db.remove_inventories(ids.iter(), &nid(node)).unwrap();
                for r in (0..2u8).filter(|r| repos & (1 << r) != 0) {
                    self.model.remove(&(r, node));
                }
                op = "remove-many";
                outcome = "routing.remove_many".to_string();
            }
            REv::RoutingPrune { cutoff, limit } => {
                let ret = self.db.prune(ts(cutoff), limit.map(|l| l as usize), &nid(0)).unwrap();
                // Map semantics of a bounded prune: it removes only entries older than the cutoff,
                // never the local node's, at most `limit` of them — and all of them without a limit.
                // Which ones a bounded prune picks is not stated: the model adopts the store's choice.
                let real = self.dump(&mut vec![]);
                let removed: Vec<(u8, u8)> = self.model.keys().filter(|k| !real.contains_key(k)).copied().collect();
                let eligible: Vec<(u8, u8)> = self.model.iter().filter(|(k, t)| **t < cutoff as u64 && k.1 != 0).map(|(k, _)| *k).collect();
                let wit = || json!({"cutoff": cutoff, "limit": limit, "before": format!("{:?}", self.model), "removed": format!("{removed:?}")});
                for k in &removed {
                    if k.1 == 0 {
                        vs.push(Violation::new("C24/routing/prune/removed-local-node-entry", format!("prune(cutoff {cutoff}, limit {limit:?}, ignore local) removed the local node's entry {k:?}"), wit()));
                    } else if self.model[k] >= cutoff as u64 {
                        vs.push(Violation::new("C24/routing/prune/removed-entry-not-older-than-cutoff", format!("prune(cutoff {cutoff}) removed {k:?} with timestamp {}", self.model[k]), wit()));
                    }
                }
                match limit {
                    Some(l) if removed.len() > l as usize => {
                        vs.push(Violation::new("C24/routing/prune/removed-more-than-limit", format!("prune(limit {l}) removed {} entries", removed.len()), wit()));
                    }
                    None if removed.len() < eligible.len() => {
                        vs.push(Violation::new("C24/routing/prune/unbounded-prune-left-old-entries", format!("prune(cutoff {cutoff}, no limit) removed {removed:?} of the eligible {eligible:?}"), wit()));
                    }
                    _ => {}
                }
                let shadowed = limit.is_some() && removed.len() < eligible.len().min(limit.unwrap() as usize);
                for k in &removed {
                    if eligible.contains(k) {
                        self.model.remove(k);
                    }
                }
                op = "prune";
                outcome = format!(
                    "routing.prune:{}:removed={}{}:ret={ret}",
                    if limit.is_some() { "limited" } else { "unlimited" },
                    removed.len(),
                    if shadowed { ":limit-spent-on-local-entries" } else { "" }
                );
            }
        }
        self.dump = self.dump(&mut vs);
        vs.extend(diff("routing", op, &before, &self.model, &self.dump));
        self.model = self.dump.clone(); // a reported difference is not carried into later steps
        StepOut { violations: vs, outcome, dead: false }
    }

    fn canon(&self) -> Vec<u8> {
        // A bounded prune picks among equally old rows by physical order: the insertion order of
        // the rows is part of the state (read from the table for the canonical key only).
        let mut order = vec![];
        if let Ok(stmt) = self.db.db.prepare("SELECT repo, node FROM routing ORDER BY rowid") {
            for row in stmt.into_iter().flatten() {
                order.push(format!("{}/{}", row.read::<&str, _>("repo"), row.read::<&str, _>("node")));
            }
        }
        format!("{:?}|{:?}|{}", self.dump, self.model, order.join(",")).into_bytes()
    }
}

// ───────────────────────────── repository sync status ─────────────────────────────

#[derive(Clone, Debug, PartialEq, Eq, PartialOrd, Ord, Serialize, Deserialize)]
enum SEv {
    SeedSynced { repo: u8, node: u8, oid: u8, ts: u8 },
}

struct SSys {
    nodes: u8,
    db: Database,
    model: BTreeMap<(u8, u8), (u8, u64)>,
    dump: BTreeMap<(u8, u8), (u8, u64)>,
}

fn oid_ix(o: &Oid) -> u8 {
    (0..3u8).find(|k| oid(*k) == *o).expect("oid of the universe")
}

impl SSys {
    fn new(nodes: u8) -> Self {
        SSys { nodes, db: database(nodes), model: BTreeMap::new(), dump: BTreeMap::new() }
    }
    fn dump(&self, vs: &mut Vec<Violation>) -> BTreeMap<(u8, u8), (u8, u64)> {
        use radicle::node::seed::Store as _;
        let mut m = BTreeMap::new();
        for r in 0..2u8 {
            let mut n_rows = 0;
            for s in self.db.seeds_for(&rid(r)).unwrap() {
                let s = s.unwrap();
                n_rows += 1;
                m.insert((r, node_ix(&s.nid)), (oid_ix(&s.synced_at.oid), s.synced_at.timestamp.as_millis() as u64));
            }
            if n_rows != m.keys().filter(|k| k.0 == r).count() {
                vs.push(inconsistent("sync-status", "seeds_for", format!("seeds_for(repo {r}) returned a node twice")));
            }
        }
        let mut by_node = BTreeMap::new();
        for n in 0..self.nodes {
            for e in self.db.seeded_by(&nid(n)).unwrap() {
                let (r, at) = e.unwrap();
                by_node.insert((rid_ix(&r), n), (oid_ix(&at.oid), at.timestamp.as_millis() as u64));
            }
        }
        if by_node != m {
            vs.push(inconsistent("sync-status", "seeded_by", format!("seeded_by says {by_node:?}, seeds_for says {m:?}")));
        }
        m
    }
}

impl Drop for SSys {
    fn drop(&mut self) {
        recycle(self.nodes, &self.db);
    }
}

impl System for SSys {
    type Ev = SEv;
    fn enabled(&self) -> Vec<SEv> {
        let mut v = vec![];
        for repo in 0..2u8 {
            for node in 0..self.nodes {
                for o in 0..2u8 {
                    for t in 1..4u8 {
                        v.push(SEv::SeedSynced { repo, node, oid: o, ts: t });
                    }
                }
            }
        }
        v
    }
    fn step(&mut self, ev: &SEv) -> StepOut {
        use radicle::node::seed::Store as _;
        let before = self.model.clone();
        let mut vs = vec![];
        let SEv::SeedSynced { repo, node, oid: o, ts: t } = *ev;
        let ret = self.db.synced(&rid(repo), &nid(node), oid(o), ts(t)).unwrap();
        // Rule: only to a strictly newer timestamp with a different value.
        let branch = match self.model.get(&(repo, node)).copied() {
            None => {
                self.model.insert((repo, node), (o, t as u64));
                "new"
            }
            Some((o0, t0)) => {
                if (t as u64) > t0 && o != o0 {
                    self.model.insert((repo, node), (o, t as u64));
                    "newer-different"
                } else if (t as u64) > t0 {
                    "newer-same-value"
                } else if o != o0 {
                    "not-newer-different"
                } else {
                    "not-newer-same-value"
                }
            }
        };
        self.dump = self.dump(&mut vs);
        vs.extend(diff("sync-status", "synced", &before, &self.model, &self.dump));
        self.model = self.dump.clone(); // a reported difference is not carried into later steps
        StepOut { violations: vs, outcome: format!("sync-status.synced:{branch}:ret={ret}"), dead: false }
    }
    fn canon(&self) -> Vec<u8> {
        format!("{:?}|{:?}", self.dump, self.model).into_bytes()
    }
}

// ───────────────────────────── refs cache ─────────────────────────────

#[derive(Clone, Debug, PartialEq, Eq, PartialOrd, Ord, Serialize, Deserialize)]
enum FEv {
    RefsSet { key: u8, oid: u8, ts: u8 },
    RefsDelete { key: u8 },
}

/// Keys differ from key 0 in exactly one component each (repo, namespace, ref name), plus one
/// that differs in all.
const REF_KEYS: [(u8, u8, u8); 5] = [(0, 0, 0), (1, 0, 0), (0, 1, 0), (0, 0, 1), (1, 1, 1)];

fn refname(k: u8) -> radicle::git::Qualified<'static> {
    if k == 0 {
        radicle::git::qualified!("refs/heads/master")
    } else {
        radicle::git::qualified!("refs/heads/main")
    }
}

struct FSys {
    keys: u8,
    db: Database,
    model: BTreeMap<u8, (u8, u64)>,
    dump: BTreeMap<u8, (u8, u64)>,
}

impl FSys {
    fn new(keys: u8) -> Self {
        FSys { keys, db: database(2), model: BTreeMap::new(), dump: BTreeMap::new() }
    }
    fn dump(&self, vs: &mut Vec<Violation>) -> BTreeMap<u8, (u8, u64)> {
        use radicle::node::refs::Store as _;
        let mut m = BTreeMap::new();
        for k in 0..self.keys {
            let (r, n, name) = REF_KEYS[k as usize];
            if let Some((o, t)) = self.db.get(&rid(r), &nid(n), &refname(name)).unwrap() {
                m.insert(k, (oid_ix(&o), t.as_millis() as u64));
            }
        }
        let c = self.db.count().unwrap();
        if c != m.len() || self.db.is_empty().unwrap() != m.is_empty() {
            vs.push(inconsistent("refs", "count", format!("count() = {c} but get() finds {}", m.len())));
        }
        m
    }
}

impl Drop for FSys {
    fn drop(&mut self) {
        recycle(2, &self.db);
    }
}

impl System for FSys {
    type Ev = FEv;
    fn enabled(&self) -> Vec<FEv> {
        let mut v = vec![];
        for key in 0..self.keys {
            for o in 0..2u8 {
                for t in 1..4u8 {
                    v.push(FEv::RefsSet { key, oid: o, ts: t });
                }
            }
            v.push(FEv::RefsDelete { key });
        }
        v
    }
    fn step(&mut self, ev: &FEv) -> StepOut {
        use radicle::node::refs::Store as _;
        let before = self.model.clone();
        let mut vs = vec![];
        let (op, outcome);
        match *ev {
            FEv::RefsSet { key, oid: o, ts: t } => {
                let (r, n, name) = REF_KEYS[key as usize];
                let ret = self.db.set(&rid(r), &nid(n), &refname(name), oid(o), localtime::LocalTime::from_millis(t as u128)).unwrap();
                let branch = match self.model.get(&key).copied() {
                    None => {
                        self.model.insert(key, (o, t as u64));
                        "new"
                    }
                    Some((o0, t0)) => {
                        if (t as u64) > t0 && o != o0 {
                            self.model.insert(key, (o, t as u64));
                            "newer-different"
                        } else if (t as u64) > t0 {
                            "newer-same-value"
                        } else if o != o0 {
                            "not-newer-different"
                        } else {
                            "not-newer-same-value"
                        }
                    }
                };
                op = "set";
                outcome = format!("refs.set:{branch}:ret={ret}");
            }
            FEv::RefsDelete { key } => {
                let (r, n, name) = REF_KEYS[key as usize];
                let ret = self.db.delete(&rid(r), &nid(n), &refname(name)).unwrap();
                self.model.remove(&key);
                op = "delete";
                outcome = format!("refs.delete:ret={ret}");
            }
        }
        self.dump = self.dump(&mut vs);
        vs.extend(diff("refs", op, &before, &self.model, &self.dump));
        self.model = self.dump.clone(); // a reported difference is not carried into later steps
        StepOut { violations: vs, outcome, dead: false }
    }
    fn canon(&self) -> Vec<u8> {
        format!("{:?}|{:?}", self.dump, self.model).into_bytes()
    }
}

// ───────────────────────────── policies ─────────────────────────────

#[derive(Clone, Debug, PartialEq, Eq, PartialOrd, Ord, Serialize, Deserialize)]
enum PEv {
    PolicySeed { repo: u8, scope_all: bool },
    PolicyUnseed { repo: u8 },
    PolicySetSeedPolicy { repo: u8, allow: bool },
    PolicyUnblockRid { repo: u8 },
    PolicyFollow { node: u8, alias: u8 },
    PolicyUnfollow { node: u8 },
    PolicySetFollowPolicy { node: u8, allow: bool },
    PolicyUnblockNid { node: u8 },
}

const ALIASES: [Option<&str>; 3] = [None, Some("alice"), Some("bob")];

/// What a read of the store says about one key. `scope` is visible only for allowed repositories.
#[derive(Clone, Debug, PartialEq, Eq)]
enum Seeding {
    Allow { scope_all: bool },
    Block,
}
#[derive(Clone, Debug, PartialEq, Eq)]
struct Following {
    allow: bool,
    alias: Option<String>,
}

struct PSys {
    /// `--strict-policy-intent`: read "reflect the last write" operation-wise (`seed` / `follow`
    /// also lift a block) instead of field-wise (see `step`).
    strict: bool,
    st: radicle::node::policy::store::Store<radicle::node::policy::store::Write>,
    /// Last written policy per repository, and the last written scope (kept while blocked).
    seeding: BTreeMap<u8, Seeding>,
    scope_written: BTreeMap<u8, bool>,
    following: BTreeMap<u8, Following>,
    dump: (BTreeMap<u8, Seeding>, BTreeMap<u8, Following>),
}

impl PSys {
    fn new(strict: bool) -> Self {
        PSys {
            strict,
            st: radicle::node::policy::store::Store::<radicle::node::policy::store::Write>::memory().unwrap(),
            seeding: BTreeMap::new(),
            scope_written: BTreeMap::new(),
            following: BTreeMap::new(),
            dump: Default::default(),
        }
    }
    fn dump(&self, vs: &mut Vec<Violation>) -> (BTreeMap<u8, Seeding>, BTreeMap<u8, Following>) {
        use radicle::node::AliasStore as _;
        let conv = |p: &SeedingPolicy| match p {
            SeedingPolicy::Allow { scope } => Seeding::Allow { scope_all: *scope == Scope::All },
            SeedingPolicy::Block => Seeding::Block,
        };
        let mut s = BTreeMap::new();
        for r in 0..2u8 {
            if let Some(p) = self.st.seed_policy(&rid(r)).unwrap() {
                s.insert(r, conv(&p.policy));
            }
            let is = self.st.is_seeding(&rid(r)).unwrap();
            if is != matches!(s.get(&r), Some(Seeding::Allow { .. })) {
                vs.push(inconsistent("policy-seeding", "is_seeding", format!("is_seeding(repo {r}) = {is} but seed_policy says {:?}", s.get(&r))));
            }
        }
        let listed: BTreeMap<u8, Seeding> = self.st.seed_policies().unwrap().map(|p| (rid_ix(&p.rid), conv(&p.policy))).collect();
        if listed != s {
            vs.push(inconsistent("policy-seeding", "seed_policies", format!("seed_policies() = {listed:?} but seed_policy says {s:?}")));
        }
        let mut f = BTreeMap::new();
        for n in 0..2u8 {
            if let Some(p) = self.st.follow_policy(&nid(n)).unwrap() {
                f.insert(n, Following { allow: p.policy == Policy::Allow, alias: p.alias.map(|a| a.to_string()) });
            }
            let is = self.st.is_following(&nid(n)).unwrap();
            if is != f.get(&n).is_some_and(|p| p.allow) {
                vs.push(inconsistent("policy-following", "is_following", format!("is_following(node {n}) = {is} but follow_policy says {:?}", f.get(&n))));
            }
            let al = self.st.alias(&nid(n)).map(|a| a.to_string());
            if al != f.get(&n).and_then(|p| p.alias.clone()) {
                vs.push(inconsistent("policy-following", "alias", format!("alias(node {n}) = {al:?} but follow_policy says {:?}", f.get(&n))));
            }
        }
        let listed: BTreeMap<u8, Following> =
            self.st.follow_policies().unwrap().map(|p| (node_ix(&p.nid), Following { allow: p.policy == Policy::Allow, alias: p.alias.map(|a| a.to_string()) })).collect();
        if listed != f {
            vs.push(inconsistent("policy-following", "follow_policies", format!("follow_policies() = {listed:?} but follow_policy says {f:?}")));
        }
        (s, f)
    }
}

impl System for PSys {
    type Ev = PEv;
    fn enabled(&self) -> Vec<PEv> {
        let mut v = vec![];
        for r in 0..2u8 {
            for scope_all in [false, true] {
                v.push(PEv::PolicySeed { repo: r, scope_all });
            }
            v.push(PEv::PolicyUnseed { repo: r });
            for allow in [false, true] {
                v.push(PEv::PolicySetSeedPolicy { repo: r, allow });
            }
            v.push(PEv::PolicyUnblockRid { repo: r });
        }
        for n in 0..2u8 {
            for alias in 0..3u8 {
                v.push(PEv::PolicyFollow { node: n, alias });
            }
            v.push(PEv::PolicyUnfollow { node: n });
            for allow in [false, true] {
                v.push(PEv::PolicySetFollowPolicy { node: n, allow });
            }
            v.push(PEv::PolicyUnblockNid { node: n });
        }
        v
    }

    fn step(&mut self, ev: &PEv) -> StepOut {
        let before_s = self.seeding.clone();
        let before_f = self.following.clone();
        let mut vs = vec![];
        let (op, outcome);
        match *ev {
            // "Seeding and following policies reflect the last write", read field by field: an entry
            // has a policy (allow / block) and a scope resp. alias. `seed` writes the scope, `follow`
            // writes the alias, `set_*_policy` writes the policy; whichever write creates an entry
            // creates it allowed (unless it writes "block"). A block is therefore lifted by
            // `set_*_policy(allow)`, `unblock_*`, `unseed` / `unfollow` — the repository ships
            // `rad unblock` "to allow them to be seeded or followed" — and not by `seed` / `follow`.
            // With `--strict-policy-intent` the operation-wise reading is demanded instead: after
            // `seed` the repository is seeded, after `follow` the node is followed.
            PEv::PolicySeed { repo, scope_all } => {
                let was = self.seeding.get(&repo).cloned();
                let ret = self.st.seed(&rid(repo), if scope_all { Scope::All } else { Scope::Followed }).unwrap();
                if was == Some(Seeding::Block) && !self.strict {
                    // policy field untouched; the scope is recorded for when the block is lifted
                } else {
                    self.seeding.insert(repo, Seeding::Allow { scope_all });
                }
                self.scope_written.insert(repo, scope_all);
                op = "seed";
                outcome = format!("policy.seed:{}:ret={ret}", match was { None => "new", Some(Seeding::Block) => "was-blocked", Some(_) => "was-seeded" });
            }
            PEv::PolicyUnseed { repo } => {
                let ret = self.st.unseed(&rid(repo)).unwrap();
                self.seeding.remove(&repo);
                self.scope_written.remove(&repo);
                op = "unseed";
                outcome = format!("policy.unseed:ret={ret}");
            }
            PEv::PolicySetSeedPolicy { repo, allow } => {
                let was = self.seeding.get(&repo).cloned();
                let ret = self.st.set_seed_policy(&rid(repo), if allow { Policy::Allow } else { Policy::Block }).unwrap();
                if allow {
                    // The scope is whatever was last written; if none ever was, the statement does
                    // not say which scope a bare "allow" carries: adopt the store's.
                    let scope_all = match self.scope_written.get(&repo) {
                        Some(s) => *s,
                        None => match self.st.seed_policy(&rid(repo)).unwrap().map(|p| p.policy) {
                            Some(SeedingPolicy::Allow { scope }) => scope == Scope::All,
                            _ => false,
                        },
                    };
                    self.scope_written.entry(repo).or_insert(scope_all);
                    self.seeding.insert(repo, Seeding::Allow { scope_all });
                } else {
                    self.seeding.insert(repo, Seeding::Block);
                }
                op = if allow { "set-seed-policy-allow" } else { "set-seed-policy-block" };
                outcome = format!("policy.set_seed_policy({}):{}:ret={ret}", if allow { "allow" } else { "block" }, match was { None => "new", Some(Seeding::Block) => "was-blocked", Some(_) => "was-seeded" });
            }
            PEv::PolicyUnblockRid { repo } => {
                let ret = self.st.unblock_rid(&rid(repo)).unwrap();
                if self.seeding.get(&repo) == Some(&Seeding::Block) {
                    self.seeding.remove(&repo);
                    self.scope_written.remove(&repo);
                }
                op = "unblock-rid";
                outcome = format!("policy.unblock_rid:ret={ret}");
            }
            PEv::PolicyFollow { node, alias } => {
                let was = self.following.get(&node).cloned();
                let a = ALIASES[alias as usize].map(Alias::new);
                let ret = self.st.follow(&nid(node), a.as_ref()).unwrap();
                let blocked = was.as_ref().is_some_and(|f| !f.allow);
                self.following.insert(node, Following { allow: !blocked || self.strict, alias: ALIASES[alias as usize].map(str::to_string) });
                op = "follow";
                outcome = format!("policy.follow:{}:ret={ret}", match was { None => "new", Some(Following { allow: false, .. }) => "was-blocked", Some(_) => "was-followed" });
            }
            PEv::PolicyUnfollow { node } => {
                let ret = self.st.unfollow(&nid(node)).unwrap();
                self.following.remove(&node);
                op = "unfollow";
                outcome = format!("policy.unfollow:ret={ret}");
            }
            PEv::PolicySetFollowPolicy { node, allow } => {
                let was = self.following.get(&node).cloned();
                let ret = self.st.set_follow_policy(&nid(node), if allow { Policy::Allow } else { Policy::Block }).unwrap();
                // Writes the policy; the alias is not written by this operation.
                let alias = was.as_ref().and_then(|f| f.alias.clone());
                self.following.insert(node, Following { allow, alias });
                op = if allow { "set-follow-policy-allow" } else { "set-follow-policy-block" };
                outcome = format!("policy.set_follow_policy({}):{}:ret={ret}", if allow { "allow" } else { "block" }, match was { None => "new", Some(Following { allow: false, .. }) => "was-blocked", Some(_) => "was-followed" });
            }
            PEv::PolicyUnblockNid { node } => {
                let ret = self.st.unblock_nid(&nid(node)).unwrap();
                if self.following.get(&node).is_some_and(|f| !f.allow) {
                    self.following.remove(&node);
                }
                op = "unblock-nid";
                outcome = format!("policy.unblock_nid:ret={ret}");
            }
        }
        self.dump = self.dump(&mut vs);
        vs.extend(diff("policy-seeding", op, &before_s, &self.seeding, &self.dump.0));
        vs.extend(diff("policy-following", op, &before_f, &self.following, &self.dump.1));
        if self.seeding != self.dump.0 || self.following != self.dump.1 {
            // A reported difference is not carried into later steps.
            self.seeding = self.dump.0.clone();
            self.following = self.dump.1.clone();
            self.scope_written.retain(|r, _| self.seeding.contains_key(r));
            for (r, p) in &self.seeding {
                if let Seeding::Allow { scope_all } = p {
                    self.scope_written.insert(*r, *scope_all);
                }
            }
        }
        StepOut { violations: vs, outcome, dead: false }
    }

    fn canon(&self) -> Vec<u8> {
        format!("{:?}|{:?}|{:?}|{:?}", self.dump, self.seeding, self.scope_written, self.following).into_bytes()
    }
}

// ───────────────────────────── gossip announcements ─────────────────────────────

#[derive(Clone, Debug, PartialEq, Eq, PartialOrd, Ord, Serialize, Deserialize)]
enum GEv {
    GossipAnnounced { key: u8, ts: u8, variant: u8 },
    GossipPrune { cutoff: u8 },
    GossipSetRelay { key: u8, relay: bool },
    GossipRelays { now: u8 },
}

/// (node, kind) with kind 0 = node announcement, 1 = inventory, 2 = refs of repo 0, 3 = refs of repo 1.
const G_KEYS: [(u8, u8); 6] = [(1, 2), (1, 3), (1, 0), (1, 1), (2, 2), (0, 2)];
const KINDS: [&str; 4] = ["node", "inventory", "refs", "refs"];

/// All signed announcements of the alphabet: [key][ts-1][variant].
fn announcements() -> &'static Vec<Vec<Vec<Announcement>>> {
    static A: OnceLock<Vec<Vec<Vec<Announcement>>>> = OnceLock::new();
    A.get_or_init(|| {
        G_KEYS
            .iter()
            .map(|&(node, kind)| {
                (1..4u8)
                    .map(|t| {
                        (0..2u8)
                            .map(|variant| {
                                let msg: AnnouncementMessage = match kind {
                                    0 => NodeAnnouncement {
                                        version: 1,
                                        features: Features::SEED,
                                        timestamp: ts(t),
                                        alias: Alias::new(format!("alias{variant}")),
                                        addresses: BoundedVec::new(),
                                        nonce: 0,
                                        agent: UserAgent::default(),
                                    }
                                    .into(),
                                    1 => InventoryAnnouncement { inventory: BoundedVec::try_from(if variant == 0 { vec![] } else { vec![rid(0)] }).unwrap(), timestamp: ts(t) }.into(),
                                    k => RefsAnnouncement {
                                        rid: rid(k - 2),
                                        refs: BoundedVec::try_from(if variant == 0 { vec![] } else { vec![radicle::storage::refs::RefsAt { remote: nid(node), at: oid(0) }] }).unwrap(),
                                        timestamp: ts(t),
                                    }
                                    .into(),
                                };
                                msg.signed(device(node))
                            })
                            .collect()
                    })
                    .collect()
            })
            .collect()
    })
}

#[derive(Clone, Copy, Debug, PartialEq, Eq)]
enum Relay {
    /// Never set since the announcement was stored or replaced: the statement says nothing.
    Unstated,
    Relay,
    DontRelay,
    Relayed,
}

#[derive(Clone, Debug, PartialEq, Eq)]
struct Stored {
    ts: u8,
    variant: u8,
}

struct GSys {
    keys: u8,
    db: Database,
    model: BTreeMap<u8, Stored>,
    /// Identifier handed out by the store for the key (needed to address `set_relay`).
    ids: BTreeMap<u8, u64>,
    relay: BTreeMap<u8, Relay>,
    dump: BTreeMap<u8, Stored>,
}

impl GSys {
    fn new(keys: u8) -> Self {
        GSys { keys, db: database(3), model: BTreeMap::new(), ids: BTreeMap::new(), relay: BTreeMap::new(), dump: BTreeMap::new() }
    }

    /// Identify a returned announcement with (key, ts, variant) of the alphabet.
    fn identify(&self, a: &Announcement) -> Option<(u8, Stored)> {
        for k in 0..self.keys {
            for t in 1..4u8 {
                for v in 0..2u8 {
                    if announcements()[k as usize][t as usize - 1][v as usize] == *a {
                        return Some((k, Stored { ts: t, variant: v }));
                    }
                }
            }
        }
        None
    }

    fn dump(&self, vs: &mut Vec<Violation>) -> BTreeMap<u8, Stored> {
        use gossip::Store as _;
        let filter = Filter::default();
        let mut m = BTreeMap::new();
        let mut rows = 0;
        for a in self.db.filtered(&filter, Timestamp::MIN, Timestamp::MAX).unwrap() {
            let a = a.unwrap();
            rows += 1;
            match self.identify(&a) {
                Some((k, s)) => {
                    m.insert(k, s);
                }
                None => vs.push(Violation::new("C24/gossip/dump/unknown-announcement", format!("the store returned an announcement that was never stored: {a:?}"), Value::Null)),
            }
        }
        if rows != m.len() {
            vs.push(inconsistent("gossip", "filtered", format!("filtered() returned {rows} rows for {} distinct (node, kind, repo) keys", m.len())));
        }
        let last = self.db.last().unwrap().map(|t| *t);
        let want = m.values().map(|s| s.ts as u64).max();
        if last != want {
            vs.push(inconsistent("gossip", "last", format!("last() = {last:?} but the newest stored announcement has timestamp {want:?}")));
        }
        m
    }

    /// Hidden relay column, read for the canonical key only (never judged).
    fn hidden(&self) -> String {
        let mut out = vec![];
        if let Ok(stmt) = self.db.db.prepare("SELECT rowid, node, repo, type, relay FROM announcements ORDER BY rowid") {
            for row in stmt.into_iter().flatten() {
                out.push(format!("{}:{}:{}:{}:{:?}", row.read::<i64, _>("rowid"), row.read::<&str, _>("node"), row.read::<&str, _>("repo"), row.read::<&str, _>("type"), row.read::<Option<i64>, _>("relay")));
            }
        }
        out.join(",")
    }
}

impl Drop for GSys {
    fn drop(&mut self) {
        recycle(3, &self.db);
    }
}

impl System for GSys {
    type Ev = GEv;
    fn enabled(&self) -> Vec<GEv> {
        let mut v = vec![];
        for key in 0..self.keys {
            for t in 1..4u8 {
                for variant in 0..2u8 {
                    v.push(GEv::GossipAnnounced { key, ts: t, variant });
                }
            }
            if self.ids.contains_key(&key) {
                for relay in [true, false] {
                    v.push(GEv::GossipSetRelay { key, relay });
                }
            }
        }
        for cutoff in 2..4u8 {
            v.push(GEv::GossipPrune { cutoff });
        }
        v.push(GEv::GossipRelays { now: 9 });
        v
    }

    fn step(&mut self, ev: &GEv) -> StepOut {
        use gossip::Store as _;
        let before = self.model.clone();
        let mut vs = vec![];
        let (op, outcome);
        match *ev {
            GEv::GossipAnnounced { key, ts: t, variant } => {
                let ann = &announcements()[key as usize][t as usize - 1][variant as usize];
                let ret = self.db.announced(&ann.node, ann).unwrap();
                // Rule: stored if absent; replaced only by a strictly newer one of the same kind.
                let branch = match self.model.get(&key).cloned() {
                    None => {
                        self.model.insert(key, Stored { ts: t, variant });
                        self.relay.insert(key, Relay::Unstated);
                        "new"
                    }
                    Some(old) if t > old.ts => {
                        self.model.insert(key, Stored { ts: t, variant });
                        self.relay.insert(key, Relay::Unstated);
                        "newer"
                    }
                    Some(old) if t == old.ts && variant != old.variant => "same-time-different-content",
                    Some(old) if t == old.ts => "duplicate",
                    Some(_) => "older",
                };
                if let Some(id) = ret {
                    self.ids.insert(key, id);
                }
                op = "announced";
                outcome = format!("gossip.announced({}):{branch}:ret={}", KINDS[G_KEYS[key as usize].1 as usize], if ret.is_some() { "Some" } else { "None" });
            }
            GEv::GossipPrune { cutoff } => {
                let ret = self.db.prune(ts(cutoff)).unwrap();
                let gone: Vec<u8> = self.model.iter().filter(|(_, s)| s.ts < cutoff).map(|(k, _)| *k).collect();
                for k in &gone {
                    self.model.remove(k);
                    self.ids.remove(k);
                    self.relay.remove(k);
                }
                op = "prune";
                outcome = format!("gossip.prune:removed={}:ret={ret}", gone.len());
            }
            GEv::GossipSetRelay { key, relay } => {
                let id = self.ids[&key];
                self.db.set_relay(id, if relay { RelayStatus::Relay } else { RelayStatus::DontRelay }).unwrap();
                self.relay.insert(key, if relay { Relay::Relay } else { Relay::DontRelay });
                op = "set-relay";
                outcome = format!("gossip.set_relay({})", if relay { "relay" } else { "dont" });
            }
            GEv::GossipRelays { now } => {
                let got = self.db.relays(ts(now)).unwrap();
                let mut returned: BTreeSet<u8> = BTreeSet::new();
                for (id, a) in &got {
                    match self.identify(a) {
                        Some((k, s)) => {
                            returned.insert(k);
                            if self.model.get(&k) != Some(&s) {
                                vs.push(Violation::new("C24/gossip/relays/returned-announcement-not-stored", format!("relays() returned {s:?} for key {k} but the stored announcement is {:?}", self.model.get(&k)), Value::Null));
                            }
                            if self.ids.get(&k) != Some(id) {
                                vs.push(inconsistent("gossip", "relays-id", format!("relays() names key {k} by id {id}, announced() returned {:?}", self.ids.get(&k))));
                            }
                        }
                        None => vs.push(Violation::new("C24/gossip/relays/unknown-announcement", "relays() returned an announcement that was never stored", Value::Null)),
                    }
                }
                for (k, r) in &self.relay {
                    match r {
                        Relay::Relay if !returned.contains(k) => {
                            vs.push(Violation::new("C24/gossip/relays/marked-but-not-returned", format!("key {k} was marked for relay but relays() did not return it"), Value::Null));
                        }
                        Relay::DontRelay | Relay::Relayed if returned.contains(k) => {
                            vs.push(Violation::new(
                                format!("C24/gossip/relays/returned-although-{}", if *r == Relay::Relayed { "already-relayed" } else { "marked-dont-relay" }),
                                format!("relays() returned key {k} whose relay status is {r:?}"),
                                Value::Null,
                            ));
                        }
                        _ => {}
                    }
                }
                for k in &returned {
                    self.relay.insert(*k, Relay::Relayed);
                }
                op = "relays";
                outcome = format!("gossip.relays:returned={}", returned.len().min(2));
            }
        }
        self.dump = self.dump(&mut vs);
        vs.extend(diff("gossip", op, &before, &self.model, &self.dump));
        if self.model != self.dump {
            // A reported difference is not carried into later steps.
            self.model = self.dump.clone();
            self.ids.retain(|k, _| self.model.contains_key(k));
            self.relay.retain(|k, _| self.model.contains_key(k));
            for k in self.model.keys() {
                self.relay.entry(*k).or_insert(Relay::Unstated);
            }
        }
        StepOut { violations: vs, outcome, dead: false }
    }

    fn canon(&self) -> Vec<u8> {
        format!("{:?}|{:?}|{:?}|{:?}|{}", self.dump, self.model, self.ids, self.relay, self.hidden()).into_bytes()
    }
}

// ───────────────────────────── driver ─────────────────────────────

#[derive(Default)]
struct Totals {
    states: u64,
    transitions: u64,
    events: u64,
    exhaustive: bool,
    outcomes: BTreeMap<String, u64>,
    violations: Violations,
    per_store: serde_json::Map<String, Value>,
    samples: Vec<Value>,
}

fn absorb<E: Serialize>(t: &mut Totals, name: &str, alphabet: usize, r: Result_<E>) {
    t.states += r.states;
    t.transitions += r.transitions;
    t.events += r.events_executed;
    t.exhaustive &= r.exhaustive;
    let saturated = r.frontier_sizes.last() == Some(&0);
    if let Some(h) = r.samples.first() {
        t.samples.push(json!({"store": name, "history": h}));
    }
    t.per_store.insert(
        name.into(),
        json!({"states": r.states, "transitions": r.transitions, "completed_depth": r.completed_depth, "requested_depth": r.requested_depth, "frontier_sizes": r.frontier_sizes,
               "reachable_set_closed": saturated, "alphabet_size_at_root": alphabet, "exhaustive_within_bounds": r.exhaustive, "sample": r.samples.first()}),
    );
    for (k, v) in r.outcomes {
        *t.outcomes.entry(k).or_insert(0) += v;
    }
    t.violations.merge(r.violations);
}

fn main() {
    let ctx = Ctx::from_env("C24", "model_checking");
    let thorough = ctx.tier == mcx::Tier::Thorough;
    announcements(); // sign the alphabet once, before any worker thread needs it
    let strict = ctx.extra_args.iter().any(|a| a == "--strict-policy-intent");

    let r_nodes: u8 = if thorough { 3 } else { 2 };
    let s_nodes: u8 = 2;
    let f_keys: u8 = if thorough { 5 } else { 4 };
    let g_keys: u8 = if thorough { 6 } else { 4 };

    if let Some(w) = ctx.replay_witness() {
        let h = w.get("history").cloned().unwrap_or(Value::Null);
        if serde_json::from_value::<Vec<REv>>(h.clone()).is_ok() {
            ctx.finish_replay(explore::replay::<RSys>("C24", || RSys::new(RSpace { nodes: 3 }), &w));
        } else if serde_json::from_value::<Vec<SEv>>(h.clone()).is_ok() {
            ctx.finish_replay(explore::replay::<SSys>("C24", || SSys::new(2), &w));
        } else if serde_json::from_value::<Vec<FEv>>(h.clone()).is_ok() {
            ctx.finish_replay(explore::replay::<FSys>("C24", || FSys::new(5), &w));
        } else if serde_json::from_value::<Vec<PEv>>(h.clone()).is_ok() {
            ctx.finish_replay(explore::replay::<PSys>("C24", move || PSys::new(strict), &w));
        } else {
            ctx.finish_replay(explore::replay::<GSys>("C24", || GSys::new(6), &w));
        }
    }

    let mut t = Totals { exhaustive: true, ..Default::default() };
    // Depth bounds: the small stores are explored until no new state appears (the bound is only a
    // safety net); the larger ones to the stated depth.
    let (rd, sd, fd, pd, gd) = if thorough { (4, 12, 12, 12, 4) } else { (6, 12, 12, 12, 3) };
    // Wall caps are a safety net only (a capped run is reported as not exhaustive).
    let wall = if thorough { 900 } else { 120 };

    let sp = RSpace { nodes: r_nodes };
    let r = explore::explore("C24", move || RSys::new(sp), Bounds::new(rd, 0).wall_secs(wall));
    absorb(&mut t, "routing", RSys::new(sp).enabled().len(), r);
    if thorough {
        // The two-node table of the quick tier, explored until no new state appears.
        let sp = RSpace { nodes: 2 };
        let r = explore::explore("C24", move || RSys::new(sp), Bounds::new(6, 0).wall_secs(wall));
        absorb(&mut t, "routing-two-nodes-closed", RSys::new(sp).enabled().len(), r);
    }
    let r = explore::explore("C24", move || SSys::new(s_nodes), Bounds::new(sd, 0).wall_secs(wall));
    absorb(&mut t, "sync-status", SSys::new(s_nodes).enabled().len(), r);
    let r = explore::explore("C24", move || FSys::new(f_keys), Bounds::new(fd, 0).wall_secs(wall));
    absorb(&mut t, "refs", FSys::new(f_keys).enabled().len(), r);
    let r = explore::explore("C24", move || PSys::new(strict), Bounds::new(pd, 0).wall_secs(wall));
    absorb(&mut t, "policy", PSys::new(strict).enabled().len(), r);
    let r = explore::explore("C24", move || GSys::new(g_keys), Bounds::new(gd, 0).wall_secs(wall));
    absorb(&mut t, "gossip", GSys::new(g_keys).enabled().len(), r);

    let mut cov = serde_json::Map::new();
    cov.insert("states".into(), json!(t.states));
    cov.insert("transitions".into(), json!(t.transitions));
    cov.insert("traces_validated_against_impl".into(), json!(t.transitions));
    cov.insert("events_executed_on_impl".into(), json!(t.events));
    cov.insert("evaluations".into(), json!(t.transitions));
    cov.insert("distinct_nontrivial".into(), json!(t.states));
    cov.insert("exhaustive".into(), json!(t.exhaustive));
    cov.insert("deviation_budget".into(), json!(0));
    cov.insert("outcome_histogram".into(), json!(t.outcomes));
    cov.insert("distinct_outcomes".into(), json!(t.outcomes.len()));
    cov.insert("violating_instances".into(), json!(t.violations.total()));
    cov.insert("stores".into(), Value::Object(t.per_store));
    cov.insert(
        "rule".into(),
        json!("per store: every operation sequence up to the stated depth over 2 repositories x 2-3 nodes (node 0 local) x timestamps {1,2,3} x 2 values \
               (routing: add{1 or 2 repos}/remove/remove-many/prune(cutoff 2..4, limit none|1, ignore=local); sync status: synced; refs: set/delete on keys differing in one component; \
               policy: seed/unseed/set-seed-policy/unblock-rid/follow(alias none|alice|bob)/unfollow/set-follow-policy/unblock-nid; gossip: announced(node|inventory|refs x ts x 2 contents)/prune/set_relay/relays); \
               a state is (full dump of the store through its query API, model); replay-from-scratch on a fresh in-memory database"),
    );
    cov.insert("samples".into(), json!(t.samples));
    cov.insert("strict_policy_intent".into(), json!(strict));
    ctx.finish(
        cov,
        &[
            "sqlite (bundled) is trusted",
            "node databases are reused by a worker after all rows of the four tables under test are deleted; the engine re-checks the canonical key (incl. row ids / row order) of every replayed history",
            "return values of mutating operations are not judged (the statement is silent about them)",
            "a prune with a limit may remove any at-most-limit subset of the eligible entries (the statement does not say which)",
            "relay status of an announcement that was never marked since it was stored or replaced is not judged",
            "policies: 'reflect the last write' is read field by field (seed writes the scope, follow the alias, set_*_policy the policy; a block is lifted by unblock / set_*_policy(allow) / removal, not by seed / follow); --strict-policy-intent demands the operation-wise reading",
        ],
        t.violations,
    );
}
