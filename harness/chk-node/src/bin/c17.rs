//! C17 — Rate limiting admits at most capacity plus refill; bypassed nodes and non-routable
//! addresses are never limited.
//!
//! Engine A. The real `RateLimiter` is driven with request timelines over a small alphabet of
//! clock steps (including backward steps, which are inside the property's quantifier and are the
//! *deviations* of the search). The reference model is the plain list of `(τ, admitted)` per host;
//! the oracle is the window inequality of the statement, in exact integer arithmetic:
//!
//!   for all i ≤ j (issue order, same host):
//!       #admitted(i..=j)  ≤  capacity + rate · ⌊max(0, max_{k∈[i..j]} τ_k − τ_i)⌋
//!
//! `RateLimiter` / `TokenBucket` are not `Clone` and cannot be constructed from parts, so states are
//! rebuilt by replaying the history (a few hundred nanoseconds per step).
//!
//! A history is self-contained: its first event fixes `(capacity, rate)`.

use mcx::explore::{self, Bounds, Result_, StepOut, System};
use mcx::report::{Ctx, Violation, Violations};
use radicle::crypto::test::signer::MockSigner;
use radicle::node::{HostName, NodeId};
use radicle_node::service::limiter::{AsTokens, RateLimiter};
use serde::{Deserialize, Serialize};
use serde_json::{json, Value};
use std::collections::BTreeMap;
use std::net::{IpAddr, Ipv4Addr};
use std::sync::OnceLock;

/// Clock at the start of every timeline (far enough from zero for eight backward steps).
const T0_MS: i64 = 1_000_000;

const HOSTS: [&str; 4] = ["routable-ip", "loopback-ip", "private-ip", "dns"];
const NIDS: [&str; 3] = ["none", "bypassed", "other"];

fn host(h: u8) -> HostName {
    match h {
        0 => HostName::Ip(IpAddr::V4(Ipv4Addr::new(8, 8, 8, 8))),
        1 => HostName::Ip(IpAddr::V4(Ipv4Addr::new(127, 0, 0, 1))),
        2 => HostName::Ip(IpAddr::V4(Ipv4Addr::new(192, 168, 1, 7))),
        _ => HostName::Dns("seed.example.com".to_string()),
    }
}

/// The statement's own classification of the alphabet (not computed by the code under test).
fn non_routable(h: u8) -> bool {
    h == 1 || h == 2
}

/// Fixed node ids (derived once: key derivation is far more expensive than a limiter step).
fn key(which: usize) -> NodeId {
    use radicle::crypto::Signer as _;
    static KEYS: OnceLock<[NodeId; 2]> = OnceLock::new();
    KEYS.get_or_init(|| [*MockSigner::from_seed([11; 32]).public_key(), *MockSigner::from_seed([12; 32]).public_key()])[which]
}

struct Tokens {
    cap: usize,
    rate: f64,
}
impl AsTokens for Tokens {
    fn capacity(&self) -> usize {
        self.cap
    }
    fn rate(&self) -> f64 {
        self.rate
    }
}

#[derive(Clone, Debug, PartialEq, Eq, PartialOrd, Ord, Serialize, Deserialize)]
enum Ev {
    /// First event of every history: bucket parameters (rate in tenths of a token per second).
    Config { cap: u8, rate10: u8 },
    /// Advance (or rewind) the clock by `dt_ms`, then issue one request.
    Req { dt_ms: i32, host: u8, nid: u8 },
}

#[derive(Clone)]
struct Space {
    configs: Vec<(u8, u8)>,
    dts: Vec<i32>,
    /// Clock steps offered to requests that the statement exempts (they never touch a bucket).
    dts_exempt: Vec<i32>,
}

struct Sys {
    space: Space,
    cfg: Option<(u8, u8)>,
    real: RateLimiter,
    bypassed: NodeId,
    other: NodeId,
    now_ms: i64,
    /// Reference model: per host, the requests that the statement subjects to limiting.
    hist: BTreeMap<u8, Vec<(i64, bool)>>,
}

impl Sys {
    fn new(space: Space) -> Self {
        let bypassed = key(0);
        Sys { space, cfg: None, real: RateLimiter::new([bypassed]), bypassed, other: key(1), now_ms: T0_MS, hist: BTreeMap::new() }
    }
}

/// Window oracle for the newest request of one host. Returns (tightest violating window, had a
/// backward step inside it).
fn window_violation(h: &[(i64, bool)], cap: u8, rate10: u8) -> Option<(usize, usize, u64, i64, bool)> {
    let j = h.len() - 1;
    let mut admitted: u64 = 0;
    let mut max_tau = i64::MIN;
    let mut backward = false;
    for i in (0..=j).rev() {
        let (tau_i, adm_i) = h[i];
        admitted += adm_i as u64;
        max_tau = max_tau.max(tau_i);
        if i < j && h[i + 1].0 < tau_i {
            backward = true;
        }
        let secs = (max_tau - tau_i).max(0) / 1000; // ⌊window length⌋ in whole seconds
        // admitted ≤ cap + rate·secs   ⇔   10·admitted ≤ 10·cap + rate10·secs
        if 10 * admitted as i64 > 10 * cap as i64 + rate10 as i64 * secs {
            return Some((i, j, admitted, secs, backward));
        }
    }
    None
}

impl System for Sys {
    type Ev = Ev;

    fn enabled(&self) -> Vec<Ev> {
        if self.cfg.is_none() {
            return self.space.configs.iter().map(|&(cap, rate10)| Ev::Config { cap, rate10 }).collect();
        }
        let mut v = vec![];
        for h in 0..HOSTS.len() as u8 {
            for n in 0..NIDS.len() as u8 {
                let exempt = non_routable(h) || n == 1;
                for &dt_ms in if exempt { &self.space.dts_exempt } else { &self.space.dts } {
                    v.push(Ev::Req { dt_ms, host: h, nid: n });
                }
            }
        }
        v
    }

    fn is_deviation(&self, ev: &Ev) -> bool {
        matches!(ev, Ev::Req { dt_ms, .. } if *dt_ms < 0)
    }

    fn step(&mut self, ev: &Ev) -> StepOut {
        match *ev {
            Ev::Config { cap, rate10 } => {
                self.cfg = Some((cap, rate10));
                StepOut::ok("config")
            }
            Ev::Req { dt_ms, host: h, nid } => {
                let (cap, rate10) = self.cfg.expect("history starts with Config");
                let tokens = Tokens { cap: cap as usize, rate: rate10 as f64 / 10.0 };
                self.now_ms += dt_ms as i64;
                let now = localtime::LocalTime::from_millis(self.now_ms as u128);
                let nid_ref = match nid {
                    0 => None,
                    1 => Some(&self.bypassed),
                    _ => Some(&self.other),
                };
                // The real code. "`limit` returns": a panic is a violation; it is caught here (not by
                // the engine) so that the fingerprint can say how the clock relates to the host's
                // earlier requests. The limiter is not used after a panic.
                let real = &mut self.real;
                let limited = match mcx::panics::catch(move || real.limit(host(h), nid_ref, &tokens, now)) {
                    Ok(l) => l,
                    Err(c) => {
                        let prev_max = self.hist.get(&h).and_then(|l| l.iter().map(|(t, _)| *t).max());
                        let shape = match prev_max {
                            Some(p) if self.now_ms < p => "clock-earlier-than-a-previous-request-of-the-host",
                            Some(_) => "clock-not-earlier-than-previous-requests-of-the-host",
                            None => "first-request-of-the-host",
                        };
                        let v = Violation::new(
                            format!("C17/limit-panics/{shape}@{}", c.site()),
                            format!("RateLimiter::limit panicked ({shape}, step {dt_ms} ms): {} ({}:{})", c.message, c.file, c.line),
                            json!({"panic": c.message, "file": c.file, "line": c.line}),
                        );
                        return StepOut { violations: vec![v], outcome: format!("PANIC:{shape}"), dead: true };
                    }
                };

                let mut vs = vec![];
                let exempt = non_routable(h) || nid == 1;
                let outcome;
                if exempt {
                    if limited {
                        let why = if nid == 1 { "bypassed-nid" } else { "non-routable-ip" };
                        vs.push(Violation::new(
                            format!("C17/never-limited/{why}"),
                            format!("request from {} with nid={} was rate-limited", HOSTS[h as usize], NIDS[nid as usize]),
                            json!({"host": HOSTS[h as usize], "nid": NIDS[nid as usize]}),
                        ));
                    }
                    outcome = format!("exempt:{}", if limited { "LIMITED" } else { "passed" });
                } else {
                    let hh = self.hist.entry(h).or_default();
                    hh.push((self.now_ms, !limited));
                    let first = hh.len() == 1;
                    if let Some((i, j, admitted, secs, backward)) = window_violation(hh, cap, rate10) {
                        vs.push(Violation::new(
                            format!("C17/window-budget/{}", if backward { "backward-step-in-window" } else { "monotone-window" }),
                            format!(
                                "host {}: {admitted} requests admitted in window #{i}..=#{j} spanning {secs} whole second(s); budget is {cap} + {}·{secs}",
                                HOSTS[h as usize],
                                rate10 as f64 / 10.0
                            ),
                            json!({"host": HOSTS[h as usize], "window": [i, j], "timeline_ms_admitted": hh.iter().map(|(t, a)| json!([t - T0_MS, a])).collect::<Vec<_>>()}),
                        ));
                    }
                    let step = if dt_ms < 0 {
                        "backward"
                    } else if dt_ms == 0 {
                        "same-instant"
                    } else if dt_ms < 1000 {
                        "sub-second"
                    } else {
                        "forward"
                    };
                    outcome = format!("{}:{}:{}", if first { "new-bucket" } else { "bucket" }, step, if limited { "limited" } else { "admitted" });
                }
                StepOut { violations: vs, outcome, dead: false }
            }
        }
    }

    fn canon(&self) -> Vec<u8> {
        // Everything relative to the current clock (the limiter only ever sees time through
        // differences), plus the sub-second phase of the clock, plus the model's timelines.
        use std::fmt::Write as _;
        let mut out = format!("{:?}|{}|", self.cfg, self.now_ms.rem_euclid(1000));
        let mut hosts: Vec<(String, &radicle_node::service::limiter::TokenBucket)> = self.real.buckets.iter().map(|(h, b)| (h.to_string(), b)).collect();
        hosts.sort_by(|a, b| a.0.cmp(&b.0));
        for (h, b) in hosts {
            let v = serde_json::to_value(b).expect("TokenBucket serialises");
            match v.get("refilledAt").and_then(Value::as_i64) {
                Some(at) => {
                    let _ = write!(out, "{h}:{}:{}:{}:{};", v["rate"], v["capacity"], v["tokens"], self.now_ms - at);
                }
                // Unknown encoding of the timestamp: keep it verbatim and pin the absolute clock.
                None => {
                    let _ = write!(out, "{h}:{v}:abs{};", self.now_ms);
                }
            }
        }
        for (h, l) in &self.hist {
            let _ = write!(out, "|{h}");
            for (t, a) in l {
                let _ = write!(out, ",{}{}", t - self.now_ms, if *a { 'A' } else { 'L' });
            }
        }
        out.into_bytes()
    }
}

fn merge<E>(acc: &mut Option<Result_<E>>, r: Result_<E>) {
    match acc {
        None => *acc = Some(r),
        Some(a) => {
            a.states += r.states;
            a.transitions += r.transitions;
            a.paths_executed += r.paths_executed;
            a.events_executed += r.events_executed;
            let both_complete = a.completed_depth == a.requested_depth && r.completed_depth == r.requested_depth;
            a.completed_depth = if both_complete { a.completed_depth.max(r.completed_depth) } else { a.completed_depth.min(r.completed_depth) };
            a.requested_depth = a.requested_depth.max(r.requested_depth);
            a.devs = a.devs.max(r.devs);
            a.exhaustive &= r.exhaustive;
            for (i, n) in r.frontier_sizes.iter().enumerate() {
                if i < a.frontier_sizes.len() {
                    a.frontier_sizes[i] += n;
                } else {
                    a.frontier_sizes.push(*n);
                }
            }
            for (k, v) in r.outcomes {
                *a.outcomes.entry(k).or_insert(0) += v;
            }
            a.violations.merge(r.violations);
            if a.samples.len() < 4 {
                a.samples.extend(r.samples.into_iter().take(1));
            }
            a.reexpanded += r.reexpanded;
        }
    }
}

fn main() {
    let ctx = Ctx::from_env("C17", "model_checking");
    let thorough = ctx.tier == mcx::Tier::Thorough;
    let all_configs: Vec<(u8, u8)> = [1u8, 2, 3].iter().flat_map(|c| [2u8, 5, 10, 15].iter().map(move |r| (*c, *r))).collect();
    let dts = vec![-2000, -1000, 0, 400, 1000, 2000, 10_000];
    // Exempt requests never reach a bucket; they are offered the clock steps that can matter to a
    // limiter that (wrongly) consulted one: none, one backward, one forward.
    let dts_exempt = vec![-1000, 0, 1000];
    let space = Space { configs: all_configs.clone(), dts: dts.clone(), dts_exempt: dts_exempt.clone() };

    if let Some(w) = ctx.replay_witness() {
        let sp = space.clone();
        ctx.finish_replay(explore::replay::<Sys>("C17", move || Sys::new(sp.clone()), &w));
    }

    // Depth counts the Config event; deviation budget = number of backward clock steps.
    // quick: 5 requests with up to 2 backward steps; thorough adds 6 requests with up to 1.
    let passes: Vec<(usize, usize)> = if thorough { vec![(1 + 5, 2), (1 + 6, 1)] } else { vec![(1 + 5, 2)] };
    let mut acc: Option<Result_<Ev>> = None;
    for &(depth, devs) in &passes {
        for cfg in &all_configs {
            // One exploration per (capacity, rate) keeps the state table small; the root menu is
            // restricted to that configuration, histories stay self-contained.
            let sp = Space { configs: vec![*cfg], dts: dts.clone(), dts_exempt: dts_exempt.clone() };
            let r = explore::explore("C17", move || Sys::new(sp.clone()), Bounds::new(depth, devs).wall_secs(900));
            merge(&mut acc, r);
        }
    }
    let res = acc.unwrap();
    let mut cov = res.coverage(
        "every request timeline of up to D requests (after the Config event) over clock steps {-2s,-1s,0,+0.4s,+1s,+2s,+10s} (negative = deviation, budget K), \
         hosts {routable ip, loopback, private-range ip, dns} x nid {none, bypassed, other} (exempt requests: steps {-1s,0,+1s}), for every capacity {1,2,3} x rate {0.2,0.5,1.0,1.5}; \
         a state is (bucket contents relative to the clock, sub-second clock phase, per-host timeline of limited requests); one exploration per (capacity, rate), counts summed",
    );
    cov.insert("alphabet".into(), json!({"dt_ms": dts, "dt_ms_exempt": dts_exempt, "hosts": HOSTS, "nids": NIDS, "capacity": [1, 2, 3], "rate": [0.2, 0.5, 1.0, 1.5]}));
    cov.insert("explorations".into(), json!(all_configs.len() * passes.len()));
    cov.insert("passes_depth_devs".into(), json!(passes));
    let violations: Violations = res.violations;
    ctx.finish(
        cov,
        &[
            "one (capacity, rate) per limiter instance (the tokens argument is constant along a timeline)",
            "clock values are multiples of 100 ms; the window oracle is evaluated in exact integer arithmetic",
            "hosts classified routable / non-routable by the alphabet (8.8.8.8 and a DNS name vs 127.0.0.1 and 192.168.1.7)",
        ],
        violations,
    );
}
