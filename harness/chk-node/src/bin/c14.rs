//! C14 — Frame decoding is memory-bounded and chunking-independent.
//!
//! "Decoding the inbound byte stream never allocates more memory than a small constant plus the
//! bytes actually received, no matter what lengths the bytes declare. Feeding the encoding of any
//! sequence of frames split at arbitrary boundaries yields exactly those frames in order, and a
//! complete but invalid frame is reported as an error rather than as incomplete data."
//!
//! Engine B on the real `Deserializer<MAX_INBOX_SIZE, Frame<Message>>` (the peer inbox of
//! `wire/protocol.rs`), driven exactly like `Wire::received` drives it (`input`, then
//! `deserialize_next` until `Ok(None)` / `Err`). Three families:
//!
//! 1. **memory** (isolated worker processes + counting allocator): gossip and git frames whose
//!    varint length is each of the 1/2/4/8-byte encodings of
//!    {0, 1, 63, 64, 16383, 16384, 65535, 65536, 2^20, 2^24, 2^30−1, 2^30, 2^62−1}, followed by
//!    {0, 1, len−1, len} payload bytes (capped at 70 KiB). Oracle: the largest single allocation
//!    requested while inputting and decoding ≤ 64 KiB + bytes supplied. A request above the
//!    allocator's hard cap (256 MiB) ends the worker and is attributed to the item.
//! 2. **chunking** (threads): every sequence of 1, 2 and 3 frames of the corpus of valid frames;
//!    1- and 2-frame sequences are fed in three chunks at **every** pair of split points
//!    (0 ≤ a ≤ b ≤ len, which includes every single split and the one-shot feed), 3-frame
//!    sequences at every single split point. Boundary-size frames (≥ 1 KiB) are fed alone and
//!    between two control frames at every single split point. Oracle: exactly the frames of the
//!    sequence come out, in order, no error, nothing left in the inbox.
//! 3. **complete-but-invalid** (threads): every gossip frame of the corpus with its inner message
//!    cut by 1..n bytes and the outer length adjusted (a *complete* frame), and with 1/2/9/300
//!    surplus bytes inside the frame. Oracle: a complete frame is never answered `Ok(None)`
//!    ("incomplete"); a strict prefix of a message all of whose fields are mandatory is not
//!    accepted as a frame either. Surplus bytes after the inner message are dropped by design
//!    (`wire/frame.rs`: "it is simply dropped here"), which is recorded but not demanded otherwise.

#[path = "../c13_codec.rs"]
mod c13_codec;

use c13_codec::{feed, frame_corpus, hex_head, result_label, End, Entry, Inbox, F, VERSION};
use mcx::panics::Caught;
use mcx::report::{Ctx, Violation};
use mcx::sweep::{self, Crash, ItemOut, ProcOpts, Stats};
use serde_json::{json, Value};
use std::sync::atomic::{AtomicU64, Ordering};

#[global_allocator]
static A: mcx::alloc::Counting = mcx::alloc::Counting;

/// The "small constant" of the property: one maximal message (`wire::Size::MAX` + 1).
const CONSTANT: usize = 64 * 1024;
const SUPPLY_CAP: u64 = 70 * 1024;

// ------------------------------------------------------------------------------------------
// Harness-side varint writer (RFC 9000 §16), any width ≥ the minimal one.
// ------------------------------------------------------------------------------------------

fn min_width(v: u64) -> usize {
    if v < 1 << 6 {
        1
    } else if v < 1 << 14 {
        2
    } else if v < 1 << 30 {
        4
    } else {
        8
    }
}

fn varint(v: u64, width: usize) -> Vec<u8> {
    assert!(width >= min_width(v) && v < 1 << 62, "harness: value does not fit the width");
    match width {
        1 => vec![v as u8],
        2 => ((v as u16) | 0x4000).to_be_bytes().to_vec(),
        4 => ((v as u32) | 0x8000_0000).to_be_bytes().to_vec(),
        _ => (v | 0xc000_0000_0000_0000).to_be_bytes().to_vec(),
    }
}

// ------------------------------------------------------------------------------------------
// Family 1: memory
// ------------------------------------------------------------------------------------------

const LENGTHS: [u64; 13] = [0, 1, 63, 64, 16383, 16384, 65535, 65536, 1 << 20, 1 << 24, (1 << 30) - 1, 1 << 30, (1 << 62) - 1];
/// stream id byte, name
const STREAMS: [(u8, &str); 4] = [(2, "gossip"), (3, "gossip"), (4, "git"), (5, "git")];

#[derive(Clone, Copy, Debug, PartialEq, Eq)]
struct MemItem {
    stream: u8,
    declared: u64,
    width: usize,
    supplied: u64,
}

fn mem_items() -> Vec<MemItem> {
    let mut v = vec![];
    for (stream, _) in STREAMS {
        for declared in LENGTHS {
            for width in [1usize, 2, 4, 8] {
                if width < min_width(declared) {
                    continue;
                }
                let mut sup: Vec<u64> = vec![0, 1, declared.saturating_sub(1), declared].into_iter().filter(|s| *s <= declared).map(|s| s.min(SUPPLY_CAP)).collect();
                sup.sort();
                sup.dedup();
                for supplied in sup {
                    v.push(MemItem { stream, declared, width, supplied });
                }
            }
        }
    }
    v
}

impl MemItem {
    fn kind(&self) -> &'static str {
        STREAMS.iter().find(|s| s.0 == self.stream).map(|s| s.1).unwrap_or("?")
    }
    /// Payload content: for gossip a `Pong` whose zero count fills the declared length (so that a
    /// fully supplied frame decodes), for git zeroes.
    fn bytes(&self) -> Vec<u8> {
        let mut b = VERSION.to_vec();
        b.push(self.stream);
        b.extend(varint(self.declared, self.width));
        let mut payload = vec![0u8; self.supplied as usize];
        if self.kind() == "gossip" && self.declared >= 4 && self.declared - 4 <= u16::MAX as u64 {
            let head = [0u8, 12, ((self.declared - 4) >> 8) as u8, (self.declared - 4) as u8];
            for (i, h) in head.iter().enumerate().take(payload.len()) {
                payload[i] = *h;
            }
        }
        b.extend(payload);
        b
    }
    fn witness(&self) -> Value {
        json!({"family": "memory", "stream": self.stream, "declared": self.declared, "varint_width": self.width, "payload_bytes_supplied": self.supplied, "head_hex": hex_head(&self.bytes(), 16)})
    }
    fn from_witness(w: &Value) -> Option<MemItem> {
        Some(MemItem {
            stream: w.get("stream")?.as_u64()? as u8,
            declared: w.get("declared")?.as_u64()?,
            width: w.get("varint_width")?.as_u64()? as usize,
            supplied: w.get("payload_bytes_supplied")?.as_u64()?,
        })
    }
    fn shape(&self) -> String {
        let sup = if self.supplied == self.declared { "all" } else if self.supplied == 0 { "none" } else { "part" };
        format!("{}/declared=2^{}/w{}/{sup}", self.kind(), 64 - self.declared.leading_zeros(), self.width)
    }
}

fn mem_violation(it: &MemItem, requested: u128, total_in: usize, how: &str) -> Violation {
    Violation::new(
        format!("C14/alloc-unbounded/{}", it.kind()),
        format!(
            "a {} frame declaring {} payload bytes ({}-byte varint) with {} payload bytes supplied ({} bytes received in total) made the decoder request a single allocation of {} bytes > 64 KiB + bytes received{}",
            it.kind(),
            it.declared,
            it.width,
            it.supplied,
            total_in,
            requested,
            how
        ),
        it.witness(),
    )
    .cost(((it.declared.min(1 << 40) / 1024 + it.supplied) << 8) | ((it.stream as u64) << 4) | it.width as u64)
}

fn mem_eval(it: &MemItem) -> ItemOut {
    let input = it.bytes();
    // Same construction as the peer inbox in wire/protocol.rs (`Deserializer::default()`); its
    // 64 KiB initial capacity is allocated before any byte is received.
    let mut de = Inbox::default();
    let mut out: Vec<F> = vec![];
    let (end, max_req, _total) = mcx::alloc::measure(|| feed(&mut de, &input, &mut out));
    let label = result_label(&out, &end);
    let bound = CONSTANT + input.len();
    let mut vs = vec![];
    if max_req > bound {
        vs.push(mem_violation(it, max_req as u128, input.len(), ""));
    }
    let class = mcx::fnv64(format!("{}|{label}", it.shape()).as_bytes()) | 1;
    ItemOut::new(class, format!("memory:{}:{}", if max_req > bound { "OVER-BOUND" } else { "within-bound" }, label)).with(vs)
}

fn mem_on_panic(it: &MemItem, c: &Caught) -> Violation {
    Violation::new(format!("C14/panic/{}", c.site()), format!("decoder panicked at {}:{} ({})", c.file, c.line, c.message), it.witness())
}

fn mem_on_crash(it: &MemItem, crash: Crash, tail: &str) -> Violation {
    let n = c13_codec::oversize(tail).or_else(|| c13_codec::alloc_failed(tail));
    match (crash, n) {
        (Crash::Abort { code, .. }, n) if n.is_some() || code == Some(mcx::alloc::OVERSIZE_EXIT) => {
            // The size is normally on the worker's stderr; if the tail was lost the request is at
            // least the hard cap.
            let req = n.unwrap_or(mcx::alloc::HARD_CAP as u128 + 1);
            mem_violation(it, req, it.bytes().len(), " (above the 256 MiB hard cap of the counting allocator: the worker was ended instead of the machine)")
        }
        (c, _) => Violation::new(
            format!("C14/decoder-died/{}", c13_codec::crash_label(c)),
            format!("worker died ({}) while decoding; stderr: {}", c13_codec::crash_label(c), tail.trim()),
            it.witness(),
        ),
    }
}

fn memory(items: &[MemItem], name: &str) -> Stats {
    sweep::procs(
        name,
        items.len() as u64,
        ProcOpts { chunk: Some(4), ..ProcOpts::default() },
        |i| mem_eval(&items[i as usize]),
        Some(|i: u64, c: &Caught| mem_on_panic(&items[i as usize], c)),
        |i, crash, tail: &str| mem_on_crash(&items[i as usize], crash, tail),
    )
}

// ------------------------------------------------------------------------------------------
// Family 2: chunking
// ------------------------------------------------------------------------------------------

static FEEDS: AtomicU64 = AtomicU64::new(0);

#[derive(Clone, Copy, PartialEq, Eq, Debug)]
enum Splits {
    /// every pair 0 ≤ a ≤ b ≤ len
    Pairs,
    /// every single split 0 ≤ a ≤ len
    Singles,
}

struct ChunkSpace<'a> {
    corpus: &'a [Entry],
    /// indexes (into corpus) of the frames used for multi-frame sequences
    small: Vec<usize>,
    /// indexes of boundary-size frames
    big: Vec<usize>,
    /// index of the control frame put around boundary-size frames
    wrap: usize,
}

impl<'a> ChunkSpace<'a> {
    fn new(corpus: &'a [Entry], thorough: bool) -> Self {
        let small: Vec<usize> = corpus
            .iter()
            .enumerate()
            .filter(|(_, e)| !e.big && (thorough || QUICK_SMALL.contains(&e.name.as_str())))
            .map(|(i, _)| i)
            .collect();
        let big: Vec<usize> = corpus.iter().enumerate().filter(|(_, e)| e.big && (thorough || e.bytes.len() <= 5000)).map(|(i, _)| i).collect();
        let wrap = corpus.iter().position(|e| e.name == "control/open-1B").expect("corpus has control/open-1B");
        ChunkSpace { corpus, small, big, wrap }
    }
    fn size(&self) -> u64 {
        let s = self.small.len() as u64;
        s + s * s + s * s * s + 2 * self.big.len() as u64
    }
    fn item(&self, i: u64) -> (Vec<usize>, Splits) {
        let s = self.small.len() as u64;
        let sm = |k: u64| self.small[k as usize];
        if i < s {
            (vec![sm(i)], Splits::Pairs)
        } else if i < s + s * s {
            let j = i - s;
            (vec![sm(j / s), sm(j % s)], Splits::Pairs)
        } else if i < s + s * s + s * s * s {
            let j = i - s - s * s;
            (vec![sm(j / (s * s)), sm((j / s) % s), sm(j % s)], Splits::Singles)
        } else {
            let j = i - s - s * s - s * s * s;
            let b = self.big[(j / 2) as usize];
            if j % 2 == 0 {
                (vec![b], Splits::Singles)
            } else {
                (vec![self.wrap, b, self.wrap], Splits::Singles)
            }
        }
    }
}

/// Quick tier: one small frame per message / control / git shape.
const QUICK_SMALL: [&str; 12] = [
    "gossip/node/ipv4",
    "gossip/inv/1",
    "gossip/refs/1",
    "gossip/ping/3",
    "gossip/pong/0",
    "gossip/info/synced",
    "control/open-1B",
    "control/close-4B",
    "control/eof-8B",
    "git/0",
    "git/63",
    "git/64",
];

/// Feed `bytes` in the chunks delimited by `cuts` into a fresh inbox; compare with `expect`.
/// On failure: (oracle clause, index in `seq` of the first frame that went wrong, description).
fn chunk_run(corpus: &[Entry], seq: &[usize], bytes: &[u8], cuts: &[usize]) -> Result<(), (String, usize, String)> {
    let mut de = Inbox::new(64);
    let mut out: Vec<F> = Vec::with_capacity(seq.len());
    let mut from = 0usize;
    for to in cuts.iter().copied().chain(std::iter::once(bytes.len())) {
        let end = feed(&mut de, &bytes[from..to], &mut out);
        from = to;
        if end != End::Incomplete {
            return Err(("error-on-valid-stream".into(), out.len(), format!("after {} of {} bytes the inbox answered {} (frames so far: {})", to, bytes.len(), end.label(), out.len())));
        }
    }
    if out.len() != seq.len() {
        return Err((
            if out.len() < seq.len() { "frames-missing".into() } else { "frames-surplus".into() },
            out.len(),
            format!("{} frame(s) came out of a stream of {} ({} bytes left in the inbox)", out.len(), seq.len(), de.len()),
        ));
    }
    for (k, f) in out.iter().enumerate() {
        if *f != corpus[seq[k]].frame {
            return Err(("frame-differs".into(), k, format!("frame #{k} came out as {f:?}, sent {:?}", corpus[seq[k]].frame)));
        }
    }
    if !de.is_empty() {
        return Err(("residue".into(), seq.len(), format!("{} bytes left in the inbox after all frames came out", de.len())));
    }
    Ok(())
}

fn chunk_witness(corpus: &[Entry], seq: &[usize], cuts: &[usize]) -> Value {
    json!({"family": "chunking", "frames": seq.iter().map(|k| corpus[*k].name.clone()).collect::<Vec<_>>(), "cuts": cuts})
}

fn chunk_violation(corpus: &[Entry], seq: &[usize], cuts: &[usize], clause: &str, at: usize, what: &str) -> Violation {
    let kind = match corpus[seq[at.min(seq.len() - 1)]].kind {
        'c' => "control",
        'g' => "gossip",
        _ => "git",
    };
    Violation::new(
        format!("C14/chunking/{clause}/{kind}-frame"),
        format!("frames {:?} fed with cuts at {:?}: {what}", seq.iter().map(|k| corpus[*k].name.as_str()).collect::<Vec<_>>(), cuts),
        chunk_witness(corpus, seq, cuts),
    )
    .cost((seq.iter().map(|k| corpus[*k].bytes.len() as u64).sum::<u64>() << 24) | (mcx::fnv64(format!("{seq:?}{cuts:?}").as_bytes()) & 0xff_ffff))
}

fn chunk_eval(sp: &ChunkSpace, i: u64) -> ItemOut {
    let (seq, splits) = sp.item(i);
    let bytes: Vec<u8> = seq.iter().flat_map(|k| sp.corpus[*k].bytes.iter().copied()).collect();
    let mut vs: Vec<Violation> = vec![];
    let mut feeds = 0u64;
    let mut bad = 0u64;
    let mut check = |cuts: &[usize], vs: &mut Vec<Violation>| {
        feeds += 1;
        if let Err((clause, at, what)) = chunk_run(sp.corpus, &seq, &bytes, cuts) {
            bad += 1;
            // keep the first few per item; all are counted
            if vs.len() < 4 {
                vs.push(chunk_violation(sp.corpus, &seq, cuts, &clause, at, &what));
            }
        }
    };
    match splits {
        Splits::Pairs => {
            for a in 0..=bytes.len() {
                for b in a..=bytes.len() {
                    check(&[a, b], &mut vs);
                }
            }
        }
        Splits::Singles => {
            for a in 0..=bytes.len() {
                check(&[a], &mut vs);
            }
        }
    }
    FEEDS.fetch_add(feeds, Ordering::Relaxed);
    let class = mcx::fnv64(format!("chunk|{seq:?}").as_bytes()) | 1;
    let big = seq.iter().any(|k| sp.corpus[*k].big);
    let how = if splits == Splits::Pairs { "every split pair" } else { "every single split" };
    ItemOut::new(class, format!("chunking:{} frame(s){}, {how}:{}", seq.len(), if big { " incl. boundary-size" } else { "" }, if bad == 0 { "same frames at all splits" } else { "SPLIT-DEPENDENT" })).with(vs)
}

fn chunk_on_panic(sp: &ChunkSpace, i: u64, c: &Caught) -> Violation {
    let (seq, _) = sp.item(i);
    Violation::new(
        format!("C14/panic/{}", c.site()),
        format!("decoder panicked at {}:{} ({}) while a valid stream was fed in chunks", c.file, c.line, c.message),
        chunk_witness(sp.corpus, &seq, &[]),
    )
}

// ------------------------------------------------------------------------------------------
// Family 3: complete but invalid
// ------------------------------------------------------------------------------------------

const SURPLUS: [usize; 4] = [1, 2, 9, 300];

#[derive(Clone, Copy, Debug)]
enum Inner {
    /// inner message cut by k bytes (1..=len)
    Cut(usize),
    /// k surplus bytes of value v after the inner message
    Surplus(usize, u8),
}

struct InvalidSpace<'a> {
    corpus: &'a [Entry],
    /// (corpus index, inner message bytes)
    gossip: Vec<(usize, Vec<u8>)>,
    offsets: Vec<u64>,
}

impl<'a> InvalidSpace<'a> {
    fn new(corpus: &'a [Entry], thorough: bool) -> Self {
        let msgs = c13_codec::message_corpus();
        let mut gossip = vec![];
        for (i, e) in corpus.iter().enumerate() {
            if e.kind != 'g' || (e.big && !thorough && e.bytes.len() > 5000) {
                continue;
            }
            let name = e.name.strip_prefix("gossip/").unwrap_or(&e.name);
            let (_, m, _) = msgs.iter().find(|(n, _, _)| n == name).expect("gossip frame has a corpus message");
            // The inner message bytes: what the node itself puts inside the frame.
            let inner = radicle_node::wire::serialize(m);
            assert!(e.bytes.ends_with(&inner), "harness: frame does not end with its message");
            gossip.push((i, inner));
        }
        let mut offsets = vec![0u64];
        for (_, inner) in &gossip {
            offsets.push(offsets.last().unwrap() + inner.len() as u64 + 2 * SURPLUS.len() as u64);
        }
        InvalidSpace { corpus, gossip, offsets }
    }
    fn size(&self) -> u64 {
        *self.offsets.last().unwrap()
    }
    fn item(&self, i: u64) -> (usize, Inner) {
        let g = self.offsets.partition_point(|o| *o <= i) - 1;
        let j = (i - self.offsets[g]) as usize;
        let n = self.gossip[g].1.len();
        if j < n {
            (g, Inner::Cut(j + 1))
        } else {
            let s = j - n;
            (g, Inner::Surplus(SURPLUS[s / 2], if s % 2 == 0 { 0x00 } else { 0xff }))
        }
    }
    /// A complete gossip frame around the altered inner message.
    fn bytes(&self, g: usize, inner: Inner) -> Vec<u8> {
        let (ci, msg) = &self.gossip[g];
        let payload: Vec<u8> = match inner {
            Inner::Cut(k) => msg[..msg.len() - k].to_vec(),
            Inner::Surplus(k, v) => [&msg[..], &vec![v; k][..]].concat(),
        };
        let stream = self.corpus[*ci].bytes[4]; // the 1-byte gossip stream id of the corpus frame
        let mut b = VERSION.to_vec();
        b.push(stream);
        b.extend(varint(payload.len() as u64, min_width(payload.len() as u64)));
        b.extend(payload);
        b
    }
    fn witness(&self, g: usize, inner: Inner) -> Value {
        let name = &self.corpus[self.gossip[g].0].name;
        match inner {
            Inner::Cut(k) => json!({"family": "complete-invalid", "frame": name, "cut": k, "inner_len": self.gossip[g].1.len()}),
            Inner::Surplus(k, v) => json!({"family": "complete-invalid", "frame": name, "surplus": k, "byte": v}),
        }
    }
}

fn invalid_eval(sp: &InvalidSpace, g: usize, inner: Inner) -> ItemOut {
    let bytes = sp.bytes(g, inner);
    let e = &sp.corpus[sp.gossip[g].0];
    let msg_name = e.name.strip_prefix("gossip/").unwrap_or(&e.name);
    let ty = msg_name.split('/').next().unwrap_or("");
    let mut de = Inbox::new(64);
    let mut out: Vec<F> = vec![];
    let end = feed(&mut de, &bytes, &mut out);
    let mut vs = vec![];
    let what_in = match inner {
        Inner::Cut(k) => format!("gossip frame whose inner {ty} message ({}) is cut by {k} of {} bytes, outer length adjusted ({} bytes, complete)", msg_name, sp.gossip[g].1.len(), bytes.len()),
        Inner::Surplus(k, v) => format!("gossip frame with {k} surplus {v:#04x} bytes after its inner {ty} message ({})", msg_name),
    };
    let outcome;
    if out.is_empty() && end == End::Incomplete {
        // The whole frame is in the inbox and the decoder asks for more: does the stream stall?
        let follow = &sp.corpus.iter().find(|e| e.name == "control/open-1B").expect("corpus").bytes;
        let end2 = feed(&mut de, follow, &mut out);
        let stalled = out.is_empty() && end2 == End::Incomplete;
        vs.push(
            Violation::new(
                "C14/complete-invalid-reported-incomplete/gossip-inner-eof",
                format!(
                    "{what_in}: deserialize_next answered Ok(None) (\"incomplete\") instead of an error{}",
                    if stalled { "; a valid control frame sent afterwards is never delivered (the stream stalls until the 2 MiB inbox overflows)" } else { "" }
                ),
                sp.witness(g, inner),
            )
            .cost(match inner {
                Inner::Cut(k) => k as u64 * 100_000 + bytes.len() as u64,
                Inner::Surplus(..) => u64::MAX / 2,
            }),
        );
        outcome = format!("{}:Ok(None)=INCOMPLETE", inner_label(inner));
    } else if out.len() == 1 && de.is_empty() {
        // Accepted as a frame.
        let in_agent = matches!(inner, Inner::Cut(_)) && ty == "node";
        if let Inner::Cut(k) = inner {
            if ty != "node" {
                vs.push(
                    Violation::new(
                        format!("C14/complete-invalid-accepted/{ty}"),
                        format!("{what_in}: accepted as the frame {:?} although a mandatory part of the message is missing", out[0]),
                        sp.witness(g, inner),
                    )
                    .cost(k as u64),
                );
            }
        }
        outcome = format!("{}:accepted{}", inner_label(inner), if in_agent { "(node announcement cut inside/at its optional user agent)" } else { "" });
    } else {
        outcome = format!("{}:{}", inner_label(inner), result_label(&out, &end));
    }
    let class = mcx::fnv64(format!("{}|{:?}", e.name, inner).as_bytes()) | 1;
    ItemOut::new(class, format!("complete-invalid:{outcome}")).with(vs)
}

fn inner_label(i: Inner) -> &'static str {
    match i {
        Inner::Cut(_) => "cut",
        Inner::Surplus(..) => "surplus",
    }
}

// ------------------------------------------------------------------------------------------

fn replay(w: &Value) -> Vec<Violation> {
    let corpus = frame_corpus();
    let by_name = |n: &str| corpus.iter().position(|e| e.name == n).unwrap_or_else(|| mcx::report::machinery(&format!("unknown corpus frame {n:?}")));
    match w.get("family").and_then(Value::as_str) {
        Some("memory") => {
            let it = MemItem::from_witness(w).unwrap_or_else(|| mcx::report::machinery("bad memory witness"));
            let mut st = memory(&[it], "c14-replay");
            std::mem::take(&mut st.violations).by_fp.into_values().map(|(mut ws, _)| ws.remove(0)).collect()
        }
        Some("chunking") => {
            let seq: Vec<usize> = w.get("frames").and_then(Value::as_array).map(|a| a.iter().filter_map(Value::as_str).map(by_name).collect()).unwrap_or_default();
            let cuts: Vec<usize> = w.get("cuts").and_then(Value::as_array).map(|a| a.iter().filter_map(Value::as_u64).map(|x| x as usize).collect()).unwrap_or_default();
            if seq.is_empty() {
                mcx::report::machinery("chunking witness names no frames");
            }
            let bytes: Vec<u8> = seq.iter().flat_map(|k| corpus[*k].bytes.iter().copied()).collect();
            match mcx::panics::catch(|| chunk_run(&corpus, &seq, &bytes, &cuts)) {
                Ok(Ok(())) => vec![],
                Ok(Err((clause, at, what))) => vec![chunk_violation(&corpus, &seq, &cuts, &clause, at, &what)],
                Err(c) => vec![Violation::new(format!("C14/panic/{}", c.site()), format!("decoder panicked at {}:{} ({})", c.file, c.line, c.message), w.clone())],
            }
        }
        Some("complete-invalid") => {
            let sp = InvalidSpace::new(&corpus, true);
            let ci = by_name(w.get("frame").and_then(Value::as_str).unwrap_or(""));
            let g = sp.gossip.iter().position(|(i, _)| *i == ci).unwrap_or_else(|| mcx::report::machinery("not a gossip frame"));
            let inner = match w.get("cut").and_then(Value::as_u64) {
                Some(k) => Inner::Cut((k as usize).clamp(1, sp.gossip[g].1.len())),
                None => Inner::Surplus(w.get("surplus").and_then(Value::as_u64).unwrap_or(1) as usize, w.get("byte").and_then(Value::as_u64).unwrap_or(0) as u8),
            };
            invalid_eval(&sp, g, inner).violations
        }
        _ => mcx::report::machinery("witness has no known family"),
    }
}

fn main() {
    let ctx = Ctx::from_env("C14", "exploration");
    let thorough = ctx.tier == mcx::Tier::Thorough;
    if let Some(w) = ctx.replay_witness() {
        ctx.finish_replay(replay(&w));
    }

    let mut st = Stats::default();

    // 1. memory (process-isolated; must come first: the workers re-execute this binary).
    let items = mem_items();
    let mem = memory(&items, "c14-memory");
    let mem_n = mem.n;
    let mem_crashed = mem.crashed_items.len();
    st.merge(mem);

    let corpus = frame_corpus();

    // 2. chunking
    let csp = ChunkSpace::new(&corpus, thorough);
    let chunk = sweep::threads(csp.size(), |i| chunk_eval(&csp, i), Some(|i: u64, c: &Caught| chunk_on_panic(&csp, i, c)));
    let chunk_n = chunk.n;
    st.merge(chunk);

    // 3. complete but invalid
    let isp = InvalidSpace::new(&corpus, thorough);
    let inv = sweep::threads(
        isp.size(),
        |i| {
            let (g, inner) = isp.item(i);
            invalid_eval(&isp, g, inner)
        },
        Some(|i: u64, c: &Caught| {
            let (g, inner) = isp.item(i);
            Violation::new(format!("C14/panic/{}", c.site()), format!("decoder panicked at {}:{} ({}) on a complete frame", c.file, c.line, c.message), isp.witness(g, inner))
        }),
    );
    let inv_n = inv.n;
    st.merge(inv);

    let samples = vec![
        items[items.len() / 2].witness(),
        chunk_witness(&corpus, &csp.item(csp.size() / 2).0, &[3, 40]),
        isp.witness(isp.item(isp.size() / 3).0, isp.item(isp.size() / 3).1),
    ];
    let mut cov = st.coverage(
        "memory: streams {gossip 2,3; git 4,5} × declared length {0,1,63,64,16383,16384,65535,65536,2^20,2^24,2^30-1,2^30,2^62-1} × every varint width ≥ minimal × payload supplied {0,1,len-1,len} (≤ 70 KiB), oracle max single allocation ≤ 64 KiB + bytes received; \
         chunking: every 1-/2-frame sequence of the small corpus at every split pair 0≤a≤b≤len, every 3-frame sequence at every single split, boundary-size frames alone and between two control frames at every single split; \
         complete-invalid: every corpus gossip frame with its inner message cut by 1..n bytes (outer length adjusted) or followed by {1,2,9,300} surplus bytes of 00/ff; \
         an item = one (stream,length,width,supply) tuple / one frame sequence (all its splits) / one altered frame; no item is trivial; distinct = distinct (shape, result) for memory, distinct sequence / alteration otherwise",
        samples,
    );
    cov.insert("memory_items".into(), json!(mem_n));
    cov.insert("memory_items_ending_the_worker".into(), json!(mem_crashed));
    cov.insert("chunking_sequences".into(), json!(chunk_n));
    cov.insert("chunking_split_feeds".into(), json!(FEEDS.load(Ordering::Relaxed)));
    cov.insert("chunking_corpus_small".into(), json!(csp.small.iter().map(|k| corpus[*k].name.clone()).collect::<Vec<_>>()));
    cov.insert("chunking_corpus_boundary_size".into(), json!(csp.big.iter().map(|k| corpus[*k].name.clone()).collect::<Vec<_>>()));
    cov.insert("complete_invalid_items".into(), json!(inv_n));
    cov.insert("corpus_frames".into(), json!(corpus.len()));
    ctx.finish(
        cov,
        &[
            "the inbox is driven as Wire::received drives it: input(chunk), then deserialize_next until Ok(None) or Err",
            "MAX_INBOX_SIZE (2 MiB) is mirrored from wire/protocol.rs (private constant)",
            "memory observable = largest single request seen by the counting global allocator on the decoding thread; requests above 256 MiB end the worker process",
            "quick tier: 12 small frames in multi-frame sequences, boundary-size frames ≤ 5000 bytes only; thorough: all 28 small and 11 boundary-size frames",
            "surplus bytes after the inner message of a gossip frame are dropped by design (wire/frame.rs) and are not treated as invalid",
        ],
        std::mem::take(&mut st.violations),
    );
}
