//! C10 — Gossip is authenticated, fresh and never echoed back.
//!
//! Engine A over a real relaying `Service`. Two connected, subscribed peers deliver announcements
//! (their own, those of an unknown node `X`, the local node's), a third connected peer only
//! listens. Every announcement variant is built by the harness: signature {valid, forged by another
//! key, valid over other bytes} × timestamp class {older, equal, newer, +1h, +1h+1ms} relative to
//! what the gossip store holds. After every step the gossip store is dumped and every message the
//! service wrote is inspected.
//!
//! Oracle (implication only — "stores or relays only if"): an announcement that newly appears in
//! the store, or is written to a peer and is not authored by the local node, must have been
//! received under: signature verifies; timestamp ≤ now + 1h; strictly newer than the stored
//! announcement of the same (announcer, kind, repository); for inventory/refs a node announcement
//! of the announcer was stored. A written announcement never goes to a peer that delivered the
//! same announcement to us, nor to its announcer.

#[path = "../svc.rs"]
mod svc;

use std::collections::{BTreeMap, BTreeSet};

use mcx::explore::{self, Bounds, StepOut, System};
use mcx::report::{Ctx, Violation};
use radicle::identity::Visibility;
use radicle::node::device::Device;
use radicle::node::policy::Scope;
use radicle::storage::refs::RefsAt;
use radicle::test::storage::MockStorage;
use radicle_node::prelude::*;
use radicle_node::service::gossip::Store as _;
use radicle_node::service::io::Io;
use radicle_node::service::message::*;
use radicle_node::service::{self};
use radicle_node::wire;
use serde::{Deserialize, Serialize};
use serde_json::json;
use svc::{Peer, Svc};

#[derive(Clone, Copy, Debug, PartialEq, Eq, PartialOrd, Ord, Serialize, Deserialize)]
enum Kind {
    Node,
    Inv,
    Refs,
}
#[derive(Clone, Copy, Debug, PartialEq, Eq, PartialOrd, Ord, Serialize, Deserialize)]
enum Ts {
    Newer,
    /// Newer by a margin (so that other rows' "newer" timestamps stay below it).
    NewerFar,
    Older,
    Equal,
    PlusHour,
    PlusHourAndOne,
}
#[derive(Clone, Copy, Debug, PartialEq, Eq, PartialOrd, Ord, Serialize, Deserialize)]
enum Sig {
    Valid,
    ForgedOtherKey,
    ValidOverOtherBytes,
}
/// Announcer: 0 = unknown node X, 1 = relayer peer P1 (connected, known), 2 = the local node.
#[derive(Clone, Debug, PartialEq, Eq, PartialOrd, Ord, Serialize, Deserialize)]
enum Ev {
    Recv { relayer: usize, announcer: usize, kind: Kind, ts: Ts, sig: Sig },
    Gossip,
}

const HOUR_MS: u64 = 3_600_000;

fn ann_id(a: &Announcement) -> Vec<u8> {
    let mut v = a.node.to_vec();
    v.extend(wire::serialize(&a.message));
    v.extend(a.signature.to_vec());
    v
}
fn short(id: &[u8]) -> String {
    format!("{:016x}", mcx::fnv64(id))
}
type RowKey = (String, &'static str);
fn row_key(a: &Announcement) -> RowKey {
    match &a.message {
        AnnouncementMessage::Node(_) => (a.node.to_string(), "node"),
        AnnouncementMessage::Inventory(_) => (a.node.to_string(), "inventory"),
        AnnouncementMessage::Refs(_) => (a.node.to_string(), "refs"),
    }
}

struct Sys {
    svc: Svc,
    relayers: Vec<Peer>, // P1, P2 deliver; all are connected and subscribed
    listener: Peer,      // P3 only listens
    x: Peer,
    other_key: Peer,
    local: Device<radicle::crypto::test::signer::MockSigner>,
    rid: RepoId,
    connected: BTreeSet<NodeId>,
    /// Who delivered which announcement (by identity) to us — ever.
    delivered_by: BTreeMap<Vec<u8>, BTreeSet<NodeId>>,
    /// Announcements received while all conditions of the statement held.
    accepted_ok: BTreeSet<Vec<u8>>,
    /// Why an announcement was not acceptable at its (last) receipt.
    rejected_why: BTreeMap<Vec<u8>, String>,
    /// Inventory announcements stored since the last gossip tick (the store's relay flag).
    pending: BTreeSet<Vec<u8>>,
    /// Relayers of stored announcements per store row (mirrors what relay bookkeeping can know).
    row_relayers: BTreeMap<RowKey, BTreeSet<NodeId>>,
    gossips: u64,
    /// (store row, timestamp, signature verifies) of every announcement ever received.
    meta: BTreeMap<Vec<u8>, (RowKey, u64, bool)>,
    /// Peers whose delivery made the announcement appear in the store.
    stored_from: BTreeMap<Vec<u8>, BTreeSet<NodeId>>,
}

impl Sys {
    fn new() -> Sys {
        let p1 = Peer::new("p1", 21);
        let p2 = Peer::new("p2", 22);
        let p3 = Peer::new("p3", 23);
        let x = Peer::new("xx", 24);
        let other_key = Peer::new("mallory", 25);
        let rid = svc::rid(0x31);
        let mut storage = MockStorage::empty();
        storage.repos.insert(rid, svc::mock_repo(rid, svc::doc(&[&x], Visibility::Public)));
        let mut s = svc::build(svc::Build { storage, seed: vec![(rid, Scope::All)], relay: true, ..Default::default() });
        let mut connected = BTreeSet::new();
        // Initial state: three peers connected, introduced (node announcement) and subscribed to everything.
        for (i, p) in [&p1, &p2, &p3].into_iter().enumerate() {
            svc::connect_inbound(&mut s, p);
            s.received_message(p.id, Message::Announcement(p.node_ann(svc::T0_MS - 10_000 + i as u64)));
            s.received_message(p.id, Message::Subscribe(Subscribe::all()));
            svc::drain(&mut s);
            connected.insert(p.id);
        }
        // Flush whatever the introductions queued for relay.
        svc::elapse(&mut s, service::GOSSIP_INTERVAL.as_millis() as u64);
        Sys {
            svc: s,
            relayers: vec![p1, p2],
            listener: p3,
            x,
            other_key,
            local: svc::local_signer(),
            rid,
            connected,
            delivered_by: BTreeMap::new(),
            accepted_ok: BTreeSet::new(),
            rejected_why: BTreeMap::new(),
            pending: BTreeSet::new(),
            row_relayers: BTreeMap::new(),
            gossips: 0,
            meta: BTreeMap::new(),
            stored_from: BTreeMap::new(),
        }
    }

    fn now_ms(&self) -> u64 {
        self.svc.local_time().as_millis() as u64
    }

    fn store(&self) -> Vec<Announcement> {
        self.svc
            .database()
            .gossip()
            .filtered(&Filter::default(), Timestamp::MIN, Timestamp::MAX)
            .expect("gossip store query")
            .map(|r| r.expect("gossip row"))
            .collect()
    }

    fn announcer(&self, a: usize) -> (NodeId, &Device<radicle::crypto::test::signer::MockSigner>) {
        match a {
            0 => (self.x.id, &self.x.signer),
            1 => (self.relayers[0].id, &self.relayers[0].signer),
            _ => (*self.local.public_key(), &self.local),
        }
    }

    fn stored_ts(&self, store: &[Announcement], key: &RowKey) -> Option<u64> {
        store.iter().find(|a| &row_key(a) == key).map(|a| *a.timestamp())
    }

    fn message(&self, announcer: NodeId, kind: Kind, ts: u64) -> AnnouncementMessage {
        let t = Timestamp::try_from(ts).unwrap();
        match kind {
            Kind::Node => AnnouncementMessage::Node(NodeAnnouncement {
                version: 1,
                features: radicle::node::Features::SEED,
                timestamp: t,
                alias: radicle::node::Alias::new("announcer"),
                addresses: vec![Address::from(std::net::SocketAddr::from(([88, 88, 88, 8], 8776)))].try_into().unwrap(),
                nonce: 0,
                agent: radicle::node::UserAgent::default(),
            }),
            Kind::Inv => AnnouncementMessage::Inventory(InventoryAnnouncement { inventory: vec![self.rid].try_into().unwrap(), timestamp: t }),
            Kind::Refs => AnnouncementMessage::Refs(RefsAnnouncement {
                rid: self.rid,
                refs: vec![RefsAt { remote: announcer, at: svc::oid((ts % 200) as u8 + 1) }].try_into().unwrap(),
                timestamp: t,
            }),
        }
    }

    /// Build the announcement for an event in the current state, together with the concrete timestamp.
    fn build(&self, announcer: usize, kind: Kind, ts: Ts, sig: Sig) -> Option<Announcement> {
        use radicle::crypto::signature::Signer as _;
        let (nid, signer) = self.announcer(announcer);
        let store = self.store();
        let proto = Announcement { node: nid, signature: signer.sign(b"x"), message: self.message(nid, kind, 1) };
        let last = self.stored_ts(&store, &row_key(&proto));
        let now = self.now_ms();
        let t = match ts {
            Ts::Newer => last.map(|l| l + 1).unwrap_or(now - 1000),
            Ts::NewerFar => last.map(|l| l + 10).unwrap_or(now - 990),
            Ts::Older => last? - 1,
            Ts::Equal => last?,
            Ts::PlusHour => now + HOUR_MS,
            Ts::PlusHourAndOne => now + HOUR_MS + 1,
        };
        let message = self.message(nid, kind, t);
        let bytes = wire::serialize(&message);
        let signature = match sig {
            Sig::Valid => signer.sign(&bytes),
            Sig::ForgedOtherKey => self.other_key.signer.sign(&bytes),
            Sig::ValidOverOtherBytes => signer.sign(&wire::serialize(&self.message(nid, kind, t + 7))),
        };
        Some(Announcement { node: nid, signature, message })
    }

    fn name(&self, nid: &NodeId) -> String {
        for p in self.relayers.iter().chain([&self.listener, &self.x]) {
            if &p.id == nid {
                return p.name.to_string();
            }
        }
        if nid == self.local.public_key() {
            return "local".into();
        }
        nid.to_string()
    }

    /// Inspect written announcements; perform service-requested disconnects.
    fn inspect(&mut self, ios: Vec<Io>, phase: &str, labels: &mut Vec<String>, vs: &mut Vec<Violation>) {
        let local = *self.local.public_key();
        for io in ios {
            match io {
                Io::Write(to, msgs) => {
                    for m in msgs {
                        let Message::Announcement(a) = m else { continue };
                        if a.node == local {
                            continue;
                        }
                        let id = ann_id(&a);
                        labels.push(format!("relayed-{}", row_key(&a).1));
                        if !self.accepted_ok.contains(&id) {
                            let why = self.rejected_why.get(&id).cloned().unwrap_or_else(|| "never-received".into());
                            vs.push(Violation::new(
                                format!("C10/relayed-unacceptable/{why}"),
                                format!("{} announcement of {} (t={}) was relayed to {} although at receipt: {why}", row_key(&a).1, self.name(&a.node), *a.timestamp(), self.name(&to)),
                                json!({"ann": short(&id)}),
                            ));
                        }
                        if to == a.node {
                            vs.push(Violation::new(
                                format!("C10/echo-to-announcer/{phase}"),
                                format!("{} announcement of {} was sent to its announcer", row_key(&a).1, self.name(&a.node)),
                                json!({"ann": short(&id)}),
                            ));
                        }
                        if self.delivered_by.get(&id).map(|s| s.contains(&to)).unwrap_or(false) {
                            // Did this peer's delivery make us store the announcement, or did it
                            // deliver a copy we ignored (already stored / announcer unknown then)?
                            let how = if self.stored_from.get(&id).map(|s| s.contains(&to)).unwrap_or(false) { "deliverer-of-the-stored-copy" } else { "deliverer-of-an-ignored-copy" };
                            vs.push(Violation::new(
                                format!("C10/echo-to-deliverer/{}/{phase}/{how}", row_key(&a).1),
                                format!("{} announcement of {} (t={}) was sent to {}, who had delivered that very announcement to us", row_key(&a).1, self.name(&a.node), *a.timestamp(), self.name(&to)),
                                json!({"ann": short(&id)}),
                            ));
                        }
                    }
                }
                Io::Disconnect(nid, _) => {
                    // The wire would close the transport; this check does not study disconnect races.
                    if self.connected.remove(&nid) {
                        self.svc.disconnected(nid, Link::Inbound, &service::DisconnectReason::connection());
                        let more = svc::drain(&mut self.svc);
                        labels.push("peer-disconnected-for-misbehaviour".into());
                        self.inspect(more, phase, labels, vs);
                    }
                }
                Io::Connect(nid, _) => {
                    self.svc.disconnected(nid, Link::Outbound, &service::DisconnectReason::Dial(std::sync::Arc::new(std::io::Error::from(std::io::ErrorKind::ConnectionRefused))));
                    let more = svc::drain(&mut self.svc);
                    self.inspect(more, phase, labels, vs);
                }
                Io::Fetch { .. } | Io::Wakeup(_) => {}
            }
        }
    }
}

use radicle_node::Link;

impl System for Sys {
    type Ev = Ev;

    fn enabled(&self) -> Vec<Ev> {
        let mut v = vec![Ev::Gossip];
        let store = self.store();
        for (ri, r) in self.relayers.iter().enumerate() {
            if !self.connected.contains(&r.id) {
                continue;
            }
            for announcer in 0..3usize {
                for kind in [Kind::Node, Kind::Inv, Kind::Refs] {
                    for ts in [Ts::Newer, Ts::NewerFar, Ts::Older, Ts::Equal, Ts::PlusHour, Ts::PlusHourAndOne] {
                        for sig in [Sig::Valid, Sig::ForgedOtherKey, Sig::ValidOverOtherBytes] {
                            // The local node's own announcements: only the plain variant.
                            if announcer == 2 && (ts != Ts::Newer || sig != Sig::Valid) {
                                continue;
                            }
                            // `older` / `equal` need a stored row to relate to (cheap test; the
                            // announcement itself is only built and signed when the event is applied).
                            let key: RowKey = (self.announcer(announcer).0.to_string(), match kind { Kind::Node => "node", Kind::Inv => "inventory", Kind::Refs => "refs" });
                            if !matches!(ts, Ts::Older | Ts::Equal) || self.stored_ts(&store, &key).is_some() {
                                v.push(Ev::Recv { relayer: ri, announcer, kind, ts, sig });
                            }
                        }
                    }
                }
            }
        }
        v
    }

    fn is_deviation(&self, ev: &Ev) -> bool {
        match ev {
            Ev::Gossip => false,
            Ev::Recv { ts, sig, announcer, .. } => !matches!(ts, Ts::Newer | Ts::NewerFar) || *sig != Sig::Valid || *announcer == 2,
        }
    }

    fn step(&mut self, ev: &Ev) -> StepOut {
        let mut labels = vec![];
        let mut vs = vec![];
        match ev {
            Ev::Gossip => {
                self.gossips += 1;
                let ios = svc::elapse(&mut self.svc, service::GOSSIP_INTERVAL.as_millis() as u64);
                self.pending.clear();
                self.inspect(ios, "gossip-tick", &mut labels, &mut vs);
                labels.push("gossip".into());
            }
            Ev::Recv { relayer, announcer, kind, ts, sig } => {
                let Some(ann) = self.build(*announcer, *kind, *ts, *sig) else {
                    return StepOut { violations: vec![], outcome: "not-applicable".into(), dead: true };
                };
                let from = self.relayers[*relayer].clone();
                let id = ann_id(&ann);
                let key = row_key(&ann);
                let before = self.store();
                let now = self.now_ms();
                // Conditions of the statement, evaluated against what the store held at receipt.
                let t = *ann.timestamp();
                let verifies = *sig == Sig::Valid;
                let ts_ok = t <= now + HOUR_MS;
                let fresh = self.stored_ts(&before, &key).map(|l| t > l).unwrap_or(true);
                let known = *kind == Kind::Node || before.iter().any(|a| a.node == ann.node && matches!(a.message, AnnouncementMessage::Node(_)));
                let own = ann.node == *self.local.public_key();
                let why = if !verifies {
                    "signature-does-not-verify"
                } else if !ts_ok {
                    "timestamp-more-than-1h-ahead"
                } else if !fresh {
                    "not-strictly-newer-than-stored"
                } else if !known {
                    "announcer-has-no-stored-node-announcement"
                } else if own {
                    "own-announcement"
                } else {
                    ""
                };
                if why.is_empty() {
                    self.accepted_ok.insert(id.clone());
                    self.rejected_why.remove(&id);
                } else if !self.accepted_ok.contains(&id) {
                    self.rejected_why.insert(id.clone(), why.to_string());
                }
                self.delivered_by.entry(id.clone()).or_default().insert(from.id);
                self.meta.insert(id.clone(), (key.clone(), t, verifies));

                let drops = svc::drops();
                self.svc.received_message(from.id, Message::Announcement(ann.clone()));
                if svc::drops() != drops {
                    mcx::report::machinery("C10: an alphabet message was dropped before reaching the handler (rate limiter / session gate)");
                }
                let ios = svc::drain(&mut self.svc);
                let after = self.store();
                // What changed in the store?
                let before_ids: BTreeSet<Vec<u8>> = before.iter().map(ann_id).collect();
                let mut stored_now = false;
                for a in &after {
                    let aid = ann_id(a);
                    if before_ids.contains(&aid) {
                        continue;
                    }
                    if aid != id {
                        vs.push(Violation::new("C10/stored-foreign-announcement", "an announcement other than the one received appeared in the gossip store".to_string(), json!({})));
                        continue;
                    }
                    stored_now = true;
                    if !why.is_empty() {
                        vs.push(Violation::new(
                            format!("C10/stored-unacceptable/{why}"),
                            format!("{} announcement of {} (t={t}, now={now}) was stored although: {why}", key.1, self.name(&ann.node)),
                            json!({"ann": short(&id)}),
                        ));
                    }
                }
                if stored_now {
                    self.stored_from.entry(id.clone()).or_default().insert(from.id);
                    self.row_relayers.entry(key.clone()).or_default().insert(from.id);
                    if *kind == Kind::Inv {
                        self.pending.insert(id.clone());
                    }
                }
                labels.push(format!("{}:{}", key.1, if stored_now { "stored" } else if why.is_empty() { "acceptable-but-ignored" } else { "rejected" }));
                self.inspect(ios, "immediate", &mut labels, &mut vs);
            }
        }
        labels.sort();
        labels.dedup();
        StepOut { violations: vs, outcome: labels.join("+"), dead: false }
    }

    fn canon(&self) -> Vec<u8> {
        let mut rows: Vec<String> = self.store().iter().map(|a| format!("{}:{}:{}:{}", self.name(&a.node), row_key(a).1, *a.timestamp(), short(&ann_id(a)))).collect();
        rows.sort();
        // Deliverers and acceptance only matter for announcements that can still be written in the
        // future: those in the store now, or that could still be accepted (signature verifies and
        // timestamp above the stored row). Announcements whose signature does not verify, or that
        // are older than the stored row, can never be stored or relayed again, so two states that
        // differ only in who delivered such an announcement have the same futures.
        let store = self.store();
        let store_ids: BTreeSet<Vec<u8>> = store.iter().map(ann_id).collect();
        let relevant = |id: &Vec<u8>| -> bool {
            if store_ids.contains(id) {
                return true;
            }
            match self.meta.get(id) {
                Some((key, ts, verifies)) => *verifies && self.stored_ts(&store, key).map(|l| *ts > l).unwrap_or(true),
                None => true,
            }
        };
        let delivered: Vec<(String, Vec<String>)> =
            self.delivered_by.iter().filter(|(k, _)| relevant(k)).map(|(k, v)| (short(k), v.iter().map(|n| self.name(n)).collect())).collect();
        let key = json!({
            "rows": rows,
            "connected": self.connected.iter().map(|n| self.name(n)).collect::<Vec<_>>(),
            "delivered": delivered,
            "accepted": self.accepted_ok.iter().filter(|k| relevant(k)).map(|k| short(k)).collect::<Vec<_>>(),
            "pending": self.pending.iter().map(|k| short(k)).collect::<Vec<_>>(),
            "row_relayers": self.row_relayers.iter().map(|(k, v)| (format!("{}:{}", self.name(&NodeId::from_str_lossy(&k.0)), k.1), v.iter().map(|n| self.name(n)).collect::<Vec<_>>())).collect::<Vec<_>>(),
            "stored_from": self.stored_from.iter().filter(|(k, _)| relevant(k)).map(|(k, v)| (short(k), v.iter().map(|n| self.name(n)).collect::<Vec<_>>())).collect::<Vec<_>>(),
            "gossips": self.gossips,
            "fetching": svc::fetching_key(&self.svc).len(),
        });
        key.to_string().into_bytes()
    }
}

trait FromStrLossy {
    fn from_str_lossy(s: &str) -> NodeId;
}
impl FromStrLossy for NodeId {
    fn from_str_lossy(s: &str) -> NodeId {
        use std::str::FromStr;
        NodeId::from_str(s).expect("node id")
    }
}

fn main() {
    let ctx = Ctx::from_env("C10", "model_checking");
    svc::install_logger();
    let thorough = ctx.tier == mcx::Tier::Thorough;
    if let Some(w) = ctx.replay_witness() {
        ctx.finish_replay(explore::replay::<Sys>("C10", Sys::new, &w));
    }
    if ctx.extra_args.iter().any(|a| a == "--bench") {
        let t = std::time::Instant::now();
        for _ in 0..200 {
            let _ = svc::build(svc::Build::default());
        }
        eprintln!("svc::build: {:?} each", t.elapsed() / 200);
        let t = std::time::Instant::now();
        for _ in 0..200 {
            let _ = Sys::new();
        }
        eprintln!("Sys::new: {:?} each", t.elapsed() / 200);
        let s = Sys::new();
        let t = std::time::Instant::now();
        for _ in 0..200 {
            let _ = s.canon();
        }
        eprintln!("canon: {:?} each", t.elapsed() / 200);
        let t = std::time::Instant::now();
        for _ in 0..200 {
            let _ = s.enabled();
        }
        eprintln!("enabled: {:?} each", t.elapsed() / 200);
        let mut s = Sys::new();
        let evs = s.enabled();
        let t = std::time::Instant::now();
        for e in evs.iter().take(100) {
            let _ = s.step(e);
        }
        eprintln!("step: {:?} each", t.elapsed() / 100);
        return;
    }
    // Two passes (iterated deviation bound): deep without deviations (only fresh, valid
    // announcements and gossip ticks — relay bookkeeping needs depth), shallower with deviations.
    let (d0, d1, k1) = if thorough { (5, 4, 2) } else { (4, 3, 1) };
    let deep = explore::explore("C10", Sys::new, Bounds::new(d0, 0).wall_secs(if thorough { 900 } else { 60 }));
    let mut res = explore::explore("C10", Sys::new, Bounds::new(d1, k1).wall_secs(if thorough { 900 } else { 40 }));
    res.violations.merge(deep.violations.clone());
    let deep_cov = deep.coverage("pass 1: deviation budget 0");
    let mut cov = res.coverage(
        "BFS over histories of {Recv(relayer ∈ {P1,P2}, announcer ∈ {unknown X, P1, local}, kind ∈ {node, inventory, refs}, timestamp ∈ {newer, older, equal, now+1h, now+1h+1ms} \
         relative to the stored row, signature ∈ {valid, forged by another key, valid over other bytes}), Gossip tick} on a real relaying Service with three connected, subscribed peers; \
         deviations = every Recv other than (newer, valid) by a remote announcer; the store is dumped and every written message inspected after every step",
    );
    cov.insert("pass_without_deviations".into(), serde_json::Value::Object(deep_cov));
    ctx.finish(
        cov,
        &[
            "peers subscribe before any announcement arrives (subscription replay is outside this property's quantifier and is C11's subject)",
            "a service-requested disconnect of a misbehaving relayer is performed immediately",
            "ed25519 signatures of the mock signer are real signatures (MockSigner signs with a real key pair)",
        ],
        res.violations,
    );
}
