//! throw-away driver for c13_codec (deleted before hand-in)
#[path = "../c13_codec.rs"]
mod c13_codec;

use mcx::report::Ctx;
use serde_json::json;

#[global_allocator]
static A: mcx::alloc::Counting = mcx::alloc::Counting;

fn main() {
    let ctx = Ctx::from_env("C13", "model_checking");
    if ctx.extra_args.first().map(|s| s.as_str()) == Some("time") {
        let t = std::time::Instant::now();
        let m = c13_codec::message_corpus();
        eprintln!("message_corpus {:?} ({})", t.elapsed(), m.len());
        let t = std::time::Instant::now();
        let _ = c13_codec::device(1);
        eprintln!("device {:?}", t.elapsed());
        let t = std::time::Instant::now();
        let f = c13_codec::frame_corpus();
        eprintln!("frame_corpus {:?} ({})", t.elapsed(), f.len());
        for e in &f { eprintln!("{} {} {}", e.name, e.bytes.len(), e.big); }
        return;
    }
    if let Some(w) = ctx.replay_witness() {
        match c13_codec::replay(&w) {
            Some(vs) => ctx.finish_replay(vs),
            None => mcx::report::machinery("not a codec witness"),
        }
    }
    let only = ctx.extra_args.first().cloned();
    let mut st = mcx::sweep::Stats::default();
    if only.as_deref() != Some("pktline") {
        st.merge(c13_codec::frames(&ctx));
    }
    if only.as_deref() != Some("frames") {
        st.merge(c13_codec::pktline(&ctx));
    }
    let mut cov = st.coverage(&format!("{} || {}", c13_codec::FRAMES_RULE, c13_codec::PKTLINE_RULE), vec![json!({"dev": true})]);
    cov.insert("crashed_items".into(), json!(st.crashed_items.len()));
    ctx.finish(cov, &["dev run of the codec module only"], std::mem::take(&mut st.violations));
}
