//! C29 — Node-signed announcement timestamps strictly increase.
//!
//! Engine A over a real `Service` with one connected, subscribed observer peer (connected in the
//! initial state so that announcements are observed in creation order). Clock ticks move forward,
//! stall, or go backwards; interleaved actions make the node create inventory and refs
//! announcements. Every announcement authored by the local node that appears for the first time
//! (byte-distinct) in the outbox or in the gossip store is a *creation*; its timestamp must be
//! strictly greater than the timestamp of every earlier creation. Re-sends of cached announcements
//! are byte-identical and therefore not creations.

#[path = "../svc.rs"]
mod svc;

use std::collections::BTreeSet;
use std::time::Duration;

use crossbeam_channel as chan;
use mcx::explore::{self, Bounds, StepOut, System};
use mcx::report::{Ctx, Violation};
use radicle::identity::Visibility;
use radicle::node::policy::Scope;
use radicle::storage::{ReadStorage, RefUpdate};
use radicle::test::storage::MockStorage;
use radicle_node::prelude::*;
use radicle_node::service::gossip::Store as _;
use radicle_node::service::io::Io;
use radicle_node::service::message::*;
use radicle_node::service::{self, Command};
use radicle_node::worker::fetch;
use radicle_node::Link;
use serde::{Deserialize, Serialize};
use serde_json::json;
use svc::{Peer, Svc};

#[derive(Clone, Debug, PartialEq, Eq, PartialOrd, Ord, Serialize, Deserialize)]
enum Ev {
    /// Clock moves by this many milliseconds (negative = backwards), then the service wakes.
    Tick(i64),
    OwnRefs(usize),
    AddInventory,
    Unseed,
    Seed,
    /// A successful clone of the second repository from the observer (adds inventory, announces refs).
    FetchedClone,
}

struct Sys {
    svc: Svc,
    obs: Peer,
    rids: Vec<RepoId>, // rids[0] in inventory from the start, rids[1] in storage but not yet in inventory
    seen: BTreeSet<Vec<u8>>,
    max_ts: u64,
    max_what: String,
    clock_off: i64,
    ticks: Vec<i64>,
    creations: u64,
    init_vs: Vec<Violation>,
}

fn ann_id(a: &Announcement) -> Vec<u8> {
    let mut v = radicle_node::wire::serialize(&a.message);
    v.extend(a.signature.to_vec());
    v
}

impl Sys {
    fn new(ticks: Vec<i64>) -> Sys {
        let obs = Peer::new("obs", 41);
        let local = svc::local_signer();
        let rids = vec![svc::rid(0x51), svc::rid(0x52)];
        let mut st = MockStorage::empty();
        for r in &rids {
            st.repos.insert(*r, svc::mock_repo_with_sigrefs(*r, svc::doc(&[&obs], Visibility::Public), &[&local, &obs.signer]));
        }
        // Only the first repository is seeded at start, so only it is in the initial inventory.
        let s = svc::build(svc::Build { storage: st, seed: vec![(rids[0], Scope::All)], ..Default::default() });
        let mut sys = Sys { svc: s, obs: obs.clone(), rids, seen: BTreeSet::new(), max_ts: 0, max_what: "nothing".into(), clock_off: 0, ticks, creations: 0, init_vs: vec![] };
        let mut vs = vec![];
        let ios = svc::drain(&mut sys.svc);
        sys.observe(ios, &mut vs);
        let ios = svc::connect_inbound(&mut sys.svc, &obs);
        sys.observe(ios, &mut vs);
        sys.svc.received_message(obs.id, Message::Announcement(obs.node_ann(svc::T0_MS - 5)));
        sys.svc.received_message(obs.id, Message::Subscribe(Subscribe::all()));
        let ios = svc::drain(&mut sys.svc);
        sys.observe(ios, &mut vs);
        // Violations among the announcements signed during start-up and the first connection
        // (node, inventory, pre-loaded refs) are reported for the empty history by `main`.
        sys.init_vs = vs;
        sys
    }

    fn note(&mut self, a: &Announcement, place: &str, vs: &mut Vec<Violation>) {
        let local = *svc::local_signer().public_key();
        if a.node != local {
            return;
        }
        let id = ann_id(a);
        if !self.seen.insert(id) {
            return; // byte-identical re-send
        }
        let kind = match &a.message {
            AnnouncementMessage::Node(_) => "node",
            AnnouncementMessage::Inventory(_) => "inventory",
            AnnouncementMessage::Refs(_) => "refs",
        };
        let ts = *a.timestamp();
        self.creations += 1;
        if ts <= self.max_ts {
            vs.push(Violation::new(
                format!("C29/timestamp-not-increasing/{kind}-after-{}", self.max_what),
                format!("new {kind} announcement signed with t={ts} (seen in {place}) although a {} announcement with t={} was signed earlier", self.max_what, self.max_ts),
                json!({"ts": ts, "previous": self.max_ts}),
            ));
        }
        if ts > self.max_ts {
            self.max_ts = ts;
            self.max_what = kind.into();
        }
    }

    fn observe(&mut self, ios: Vec<Io>, vs: &mut Vec<Violation>) {
        for io in ios {
            match io {
                Io::Write(_, msgs) => {
                    for m in msgs {
                        if let Message::Announcement(a) = m {
                            self.note(&a, "outbox", vs);
                        }
                    }
                }
                Io::Connect(nid, _) => {
                    self.svc.disconnected(nid, Link::Outbound, &service::DisconnectReason::Dial(std::sync::Arc::new(std::io::Error::from(std::io::ErrorKind::ConnectionRefused))));
                    let more = svc::drain(&mut self.svc);
                    self.observe(more, vs);
                }
                _ => {}
            }
        }
        let rows: Vec<Announcement> = self
            .svc
            .database()
            .gossip()
            .filtered(&Filter::default(), Timestamp::MIN, Timestamp::MAX)
            .expect("store")
            .map(|r| r.expect("row"))
            .collect();
        for a in rows {
            self.note(&a, "gossip store", vs);
        }
    }
}

impl System for Sys {
    type Ev = Ev;

    fn enabled(&self) -> Vec<Ev> {
        let mut v: Vec<Ev> = self.ticks.iter().map(|d| Ev::Tick(*d)).collect();
        v.extend([Ev::OwnRefs(0), Ev::OwnRefs(1), Ev::AddInventory, Ev::Unseed, Ev::Seed, Ev::FetchedClone]);
        v
    }

    fn is_deviation(&self, ev: &Ev) -> bool {
        matches!(ev, Ev::Tick(d) if *d <= 0)
    }

    fn step(&mut self, ev: &Ev) -> StepOut {
        let mut vs = vec![];
        let before = self.creations;
        let label;
        match ev {
            Ev::Tick(d) => {
                let clock = self.svc.local_time();
                let target = if *d >= 0 { clock + LocalDuration::from_millis(*d as u128) } else { clock - LocalDuration::from_millis((-*d) as u128) };
                self.svc.tick(target, &service::Metrics::default());
                self.svc.wake();
                self.clock_off = self.svc.local_time().as_millis() as i64 - svc::T0_MS as i64;
                label = format!("tick({})", if *d > 0 { "forward" } else if *d == 0 { "stall" } else { "backward" });
            }
            Ev::OwnRefs(r) => {
                let (tx, _rx) = chan::unbounded();
                self.svc.command(Command::AnnounceRefs(self.rids[*r], tx));
                label = "own-refs".into();
            }
            Ev::AddInventory => {
                let (tx, _rx) = chan::unbounded();
                self.svc.command(Command::AddInventory(self.rids[1], tx));
                label = "add-inventory".into();
            }
            Ev::Unseed => {
                let (tx, _rx) = chan::unbounded();
                self.svc.command(Command::Unseed(self.rids[0], tx));
                label = "unseed".into();
            }
            Ev::Seed => {
                let (tx, _rx) = chan::unbounded();
                self.svc.command(Command::Seed(self.rids[0], Scope::All, tx));
                label = "seed".into();
            }
            Ev::FetchedClone => {
                let (tx, _rx) = chan::unbounded();
                self.svc.command(Command::Fetch(self.rids[1], self.obs.id, Duration::from_secs(3), tx));
                let ios = svc::drain(&mut self.svc);
                let started = ios.iter().any(|io| matches!(io, Io::Fetch { .. }));
                self.observe(ios, &mut vs);
                if started {
                    let doc = self.svc.storage().repository(self.rids[1]).expect("repo").doc.clone();
                    let mut r = fetch::FetchResult::new(doc);
                    r.clone = true;
                    r.namespaces.insert(self.obs.id);
                    r.updated.push(RefUpdate::Updated { name: radicle::git::refname!("refs/heads/master"), old: svc::oid(1), new: svc::oid(2) });
                    self.svc.fetched(self.rids[1], self.obs.id, Ok(r));
                }
                label = "fetched-clone".into();
            }
        }
        let ios = svc::drain(&mut self.svc);
        self.observe(ios, &mut vs);
        let created = self.creations - before;
        StepOut { violations: vs, outcome: format!("{label}:{}", if created > 0 { "announcement-created" } else { "nothing-created" }), dead: false }
    }

    fn canon(&self) -> Vec<u8> {
        use radicle::node::routing::Store as _;
        let local = *svc::local_signer().public_key();
        let inv: Vec<bool> = self.rids.iter().map(|r| self.svc.database().routing().entry(r, &local).ok().flatten().is_some()).collect();
        let seeded: Vec<bool> = self.rids.iter().map(|r| self.svc.policies().is_seeding(r).unwrap_or(false)).collect();
        // Everything relative to T0: the clock, and the greatest timestamp signed so far. The set of
        // already-seen announcements matters only through the greatest timestamp and through which
        // cached announcements would be re-sent, which the routing/seeding state determines.
        json!({
            "clock": self.clock_off, "max_ts": self.max_ts as i64 - svc::T0_MS as i64,
            "inv": inv, "seeded": seeded, "fetching": svc::fetching_key(&self.svc).len(),
        })
        .to_string()
        .into_bytes()
    }
}

fn main() {
    let ctx = Ctx::from_env("C29", "model_checking");
    svc::install_logger();
    let thorough = ctx.tier == mcx::Tier::Thorough;
    let ticks: Vec<i64> = if thorough { vec![-5000, -1, 0, 1, 1000] } else { vec![-5000, 0, 1, 1000] };
    if let Some(w) = ctx.replay_witness() {
        ctx.finish_replay(explore::replay::<Sys>("C29", || Sys::new(vec![-5000, -1, 0, 1, 1000]), &w));
    }
    let (depth, devs) = if thorough { (10, 4) } else { (7, 3) };
    let t = ticks.clone();
    let mut res = explore::explore("C29", move || Sys::new(t.clone()), Bounds::new(depth, devs).wall_secs(if thorough { 1500 } else { 50 }));
    for mut v in Sys::new(ticks.clone()).init_vs {
        v.fingerprint = format!("{}/during-start-up", v.fingerprint);
        v.witness = json!({"history": [], "detail": v.witness});
        res.violations.push(v);
    }
    let mut cov = res.coverage(
        "BFS over histories of {Tick(Δ) for Δ in the tick alphabet (negative = clock moves backwards, 0 = stalls), OwnRefs(repo), AddInventory, Unseed, Seed, FetchedClone} on a real Service \
         with one connected subscribed observer; deviations = non-positive ticks; a creation is the first byte-distinct appearance of an announcement authored by the local node in the outbox or the gossip store",
    );
    cov.insert("tick_alphabet_ms".into(), json!(ticks));
    ctx.finish(cov, &["announcements are observed through the outbox (one subscribed peer connected from the start) and the gossip store", "the run starts at initialize(); restarts are a new run"], res.violations);
}
