//! C12 — Repository data is served only to peers allowed to see it.
//!
//! Engine B (fault enumeration). The real responder path — `Worker::_process(FetchRequest::Responder)`,
//! reached through hook H2 `radicle_node::worker::verif::responder` — is run on an in-memory channel
//! pair for every combination of seeding policy × repository visibility × requester role × request
//! header encoding × repository present/absent, against a real git `Storage` and real policy
//! databases. A stub reactor swallows the worker's flush commands; the harness reads the
//! requester's end of the channel directly.
//!
//! Oracle: `allowed = seeded ∧ (public ∨ requester is delegate ∨ requester is allow-listed)`, where
//! the header names the repository. If not allowed (or the header names no repository) the result
//! is an error and **zero bytes** reached the requester. If allowed, nothing is demanded.

use std::os::fd::{AsRawFd, RawFd};
use std::path::{Path, PathBuf};
use std::sync::Mutex;
use std::time::Duration;

use reactor::poller::popol;
use reactor::poller::IoType;
use reactor::{Action, Error as ReactorError, Io as RIo, Reactor, Resource, ResourceId, ResourceType, Timestamp as RTimestamp, WriteAtomic};
use mcx::report::{Ctx, Violation};
use mcx::sweep::{self, ItemOut, Radix};
use radicle::identity::Visibility;
use radicle::node::device::Device;
use radicle::node::policy::{Policy, Scope, SeedingPolicy};
use radicle::profile::Home;
use radicle::test::fixtures;
use radicle::Storage;
use radicle_node::prelude::*;
use radicle_node::runtime::{Emitter, Handle};
use radicle_node::service::policy;
use radicle_node::wire::{Control, StreamId};
use radicle_node::worker::{self, ChannelEvent, Channels, ChannelsConfig, FetchResult, UploadError};
use radicle_node::Link;
use serde_json::json;

// ---- stub reactor ------------------------------------------------------------------------------
struct Res(std::fs::File);
impl AsRawFd for Res {
    fn as_raw_fd(&self) -> RawFd {
        self.0.as_raw_fd()
    }
}
impl std::io::Write for Res {
    fn write(&mut self, b: &[u8]) -> std::io::Result<usize> {
        Ok(b.len())
    }
    fn flush(&mut self) -> std::io::Result<()> {
        Ok(())
    }
}
impl WriteAtomic for Res {
    fn is_ready_to_write(&self) -> bool {
        true
    }
    fn empty_write_buf(&mut self) -> std::io::Result<bool> {
        Ok(true)
    }
    fn write_or_buf(&mut self, _b: &[u8]) -> std::io::Result<()> {
        Ok(())
    }
}
impl Resource for Res {
    type Event = ();
    fn interests(&self) -> IoType {
        IoType::read_write()
    }
    fn handle_io(&mut self, _io: RIo) -> Option<()> {
        None
    }
}
/// Swallows every command (worker flushes and results); has no resources.
struct Stub;
impl Iterator for Stub {
    type Item = Action<Res, Res>;
    fn next(&mut self) -> Option<Self::Item> {
        None
    }
}
impl reactor::Handler for Stub {
    type Listener = Res;
    type Transport = Res;
    type Command = Control;
    fn tick(&mut self, _t: RTimestamp) {}
    fn handle_timer(&mut self) {}
    fn handle_listener_event(&mut self, _id: ResourceId, _e: (), _t: RTimestamp) {}
    fn handle_transport_event(&mut self, _id: ResourceId, _e: (), _t: RTimestamp) {}
    fn handle_registered(&mut self, _fd: RawFd, _id: ResourceId, _ty: ResourceType) {}
    fn handle_command(&mut self, _cmd: Control) {}
    fn handle_error(&mut self, _err: ReactorError<Res, Res>) {}
    fn handover_listener(&mut self, _id: ResourceId, _l: Res) {}
    fn handover_transport(&mut self, _id: ResourceId, _t: Res) {}
}

// ---- fixture -----------------------------------------------------------------------------------
const VIS: [&str; 4] = ["public", "private[]", "private[req]", "private[other]"];
const POLICIES: [&str; 5] = ["default-block/no-entry", "default-block/allow(all)", "default-block/allow(followed)", "default-allow/block-entry", "default-allow/no-entry"];
const REQUESTERS: [&str; 3] = ["delegate", "allow-listed-key", "stranger"];
const HEADERS: [&str; 10] = [
    "/rad:<rid>",
    "/<rid-without-urn>",
    "/rad:<rid>.git",
    "rad:<rid> (no slash)",
    "/rad:<rid> + host + version=2",
    "/garbage",
    "/rad:<unknown-rid>",
    // Paths with several components: one names the public repository, another the requested one.
    "/<public-rid>/../<rid> + version=2",
    "/<rid>/../<public-rid> + version=2",
    "//<rid> + version=2",
];

struct Fixture {
    _tmp: tempfile::TempDir,
    storage: Storage,
    owner: NodeId,
    req: NodeId,
    stranger: NodeId,
    /// One repository per visibility.
    rids: Vec<RepoId>,
    /// Not in storage.
    absent: RepoId,
    policy_dbs: Vec<PathBuf>,
    handle: Mutex<Handle>,
}

fn seeded(policy: usize) -> bool {
    matches!(policy, 1 | 2 | 4)
}

fn build_fixture() -> Fixture {
    let tmp = tempfile::tempdir().expect("tmp");
    let owner_dev: Device<radicle::crypto::test::signer::MockSigner> = Device::mock_from_seed([61; 32]);
    let req = *Device::mock_from_seed([62; 32]).public_key();
    let other = *Device::mock_from_seed([63; 32]).public_key();
    let stranger = *Device::mock_from_seed([64; 32]).public_key();
    let storage = Storage::open(tmp.path().join("storage"), fixtures::user()).expect("storage");
    let mut rids = vec![];
    for (i, v) in [
        Visibility::Public,
        Visibility::Private { allow: Default::default() },
        Visibility::Private { allow: [Did::from(req)].into_iter().collect() },
        Visibility::Private { allow: [Did::from(other)].into_iter().collect() },
    ]
    .into_iter()
    .enumerate()
    {
        let (repo, _) = fixtures::repository(tmp.path().join(format!("work{i}")));
        let (rid, _, _) = radicle::rad::init(
            &repo,
            radicle::identity::project::ProjectName::try_from(format!("acme{i}")).unwrap(),
            "Acme",
            radicle::git::refname!("master"),
            v,
            &owner_dev,
            &storage,
        )
        .expect("rad init");
        rids.push(rid);
    }
    let absent = RepoId::from(radicle::git::Oid::try_from([0x6a; 20].as_slice()).unwrap());
    let mut policy_dbs = vec![];
    for p in 0..POLICIES.len() {
        let path = tmp.path().join(format!("policies{p}.db"));
        let mut st = policy::Store::<policy::store::Write>::open(&path).expect("policy db");
        for rid in rids.iter().chain([&absent]) {
            match p {
                1 => {
                    st.seed(rid, Scope::All).unwrap();
                }
                2 => {
                    st.seed(rid, Scope::Followed).unwrap();
                }
                3 => {
                    st.set_seed_policy(rid, Policy::Block).unwrap();
                }
                _ => {}
            }
        }
        policy_dbs.push(path);
    }
    let reactor = Reactor::new(Stub, popol::Poller::new()).expect("reactor");
    let controller = reactor.controller();
    std::mem::forget(reactor); // keep the reactor thread alive for the life of the process
    let home = Home::new(tmp.path().join("home")).expect("home");
    let handle = Handle::new(home, controller, Emitter::default());
    Fixture { storage, owner: *owner_dev.public_key(), req, stranger, rids, absent, policy_dbs, handle: Mutex::new(handle), _tmp: tmp }
}

fn policies(fx: &Fixture, p: usize) -> policy::Config<policy::store::Read> {
    let default = if p >= 3 { SeedingPolicy::Allow { scope: Scope::All } } else { SeedingPolicy::Block };
    policy::Config::new(default, policy::Store::reader(&fx.policy_dbs[p]).expect("policy reader"))
}

fn header(kind: usize, rid: &RepoId, public: &RepoId) -> Vec<u8> {
    let body = match kind {
        0 => format!("git-upload-pack /{rid}\0"),
        1 => format!("git-upload-pack /{}\0", rid.canonical()),
        2 => format!("git-upload-pack /{rid}.git\0"),
        3 => format!("git-upload-pack {rid}\0"),
        4 => format!("git-upload-pack /{rid}\0host=seed.example:8776\0\0version=2\0"),
        5 => "git-upload-pack /garbage\0".to_string(),
        // (canonical ids: these are also the directory names in storage)
        7 => format!("git-upload-pack /{}/../{}\0host=seed.example:8776\0\0version=2\0", public.canonical(), rid.canonical()),
        8 => format!("git-upload-pack /{}/../{}\0host=seed.example:8776\0\0version=2\0", rid.canonical(), public.canonical()),
        9 => format!("git-upload-pack //{}\0host=seed.example:8776\0\0version=2\0", rid.canonical()),
        _ => format!("git-upload-pack /{}\0", RepoId::from(radicle::git::Oid::try_from([0x6b; 20].as_slice()).unwrap())),
    };
    let mut v = format!("{:04x}", body.len() + 4).into_bytes();
    v.extend(body.into_bytes());
    v
}

struct Item {
    policy: usize,
    vis: usize, // 4 = repository absent from storage
    requester: usize,
    header: usize,
}

fn decode(space: &Radix, i: u64) -> Item {
    let d = space.decode(i);
    Item { policy: d[0] as usize, vis: d[1] as usize, requester: d[2] as usize, header: d[3] as usize }
}

fn describe(it: &Item) -> serde_json::Value {
    json!({
        "policy": POLICIES[it.policy],
        "visibility": if it.vis < 4 { VIS[it.vis] } else { "repository-absent" },
        "requester": REQUESTERS[it.requester],
        "header": HEADERS[it.header],
    })
}

fn eval(fx: &Fixture, it: &Item) -> ItemOut {
    let rid = if it.vis < 4 { fx.rids[it.vis] } else { fx.absent };
    let remote = [fx.owner, fx.req, fx.stranger][it.requester];
    let hdr = header(it.header, &rid, &fx.rids[0]);
    // Does the header name the repository at all (per the documented request format)?
    let names_repo = matches!(it.header, 0 | 1 | 2 | 4);
    let visible = match it.vis {
        0 => true,
        1 => it.requester == 0,
        2 => it.requester == 0 || it.requester == 1,
        3 => it.requester == 0,
        _ => false,
    };
    let allowed = names_repo && seeded(it.policy) && it.vis < 4 && visible;

    let (worker_end, peer_end) = Channels::<Vec<u8>>::pair(ChannelsConfig::new(Duration::from_millis(2000))).expect("channels");
    peer_end.send(ChannelEvent::Data(hdr)).expect("send header");
    peer_end.send(ChannelEvent::Eof).expect("send eof");
    let handle = fx.handle.lock().unwrap().clone();
    let result = worker::verif::responder(fx.owner, fx.storage.clone(), policies(fx, it.policy), handle, remote, StreamId::git(Link::Inbound), worker_end);
    let mut bytes = 0usize;
    for ev in peer_end.try_iter() {
        if let ChannelEvent::Data(d) = ev {
            bytes += d.len();
        }
    }
    let (rid_seen, res) = match result {
        FetchResult::Responder { rid, result } => (rid, result),
        FetchResult::Initiator { .. } => mcx::report::machinery("responder returned an initiator result"),
    };
    let label = match &res {
        Ok(()) => "served".to_string(),
        Err(UploadError::Unauthorized(..)) => "refused:unauthorized".to_string(),
        Err(UploadError::PacketLine(_)) => "refused:bad-header".to_string(),
        Err(UploadError::Storage(_)) | Err(UploadError::Repository(_)) | Err(UploadError::Identity(_)) => "refused:storage".to_string(),
        Err(UploadError::PolicyStore(_)) => "refused:policy-store".to_string(),
        Err(UploadError::Io(_)) => "io-error".to_string(),
    };
    let mut vs = vec![];
    if !allowed {
        let shape = format!(
            "{}/{}/{}",
            if !names_repo { "header-names-no-repository" } else if !seeded(it.policy) { "not-seeded" } else if it.vis == 4 { "absent" } else { "not-visible" },
            if it.vis < 4 { VIS[it.vis] } else { "absent" },
            REQUESTERS[it.requester]
        );
        if bytes > 0 {
            vs.push(Violation::new(format!("C12/data-sent-to-unauthorized/{shape}"), format!("{bytes} byte(s) were written to the stream although the request must be refused ({shape})"), describe(it)));
        }
        if res.is_ok() {
            vs.push(Violation::new(format!("C12/request-not-refused/{shape}"), format!("the responder reported success although the request must be refused ({shape})"), describe(it)));
        }
    }
    let _ = rid_seen;
    let class = mcx::fnv64(format!("{}/{}/{}/{}", it.policy, it.vis, it.requester, it.header).as_bytes()) | 1;
    ItemOut::new(class, format!("{}:{}:{}", if allowed { "allowed" } else { "must-refuse" }, label, if bytes > 0 { "bytes-sent" } else { "no-bytes" })).with(vs)
}

fn main() {
    let ctx = Ctx::from_env("C12", "fault_enumeration");
    let fx = build_fixture();
    let space = Radix::new(&[POLICIES.len() as u64, 5, REQUESTERS.len() as u64, HEADERS.len() as u64]);
    if let Some(w) = ctx.replay_witness() {
        let find = |arr: &[&str], key: &str| arr.iter().position(|s| Some(*s) == w[key].as_str());
        let it = Item {
            policy: find(&POLICIES, "policy").unwrap_or(0),
            vis: find(&VIS, "visibility").unwrap_or(4),
            requester: find(&REQUESTERS, "requester").unwrap_or(0),
            header: find(&HEADERS, "header").unwrap_or(0),
        };
        ctx.finish_replay(eval(&fx, &it).violations);
    }
    let _ = Path::new(".");
    let n = space.size();
    let mut st = sweep::threads(
        n,
        |i| eval(&fx, &decode(&space, i)),
        Some(|i: u64, c: &mcx::panics::Caught| Violation::new(format!("C12/panic@{}", c.site()), format!("responder panicked: {}", c.message), describe(&decode(&space, i)))),
    );
    let samples = sweep::sample_indexes(n).into_iter().map(|i| describe(&decode(&space, i))).collect();
    let cov = st.coverage(
        "full product seeding policy {default-block/no entry, allow(all), allow(followed), default-allow/block entry, default-allow/no entry} × visibility {public, private[], private[requester], private[other], repository absent} \
         × requester {delegate, allow-listed key, stranger} × request header {canonical rad: URN, id without URN prefix, trailing .git, no leading slash, with host and protocol extras, garbage path, unknown rid, /<public rid>/../<rid>, /<rid>/../<public rid>, //<rid>}; \
         every item is non-trivial (distinct configuration); both tiers enumerate the full product",
        samples,
    );
    ctx.finish(
        cov,
        &[
            "hook H2 constructs the real Worker and calls the real _process(Responder); the reactor behind runtime::Handle is a stub that drops flush commands (irrelevant to admission)",
            "git upload-pack itself is trusted once a request is admitted",
        ],
        std::mem::take(&mut st.violations),
    );
}
