//! C02, second pass — clones through the node's worker.
//!
//! `c02` (chk-core) drives `radicle_fetch::pull` directly. This pass covers the clause "a fetch in
//! which fewer delegates than the threshold have valid signed refs reports failure and leaves local
//! storage unchanged" for *clones as the node performs them*: the real initiator path
//! `Worker::_process(FetchRequest::Initiator)` (hook H2 `worker::verif::initiator`: the
//! clone-into-a-temporary-directory decision, `radicle_fetch::clone`, and what the worker does with
//! its result) talks over an in-memory channel pair to the real responder path
//! `Worker::_process(FetchRequest::Responder)` (hook H2 `worker::verif::responder`, which spawns
//! `git upload-pack` on the serving storage).
//!
//! Engine B (`sweep::threads`). Item = (identity document: k remote delegates, local node a
//! delegate or not, threshold) x (what the server holds for every remote delegate ∈ {honest,
//! sigrefs-missing, bad-signature, absent}). The fetcher's storage is empty.
//!
//! Oracle: valid = remote delegates offered `honest`, plus the local node if it is a delegate (a
//! clone fetches the local node's own namespace too, and the fixture serves it honestly); need =
//! threshold, minus one if the local node is a delegate. If |valid| < need the worker reports an error and the fetcher's storage
//! directory lists exactly what it listed before (no repository appeared). Nothing is demanded
//! when enough delegates are valid.
//!
//! Run by `c02` as a sub-process (`C02W_SUBPASS=1`: prints one `C02W-RESULT <json>` line instead
//! of finishing the check) or directly for replays.

#[path = "../../../chk-core/src/fetchfix.rs"]
#[allow(dead_code)]
mod fetchfix;
#[path = "../stub.rs"]
mod stub;

use std::collections::{BTreeMap, BTreeSet};
use std::path::Path;
use std::sync::Mutex;
use std::time::Duration;

use crossbeam_channel as chan;
use fetchfix::{FixCfg, Fixture, Tamper, D1, D2, D3, KEY_NAMES};
use mcx::report::{machinery, Ctx, Violation};
use mcx::sweep::{self, ItemOut, NoPanic};
use radicle::node::policy::{Scope, SeedingPolicy};
use radicle::storage::git::Storage;
use radicle_node::runtime::Handle;
use radicle_node::service::policy;
use radicle_node::wire::StreamId;
use radicle_node::worker::{self, ChannelEvent, Channels, ChannelsConfig, FetchResult};
use radicle_node::Link;
use serde_json::{json, Value};

const STATES: [Tamper; 4] = [Tamper::Honest, Tamper::SigrefsMissing, Tamper::BadSignature, Tamper::Absent];

fn configs(thorough: bool) -> Vec<FixCfg> {
    let mut v = vec![];
    let max_k = if thorough { 3 } else { 2 };
    for k in 1..=max_k {
        for local in [false, true] {
            let n = k + usize::from(local);
            for threshold in 1..=n {
                v.push(FixCfg { delegates: [D1, D2, D3][..k].to_vec(), threshold, others: vec![], local_is_delegate: local });
            }
        }
    }
    v
}

struct Item {
    fixture: usize,
    states: Vec<Tamper>,
}

struct Space {
    /// (fixture, first index, number of remote delegates)
    blocks: Vec<(usize, u64, usize)>,
    total: u64,
}

impl Space {
    fn new(cfgs: &[FixCfg]) -> Space {
        let mut blocks = vec![];
        let mut total = 0u64;
        for (f, c) in cfgs.iter().enumerate() {
            blocks.push((f, total, c.delegates.len()));
            total += (STATES.len() as u64).pow(c.delegates.len() as u32);
        }
        Space { blocks, total }
    }
    fn decode(&self, i: u64) -> Item {
        let (f, first, k) = *self.blocks.iter().rev().find(|(_, first, _)| *first <= i).expect("index in range");
        let mut code = i - first;
        let mut states = vec![];
        for _ in 0..k {
            states.push(STATES[(code % STATES.len() as u64) as usize]);
            code /= STATES.len() as u64;
        }
        Item { fixture: f, states }
    }
}

fn item_json(fx: &Fixture, it: &Item, seed: u64) -> Value {
    let states: BTreeMap<&str, &str> = fx.cfg.delegates.iter().zip(&it.states).map(|(slot, t)| (KEY_NAMES[*slot], t.name())).collect();
    json!({"pass": "worker-clone", "cfg": fx.cfg.describe(), "seed": seed, "states": states})
}

fn listing(dir: &Path) -> BTreeSet<String> {
    match std::fs::read_dir(dir) {
        Ok(rd) => rd.filter_map(|e| e.ok()).map(|e| e.file_name().to_string_lossy().to_string()).collect(),
        Err(_) => BTreeSet::new(),
    }
}

/// One clone of `fx.rid` by the local node from the serving storage `server_root`, initiator and
/// responder both through the node's worker. Returns the initiator's result as a label.
fn worker_clone(fx: &Fixture, handle: &Handle, server_root: &Path, fetcher_root: &Path, scratch: &Path) -> Result<String, String> {
    let user = |alias: &str, key| radicle::git::UserInfo { alias: radicle::node::Alias::new(alias), key };
    let serving = fx.keys.pk(fx.cfg.delegates[0]);
    let local = fx.local();
    let server = Storage::open(server_root, user("server", serving)).unwrap_or_else(|e| machinery(&format!("server storage: {e}")));
    let fetcher = Storage::open(fetcher_root, user("local", local)).unwrap_or_else(|e| machinery(&format!("fetcher storage: {e}")));
    // The fetcher seeds the repository (scope all); the server serves everything.
    let fetcher_db = scratch.join("fetcher-policies.db");
    if !fetcher_db.exists() {
        let mut st = policy::Store::<policy::store::Write>::open(&fetcher_db).unwrap_or_else(|e| machinery(&format!("policy db: {e}")));
        st.seed(&fx.rid, Scope::All).unwrap_or_else(|e| machinery(&format!("policy seed: {e}")));
    }
    let server_db = scratch.join("server-policies.db");
    if !server_db.exists() {
        policy::Store::<policy::store::Write>::open(&server_db).unwrap_or_else(|e| machinery(&format!("policy db: {e}")));
    }
    let fetcher_policies = policy::Config::new(SeedingPolicy::Block, policy::Store::reader(&fetcher_db).unwrap_or_else(|e| machinery(&format!("policy reader: {e}"))));
    let server_policies = policy::Config::new(SeedingPolicy::Allow { scope: Scope::All }, policy::Store::reader(&server_db).unwrap_or_else(|e| machinery(&format!("policy reader: {e}"))));

    // The two ends of one git stream, wired back to back.
    let cfg = ChannelsConfig::new(Duration::from_secs(20));
    let (tx_ab, rx_ab) = chan::bounded::<ChannelEvent>(64);
    let (tx_ba, rx_ba) = chan::bounded::<ChannelEvent>(64);
    let end_of_stream = tx_ab.clone();
    let init_end = Channels::new(tx_ab, rx_ba, cfg);
    let resp_end = Channels::new(tx_ba, rx_ab, cfg);
    let rid = fx.rid;
    let resp_handle = handle.clone();
    let responder = std::thread::spawn(move || worker::verif::responder(serving, server, server_policies, resp_handle, local, StreamId::git(Link::Inbound), resp_end));
    let result = worker::verif::initiator(local, fetcher, fetcher_policies, handle.clone(), rid, serving, None, StreamId::git(Link::Outbound), init_end);
    // What the wire does when the initiator's worker is done: the stream is closed.
    let _ = end_of_stream.send_timeout(ChannelEvent::Eof, Duration::from_secs(1));
    drop(end_of_stream);
    let _ = responder.join();
    match result {
        FetchResult::Initiator { result: Ok(r), .. } => Ok(format!("ok(clone={},updated={})", r.clone, r.updated.len())),
        FetchResult::Initiator { result: Err(e), .. } => Err(e.to_string()),
        FetchResult::Responder { .. } => machinery("initiator returned a responder result"),
    }
}

fn err_class(e: &str) -> &'static str {
    if e.contains("timed out") {
        "timeout"
    } else if e.contains("threshold") || e.contains("delegates") {
        "validation"
    } else {
        "error"
    }
}

fn run_item(fx: &Fixture, handle: &Handle, it: &Item, seed: u64, n: u64) -> (Vec<Violation>, String) {
    let tampers: BTreeMap<usize, Tamper> = fx.cfg.delegates.iter().copied().zip(it.states.iter().copied()).collect();
    let scratch = fx.root.path().join(format!("wc-{n}"));
    std::fs::create_dir_all(&scratch).unwrap_or_else(|e| machinery(&format!("scratch: {e}")));
    let server_root = scratch.join("server");
    fx.serve(&server_root, &tampers);
    let fetcher_root = scratch.join("fetcher");
    std::fs::create_dir_all(&fetcher_root).unwrap_or_else(|e| machinery(&format!("fetcher root: {e}")));
    // Opening the storage may create housekeeping files: list after the first open.
    {
        let user = radicle::git::UserInfo { alias: radicle::node::Alias::new("local"), key: fx.local() };
        let _ = Storage::open(&fetcher_root, user);
    }
    let before = listing(&fetcher_root);
    let result = worker_clone(fx, handle, &server_root, &fetcher_root, &scratch);
    let after = listing(&fetcher_root);
    if std::env::var_os("C02W_DEBUG").is_some() {
        eprintln!("c02w: {:?} -> {result:?}; storage {before:?} -> {after:?}", item_json(fx, it, seed).to_string());
    }

    // A clone also fetches the local node's own namespace (the fixture serves it honestly), so a
    // local delegate is itself a delegate with valid signed refs.
    let valid = it.states.iter().filter(|t| **t == Tamper::Honest).count() + usize::from(fx.cfg.local_is_delegate);
    let need = fx.cfg.threshold - usize::from(fx.cfg.local_is_delegate);
    let must_fail = valid < need;
    let mut vs = vec![];
    let shape = format!("valid={}<need={}", valid.min(need), need);
    if must_fail {
        if let Ok(label) = &result {
            vs.push(Violation::new(
                "C02/worker-clone/success-below-threshold",
                format!("clone through the worker succeeded ({label}) although only {valid} remote delegate(s) have valid signed refs and {need} are needed"),
                item_json(fx, it, seed),
            ));
        }
        if after != before {
            // Not an oracle, only the consequence for the report: what a later clone from an
            // honest peer does with the storage in this state.
            let honest_root = scratch.join("server-honest");
            fx.serve(&honest_root, &BTreeMap::new());
            let later = worker_clone(fx, handle, &honest_root, &fetcher_root, &scratch);
            let appeared: Vec<&String> = after.difference(&before).collect();
            vs.push(
                Violation::new(
                    "C02/worker-clone/failed-clone-changed-storage",
                    format!(
                        "clone through the worker failed for lack of valid delegates ({shape}; result: {}) but the storage directory now also lists {appeared:?}; a later clone of the same repository from an honest peer then ends with: {}",
                        match &result {
                            Ok(l) => l.clone(),
                            Err(e) => e.clone(),
                        },
                        match later {
                            Ok(l) => l,
                            Err(e) => format!("error: {e}"),
                        }
                    ),
                    item_json(fx, it, seed),
                )
                .cost((fx.cfg.delegates.len() * 10 + fx.cfg.threshold) as u64),
            );
        }
    }
    let outcome = format!(
        "{}:{}:{}",
        if must_fail { "below-threshold" } else { "enough-valid" },
        match &result {
            Ok(_) => "ok".to_string(),
            Err(e) => format!("err({})", err_class(e)),
        },
        if after == before { "storage-unchanged" } else { "storage-changed" }
    );
    let _ = std::fs::remove_dir_all(&scratch);
    (vs, outcome)
}

struct StderrLog;
impl log::Log for StderrLog {
    fn enabled(&self, _m: &log::Metadata) -> bool {
        true
    }
    fn log(&self, r: &log::Record) {
        eprintln!("[{} {}] {}", r.level(), r.target(), r.args());
    }
    fn flush(&self) {}
}

fn main() {
    fetchfix::fix_process_env();
    if std::env::var_os("C02W_DEBUG").is_some() {
        let _ = log::set_boxed_logger(Box::new(StderrLog));
        log::set_max_level(log::LevelFilter::Debug);
    }
    let ctx = Ctx::from_env("C02", "fault_enumeration");
    let thorough = ctx.tier == mcx::Tier::Thorough;
    let home = tempfile::Builder::new().prefix("c02w-home-").tempdir().unwrap_or_else(|e| machinery(&format!("tempdir: {e}")));
    let handle = Mutex::new(stub::handle(home.path()));

    if let Some(w) = ctx.replay_witness() {
        let cfg = FixCfg::from_json(&w["cfg"]);
        let seed = w["seed"].as_u64().unwrap_or(ctx.seed);
        let states = cfg.delegates.iter().map(|s| Tamper::parse(w["states"][KEY_NAMES[*s]].as_str().unwrap_or("honest"))).collect();
        let fx = Fixture::build(&cfg, seed);
        let h = handle.lock().unwrap().clone();
        let (vs, outcome) = run_item(&fx, &h, &Item { fixture: 0, states }, seed, 0);
        eprintln!("replay outcome: {outcome}");
        let _ = std::fs::remove_dir_all(fx.root.path());
        let _ = std::fs::remove_dir_all(home.path());
        ctx.finish_replay(vs);
    }

    let cfgs = configs(thorough);
    let fixtures: Vec<Fixture> = std::thread::scope(|s| {
        let hs: Vec<_> = cfgs.iter().map(|c| s.spawn(move || Fixture::build(c, ctx.seed))).collect();
        hs.into_iter().map(|h| h.join().unwrap_or_else(|_| machinery("fixture build panicked"))).collect()
    });
    let sp = Space::new(&cfgs);
    let n = sp.total;
    let mut st = sweep::threads(
        n,
        |i| {
            let item = sp.decode(i);
            let fx = &fixtures[item.fixture];
            let h = handle.lock().unwrap().clone();
            let (vs, outcome) = run_item(fx, &h, &item, ctx.seed, i);
            let class = mcx::fnv64(item_json(fx, &item, 0).to_string().as_bytes()) | 1;
            ItemOut::new(class, outcome).with(vs)
        },
        None::<NoPanic>,
    );
    let samples: Vec<Value> = sweep::sample_indexes(n)
        .into_iter()
        .map(|i| {
            let it = sp.decode(i);
            item_json(&fixtures[it.fixture], &it, ctx.seed)
        })
        .collect();
    let mut cov = st.coverage(
        "one clone per item through the node's worker on both ends (initiator and responder wired back to back over one in-memory git stream) into an empty fetcher storage; \
         item = (identity document: k remote delegates, local delegate or not, threshold) x (per remote delegate: honest | sigrefs-missing | bad-signature | absent); every item is distinct",
        samples,
    );
    cov.insert("documents".into(), json!(cfgs.iter().map(|c| c.describe()).collect::<Vec<_>>()));
    cov.insert("state_alphabet".into(), json!(STATES.iter().map(|s| s.name()).collect::<Vec<_>>()));
    cov.insert("clones".into(), json!(n));
    for fx in &fixtures {
        let _ = std::fs::remove_dir_all(fx.root.path());
    }
    let _ = std::fs::remove_dir_all(home.path());
    let violations = std::mem::take(&mut st.violations);
    if std::env::var_os("C02W_SUBPASS").is_some() {
        println!("C02W-RESULT {}", json!({"coverage": cov, "violations": violations}));
        std::process::exit(0);
    }
    ctx.finish(
        cov,
        &["hook H2 constructs the real Worker on both ends; the reactor behind runtime::Handle is a stub (flush commands and results are dropped, the two worker channel ends are connected directly)", "trusted: git upload-pack, libgit2, the file system"],
        violations,
    );
}
