//! C11 — Private repositories never leak through gossip.
//!
//! Engine A over a real relaying `Service` with a `MockStorage` whose repository visibility the
//! harness edits between steps. Three peers: `dg` (delegate of the repository), `al` (on the allow
//! list when the visibility says so) and `ev` (neither). After every step every message the
//! service wrote is inspected.
//!
//! Invariant: no refs announcement about the repository is written to a peer while the repository
//! is private and the peer is neither a delegate nor allow-listed — whether the announcement is
//! the node's own, relayed, or replayed from the gossip store in answer to a subscription; no
//! inventory announcement authored by the local node lists the repository while it is private.

#[path = "../svc.rs"]
mod svc;

use std::collections::{BTreeMap, BTreeSet};
use std::time::Duration;

use crossbeam_channel as chan;
use mcx::explore::{self, Bounds, StepOut, System};
use mcx::report::{Ctx, Violation};
use radicle::identity::{DocAt, Visibility};
use radicle::node::policy::Scope;
use radicle::node::Database;
use radicle::storage::refs::{Refs, RefsAt, SignedRefsAt};
use radicle::storage::{ReadStorage, RefUpdate};
use radicle::test::storage::MockStorage;
use radicle_node::prelude::*;
use radicle_node::service::gossip::Store as _;
use radicle_node::service::io::Io;
use radicle_node::service::message::*;
use radicle_node::service::{self, Command};
use radicle_node::worker::fetch;
use radicle_node::Link;
use serde::{Deserialize, Serialize};
use serde_json::json;
use svc::{Peer, Svc};

#[derive(Clone, Copy, Debug, PartialEq, Eq, PartialOrd, Ord, Serialize, Deserialize)]
enum Vis {
    Public,
    Private,
    PrivateAllowAl,
}

#[derive(Clone, Debug, PartialEq, Eq, PartialOrd, Ord, Serialize, Deserialize)]
enum Ev {
    Connect(usize),
    Subscribe(usize),
    /// The operator announces the node's own refs (`rad sync --announce`).
    OwnRefs,
    /// A refs announcement signed by the delegate, delivered by connected peer `via`.
    RelayedRefs { via: usize },
    /// A completed fetch from a connected peer that updated refs (the node then announces them).
    FetchedFrom(usize),
    Gossip,
    Restart,
    SetVis(Vis),
}

const DG: usize = 0;
const AL: usize = 1;
const EV: usize = 2;

struct Sys {
    svc: Svc,
    db: Database,
    peers: Vec<Peer>,
    rid: RepoId,
    vis: Vis,
    vis_at_init: Vis,
    /// Has the repository been public at any point of this run (including the start)?
    ever_public: bool,
    /// The node's own inventory announcements listing the repository (by timestamp), with the
    /// circumstances (`era_now`) at the time they were first seen in the outbox or the gossip store.
    inv_era: BTreeMap<u64, &'static str>,
    connected: BTreeSet<usize>,
    subscribed: BTreeSet<usize>,
    steps: u64,
    gossips: u64,
    restarts: u64,
}

fn visibility(v: Vis, al: &Peer) -> Visibility {
    match v {
        Vis::Public => Visibility::Public,
        Vis::Private => Visibility::Private { allow: Default::default() },
        Vis::PrivateAllowAl => Visibility::Private { allow: [al.did()].into_iter().collect() },
    }
}

fn storage(rid: RepoId, peers: &[Peer], v: Vis) -> MockStorage {
    let local = svc::local_signer();
    let d = svc::doc(&[&peers[DG]], visibility(v, &peers[AL]));
    let mut repo = svc::mock_repo(rid, d);
    // Signed refs for the local node and the delegate, so that refs announcements can be built.
    for (i, dev) in [&local, &peers[DG].signer].into_iter().enumerate() {
        let refs = Refs::from(std::collections::BTreeMap::from([(radicle::git::refname!("refs/heads/master"), svc::oid(0x70 + i as u8))]));
        let signed = refs.signed(dev).expect("sign").verified(&repo).expect("verify");
        repo.remotes.insert(*dev.public_key(), SignedRefsAt { sigrefs: signed, at: svc::oid(0x60 + i as u8) });
    }
    let mut st = MockStorage::empty();
    st.repos.insert(rid, repo);
    st
}

fn start(db: Database, st: MockStorage, rid: RepoId, now: LocalTime) -> Svc {
    use radicle::node::policy::SeedingPolicy;
    use radicle::node::{Alias, UserAgent};
    use radicle_node::runtime::Emitter;
    use radicle_node::service::{policy, Service};
    use std::str::FromStr;
    let signer = svc::local_signer();
    let mut config = service::Config::test(Alias::from_str("local").unwrap());
    config.relay = radicle::node::config::Relay::Always;
    config.limits.rate.inbound = radicle::node::config::RateLimit { fill_rate: 1000.0, capacity: 1_000_000 };
    config.limits.rate.outbound = config.limits.rate.inbound.clone();
    let mut pstore = policy::Store::<policy::store::Write>::memory().unwrap();
    pstore.seed(&rid, Scope::All).unwrap();
    let policies = policy::Config::new(SeedingPolicy::default(), pstore);
    let ann = service::gossip::node(&config, Timestamp::from(now) + 1);
    let _ = UserAgent::default();
    let mut s = Service::new(config, db.into(), st, policies, signer, fastrand::Rng::with_seed(7), ann, Emitter::default());
    s.initialize(now).unwrap();
    s
}

impl Sys {
    fn new(initial: Vis) -> Sys {
        use radicle::node::{Alias, UserAgent};
        use std::str::FromStr;
        let peers = vec![Peer::new("dg", 31), Peer::new("al", 32), Peer::new("ev", 33)];
        let rid = svc::rid(0x41);
        let vis = initial;
        let local = svc::local_signer();
        let cfg = service::Config::test(Alias::from_str("local").unwrap());
        let db = Database::memory()
            .unwrap()
            .init(local.public_key(), cfg.features(), &cfg.alias, &UserAgent::default(), svc::t0().into(), cfg.external_addresses.iter())
            .unwrap();
        let s = start(db.clone(), storage(rid, &peers, vis), rid, svc::t0());
        let mut sys = Sys { svc: s, db, peers, rid, vis, vis_at_init: vis, ever_public: vis == Vis::Public, inv_era: BTreeMap::new(), connected: BTreeSet::new(), subscribed: BTreeSet::new(), steps: 0, gossips: 0, restarts: 0 };
        let ios = svc::drain(&mut sys.svc);
        let mut l = vec![];
        let mut v = vec![];
        sys.inspect(ios, "init", &mut l, &mut v);
        sys.scan_store();
        sys
    }

    /// The node's own stored inventory announcement, if it lists the repository.
    fn stored_own_inventory(&self) -> Option<u64> {
        let local = *svc::local_signer().public_key();
        self.svc.database().gossip().filtered(&Filter::default(), Timestamp::MIN, Timestamp::MAX).expect("store").map(|r| r.expect("row")).find_map(|a| match &a.message {
            AnnouncementMessage::Inventory(inv) if a.node == local && inv.inventory.iter().any(|r| *r == self.rid) => Some(*inv.timestamp),
            _ => None,
        })
    }

    /// The circumstances under which an inventory announcement that lists the repository is
    /// signed right now.
    fn era_now(&self) -> &'static str {
        if self.vis == Vis::Public {
            "signed-while-public"
        } else if self.vis_at_init == Vis::Public {
            "made-private-while-running"
        } else if self.ever_public {
            "private-since-before-the-last-restart"
        } else {
            "never-public"
        }
    }

    /// End of every step (visibility changes are steps of their own): an inventory announcement
    /// listing the repository that is seen for the first time was signed during this step.
    fn scan_store(&mut self) {
        if let Some(ts) = self.stored_own_inventory() {
            let era = self.era_now();
            self.inv_era.entry(ts).or_insert(era);
        }
    }

    fn allowed(&self, p: usize) -> bool {
        match self.vis {
            Vis::Public => true,
            Vis::Private => p == DG,
            Vis::PrivateAllowAl => p == DG || p == AL,
        }
    }

    fn peer_index(&self, nid: &NodeId) -> Option<usize> {
        self.peers.iter().position(|p| &p.id == nid)
    }

    fn inspect(&mut self, ios: Vec<Io>, phase: &str, labels: &mut Vec<String>, vs: &mut Vec<Violation>) {
        let local = *svc::local_signer().public_key();
        for io in ios {
            match io {
                Io::Write(to, msgs) => {
                    let Some(pi) = self.peer_index(&to) else { continue };
                    for m in msgs {
                        let Message::Announcement(a) = m else { continue };
                        match &a.message {
                            AnnouncementMessage::Refs(r) if r.rid == self.rid => {
                                let origin = if a.node == local { "own" } else { "relayed" };
                                labels.push(format!("refs-{origin}-to-{}", self.peers[pi].name));
                                if !self.allowed(pi) {
                                    vs.push(Violation::new(
                                        format!("C11/private-refs-leak/{origin}/{phase}"),
                                        format!(
                                            "{origin} refs announcement about the private repository (visibility {:?}) was written to {} during {phase}",
                                            self.vis, self.peers[pi].name
                                        ),
                                        json!({}),
                                    ));
                                }
                            }
                            AnnouncementMessage::Inventory(inv) if a.node == local => {
                                if inv.inventory.iter().any(|r| *r == self.rid) {
                                    labels.push("inventory-lists-repo".into());
                                    // Under which circumstances was this announcement signed (= first
                                    // seen)? While the repository was public (and it is sent again
                                    // now), after it became private while the node was running, or by
                                    // a node that (re)started with the repository already private?
                                    let now = self.era_now();
                                    let era = *self.inv_era.entry(*inv.timestamp).or_insert(now);
                                    if self.vis != Vis::Public {
                                        let origin = if era == "signed-while-public" { "resent-announcement-signed-while-public" } else { era };
                                        let _ = phase;
                                        vs.push(Violation::new(
                                            format!("C11/private-in-inventory/{origin}"),
                                            format!("the node's inventory announcement (t={}) lists the repository while it is {:?}; written to {} during {phase}", *inv.timestamp, self.vis, self.peers[pi].name),
                                            json!({}),
                                        ));
                                    }
                                } else {
                                    labels.push("inventory-without-repo".into());
                                }
                            }
                            _ => {}
                        }
                    }
                }
                Io::Disconnect(nid, _) => {
                    if let Some(pi) = self.peer_index(&nid) {
                        if self.connected.remove(&pi) {
                            self.subscribed.remove(&pi);
                            self.svc.disconnected(nid, Link::Inbound, &service::DisconnectReason::connection());
                            let more = svc::drain(&mut self.svc);
                            labels.push("peer-disconnected".into());
                            self.inspect(more, phase, labels, vs);
                        }
                    }
                }
                Io::Connect(nid, _) => {
                    self.svc.disconnected(nid, Link::Outbound, &service::DisconnectReason::Dial(std::sync::Arc::new(std::io::Error::from(std::io::ErrorKind::ConnectionRefused))));
                    let more = svc::drain(&mut self.svc);
                    self.inspect(more, phase, labels, vs);
                }
                Io::Fetch { .. } | Io::Wakeup(_) => {}
            }
        }
    }

    fn set_vis(&mut self, v: Vis) {
        self.vis = v;
        self.ever_public |= v == Vis::Public;
        let al = self.peers[AL].clone();
        let repo = self.svc.storage_mut().repo_mut(&self.rid);
        repo.doc.doc = repo.doc.doc.clone().with_edits(|raw| raw.visibility = visibility(v, &al)).expect("edit doc");
    }
}

impl System for Sys {
    type Ev = Ev;

    fn enabled(&self) -> Vec<Ev> {
        let mut v = vec![];
        for p in 0..3 {
            if !self.connected.contains(&p) {
                v.push(Ev::Connect(p));
            } else {
                if !self.subscribed.contains(&p) {
                    v.push(Ev::Subscribe(p));
                }
                v.push(Ev::RelayedRefs { via: p });
                v.push(Ev::FetchedFrom(p));
            }
        }
        v.push(Ev::OwnRefs);
        v.push(Ev::Gossip);
        v.push(Ev::Restart);
        for x in [Vis::Public, Vis::Private, Vis::PrivateAllowAl] {
            if x != self.vis {
                v.push(Ev::SetVis(x));
            }
        }
        v
    }

    fn is_deviation(&self, ev: &Ev) -> bool {
        matches!(ev, Ev::Restart | Ev::SetVis(_))
    }

    fn step(&mut self, ev: &Ev) -> StepOut {
        self.steps += 1;
        let ts = svc::T0_MS + 10 + self.steps;
        let mut labels = vec![];
        let mut vs = vec![];
        let phase: &str = match ev {
            Ev::Connect(_) => "connect",
            Ev::Subscribe(_) => "subscribe-replay",
            Ev::OwnRefs => "own-announce",
            Ev::RelayedRefs { .. } => "relay",
            Ev::FetchedFrom(_) => "post-fetch-announce",
            Ev::Gossip => "gossip-tick",
            Ev::Restart => "restart",
            Ev::SetVis(_) => "set-visibility",
        };
        match ev {
            Ev::Connect(p) => {
                let peer = self.peers[*p].clone();
                self.connected.insert(*p);
                let ios = svc::connect_inbound(&mut self.svc, &peer);
                self.inspect(ios, phase, &mut labels, &mut vs);
                self.svc.received_message(peer.id, Message::Announcement(peer.node_ann(ts)));
                let ios = svc::drain(&mut self.svc);
                self.inspect(ios, phase, &mut labels, &mut vs);
            }
            Ev::Subscribe(p) => {
                let peer = self.peers[*p].clone();
                self.subscribed.insert(*p);
                self.svc.received_message(peer.id, Message::Subscribe(Subscribe::all()));
                let ios = svc::drain(&mut self.svc);
                self.inspect(ios, phase, &mut labels, &mut vs);
            }
            Ev::OwnRefs => {
                let (tx, _rx) = chan::unbounded();
                self.svc.command(Command::AnnounceRefs(self.rid, tx));
                let ios = svc::drain(&mut self.svc);
                self.inspect(ios, phase, &mut labels, &mut vs);
            }
            Ev::RelayedRefs { via } => {
                let dg = self.peers[DG].clone();
                let via = self.peers[*via].clone();
                let ann = dg.refs_ann(self.rid, &[RefsAt { remote: dg.id, at: svc::oid(0x61) }], ts);
                self.svc.received_message(via.id, Message::Announcement(ann));
                let ios = svc::drain(&mut self.svc);
                self.inspect(ios, phase, &mut labels, &mut vs);
            }
            Ev::FetchedFrom(p) => {
                let peer = self.peers[*p].clone();
                let (tx, _rx) = chan::unbounded();
                self.svc.command(Command::Fetch(self.rid, peer.id, Duration::from_secs(3), tx));
                let ios = svc::drain(&mut self.svc);
                let started = ios.iter().any(|io| matches!(io, Io::Fetch { .. }));
                self.inspect(ios, phase, &mut labels, &mut vs);
                if started {
                    let doc: DocAt = self.svc.storage().repository(self.rid).expect("repo").doc.clone();
                    let mut r = fetch::FetchResult::new(doc);
                    r.namespaces.insert(self.peers[DG].id);
                    r.updated.push(RefUpdate::Updated { name: radicle::git::refname!("refs/heads/master"), old: svc::oid(1), new: svc::oid(2) });
                    self.svc.fetched(self.rid, peer.id, Ok(r));
                    let ios = svc::drain(&mut self.svc);
                    self.inspect(ios, phase, &mut labels, &mut vs);
                    labels.push("fetched".into());
                } else {
                    labels.push("fetch-not-started".into());
                }
            }
            Ev::Gossip => {
                self.gossips += 1;
                let ios = svc::elapse(&mut self.svc, service::GOSSIP_INTERVAL.as_millis() as u64);
                self.inspect(ios, phase, &mut labels, &mut vs);
            }
            Ev::Restart => {
                self.restarts += 1;
                let now = self.svc.local_time() + LocalDuration::from_secs(1);
                let st = self.svc.storage().clone();
                self.connected.clear();
                self.subscribed.clear();
                self.svc = start(self.db.clone(), st, self.rid, now);
                self.vis_at_init = self.vis;
                let ios = svc::drain(&mut self.svc);
                self.inspect(ios, phase, &mut labels, &mut vs);
            }
            Ev::SetVis(v) => self.set_vis(*v),
        }
        if !matches!(ev, Ev::SetVis(_)) {
            self.scan_store();
        }
        labels.sort();
        labels.dedup();
        labels.insert(0, phase.to_string());
        StepOut { violations: vs, outcome: labels.join("+"), dead: false }
    }

    fn canon(&self) -> Vec<u8> {
        let rows: Vec<String> = self
            .svc
            .database()
            .gossip()
            .filtered(&Filter::default(), Timestamp::MIN, Timestamp::MAX)
            .expect("store")
            .map(|r| r.expect("row"))
            .map(|a| {
                let kind = match &a.message {
                    AnnouncementMessage::Node(_) => "node",
                    AnnouncementMessage::Inventory(_) => "inv",
                    AnnouncementMessage::Refs(_) => "refs",
                };
                // Timestamps only order announcements of one row; their presence is what matters here.
                format!("{}:{kind}", self.peer_index(&a.node).map(|i| self.peers[i].name).unwrap_or("local"))
            })
            .collect::<BTreeSet<_>>()
            .into_iter()
            .collect();
        let _ = BTreeMap::<u8, u8>::new();
        json!({
            "rows": rows, "vis": format!("{:?}", self.vis), "vis_at_init": format!("{:?}", self.vis_at_init), "ever_public": self.ever_public,
            // Which era the stored own inventory (the one a subscription replays) is from.
            "stored_inv_era": self.stored_own_inventory().map(|ts| self.inv_era.get(&ts).copied().unwrap_or("unseen")),
            "connected": self.connected, "subscribed": self.subscribed,
            "fetching": svc::fetching_key(&self.svc).len(),
        })
        .to_string()
        .into_bytes()
    }
}

fn main() {
    let ctx = Ctx::from_env("C11", "model_checking");
    svc::install_logger();
    let thorough = ctx.tier == mcx::Tier::Thorough;
    if let Some(w) = ctx.replay_witness() {
        let init = if w["detail"]["initial"].as_str() == Some("Private") { Vis::Private } else { Vis::Public };
        ctx.finish_replay(explore::replay::<Sys>("C11", move || Sys::new(init), &w));
    }
    let (depth, devs) = if thorough { (10, 4) } else { (7, 3) };
    // Two start states: the repository is public / private when the node starts.
    let mut res = explore::explore("C11", || Sys::new(Vis::Public), Bounds::new(depth, devs).wall_secs(if thorough { 900 } else { 25 }));
    for (_, (ws, _)) in res.violations.by_fp.iter_mut() {
        for w in ws {
            w.witness["detail"] = json!({"initial": "Public"});
        }
    }
    let mut res2 = explore::explore("C11", || Sys::new(Vis::Private), Bounds::new(depth, devs).wall_secs(if thorough { 900 } else { 25 }));
    for (_, (ws, _)) in res2.violations.by_fp.iter_mut() {
        for w in ws {
            w.witness["detail"] = json!({"initial": "Private"});
        }
    }
    let second = res2.coverage("start state: repository private");
    res.violations.merge(std::mem::take(&mut res2.violations));
    let mut cov = res.coverage(
        "BFS over histories of {Connect(p), Subscribe(p), OwnRefs, RelayedRefs(via p), FetchedFrom(p), Gossip, Restart, SetVisibility(public|private|private+allow)} for peers \
         {delegate, allow-listed, stranger} on a real relaying Service over MockStorage; deviations = Restart, SetVisibility; every written message is checked against the visibility in force when it is written",
    );
    cov.insert("second_start_state_private".into(), serde_json::Value::Object(second));
    ctx.finish(
        cov,
        &[
            "MockStorage stands in for git storage (visibility and signed refs come from it); the initialize() pre-load of refs announcements needs real storage and is not reached here",
            "canonical key abstracts announcement timestamps (each event uses a fresh, strictly increasing timestamp)",
        ],
        res.violations,
    );
}
