//! C13 — No input from a remote peer can crash the node.
//!
//! Three sub-checks, one evidence file:
//!  * 13a (here, Engine A): a real `Service` with peers in every session state (connected inbound,
//!    attempted outbound, disconnected persistent, never connected) receives every `Message`
//!    variant with boundary-valued fields, in every order up to the depth bound, interleaved with
//!    gossip and idle ticks. Oracle: no panic; a received message leads at most to the *sending*
//!    peer being disconnected.
//!  * 13b frame level and 13c git request header (Engine B, `../c13_codec.rs`).

#[path = "../svc.rs"]
mod svc;
#[path = "../c13_codec.rs"]
mod c13_codec;

#[global_allocator]
static ALLOC: mcx::alloc::Counting = mcx::alloc::Counting;

use std::collections::BTreeSet;

use mcx::explore::{self, Bounds, StepOut, System};
use mcx::report::{Ctx, Violation};
use radicle::identity::Visibility;
use radicle::node::device::Device;
use radicle::node::policy::Scope;
use radicle::storage::refs::RefsAt;
use radicle::test::storage::MockStorage;
use radicle_node::prelude::*;
use radicle_node::service::gossip::Store as _;
use radicle_node::service::io::Io;
use radicle_node::service::message::*;
use radicle_node::service::{self, Command, ServiceState};
use radicle_node::Link;
use serde::{Deserialize, Serialize};
use serde_json::json;
use svc::{Peer, Svc};

const HOUR_MS: u64 = 3_600_000;

/// Boundary timestamps, resolved against the service clock when the event is applied.
#[derive(Clone, Copy, Debug, PartialEq, Eq, PartialOrd, Ord, Serialize, Deserialize)]
enum T {
    Zero,
    One,
    Now,
    NowPlusHour,
    NowPlusHourAndOne,
    Max,
}

#[derive(Clone, Copy, Debug, PartialEq, Eq, PartialOrd, Ord, Serialize, Deserialize)]
enum AnnKind {
    Node,
    NodeNoSeedFeature,
    InvEmpty,
    InvSeeded,
    InvUnknownRepo,
    RefsEmpty,
    RefsOne,
    RefsNamingLocal,
    RefsUnseededRepo,
}

#[derive(Clone, Debug, PartialEq, Eq, PartialOrd, Ord, Serialize, Deserialize)]
enum Msg {
    /// (since, until)
    Subscribe(T, T),
    SubscribeEmptyFilter,
    Ping(u16),
    Pong(u16),
    Info,
    /// announcer: 0 = the sender itself, 1 = unknown node, 2 = the local node
    Ann { announcer: u8, kind: AnnKind, ts: T, forged: bool },
}

#[derive(Clone, Debug, PartialEq, Eq, PartialOrd, Ord, Serialize, Deserialize)]
enum Ev {
    /// sender: 0 connected inbound, 1 attempted outbound, 2 disconnected persistent, 3 never connected
    Recv(usize, Msg),
    Gossip,
    Idle,
}

struct Sys {
    svc: Svc,
    peers: Vec<Peer>,
    x: Peer,
    forger: Peer,
    local: Device<radicle::crypto::test::signer::MockSigner>,
    rid: RepoId,
    /// link of the session the harness established for each peer (None: no transport)
    links: Vec<Option<Link>>,
    ticks: u64,
    msgs: Vec<Msg>,
}

fn msg_alphabet(thorough: bool) -> Vec<Msg> {
    let ts_all = [T::Zero, T::One, T::Now, T::NowPlusHour, T::NowPlusHourAndOne, T::Max];
    let mut v = vec![];
    for (s, u) in [(T::Zero, T::Max), (T::Now, T::Now), (T::Max, T::Zero), (T::NowPlusHour, T::Now), (T::Max, T::Max), (T::Zero, T::Zero)] {
        v.push(Msg::Subscribe(s, u));
    }
    v.push(Msg::SubscribeEmptyFilter);
    for n in [0u16, Ping::MAX_PONG_ZEROES, Ping::MAX_PONG_ZEROES.saturating_add(1), u16::MAX] {
        v.push(Msg::Ping(n));
    }
    for n in [0u16, 1, Ping::MAX_PONG_ZEROES] {
        v.push(Msg::Pong(n));
    }
    v.push(Msg::Info);
    let kinds = [
        AnnKind::Node,
        AnnKind::NodeNoSeedFeature,
        AnnKind::InvEmpty,
        AnnKind::InvSeeded,
        AnnKind::InvUnknownRepo,
        AnnKind::RefsEmpty,
        AnnKind::RefsOne,
        AnnKind::RefsNamingLocal,
        AnnKind::RefsUnseededRepo,
    ];
    for announcer in 0..5u8 {
        for kind in kinds {
            for ts in ts_all {
                for forged in [false, true] {
                    // announcements of the mid-dial / disconnected peers: plain variants only
                    if announcer >= 3 && (forged || !matches!(ts, T::Now | T::One)) {
                        continue;
                    }
                    if !thorough {
                        // quick: forged only with the plain timestamp; the local announcer only with Now
                        if forged && ts != T::Now {
                            continue;
                        }
                        if announcer == 2 && ts != T::Now {
                            continue;
                        }
                    }
                    v.push(Msg::Ann { announcer, kind, ts, forged });
                }
            }
        }
    }
    v
}

impl Sys {
    fn new(thorough: bool) -> Sys {
        let peers = vec![Peer::new("inb", 51), Peer::new("att", 52), Peer::new("per", 53), Peer::new("ghost", 54)];
        let x = Peer::new("xx", 55);
        let forger = Peer::new("mallory", 56);
        let rid = svc::rid(0x55);
        let local = svc::local_signer();
        let mut st = MockStorage::empty();
        st.repos.insert(rid, svc::mock_repo_with_sigrefs(rid, svc::doc(&[&x], Visibility::Public), &[&local]));
        let mut s = svc::build(svc::Build {
            storage: st,
            seed: vec![(rid, Scope::All)],
            persistent: vec![(peers[2].id, peers[2].addr.clone())],
            ..Default::default()
        });
        // initialize() dialled the persistent peer.
        let ios = svc::drain(&mut s);
        assert!(ios.iter().any(|io| matches!(io, Io::Connect(n, _) if *n == peers[2].id)), "persistent peer is dialled at start");
        // per: attempted -> connected (outbound) -> transport lost: stays as a disconnected session.
        s.attempted(peers[2].id, peers[2].addr.clone());
        s.connected(peers[2].id, peers[2].addr.clone(), Link::Outbound);
        s.received_message(peers[2].id, Message::Announcement(peers[2].node_ann(svc::T0_MS - 20)));
        s.disconnected(peers[2].id, Link::Outbound, &service::DisconnectReason::connection());
        // inb: connected inbound, introduced, subscribed.
        svc::connect_inbound(&mut s, &peers[0]);
        s.received_message(peers[0].id, Message::Announcement(peers[0].node_ann(svc::T0_MS - 19)));
        s.received_message(peers[0].id, Message::Subscribe(Subscribe::all()));
        // The mid-dial peer is a known node (its node announcement was relayed to us).
        s.received_message(peers[0].id, Message::Announcement(peers[1].node_ann(svc::T0_MS - 18)));
        // att: the operator asked to connect; the dial was attempted but no handshake yet.
        s.command(Command::Connect(peers[1].id, peers[1].addr.clone(), radicle::node::ConnectOptions::default()));
        s.attempted(peers[1].id, peers[1].addr.clone());
        svc::drain(&mut s);
        Sys {
            svc: s,
            links: vec![Some(Link::Inbound), Some(Link::Outbound), Some(Link::Outbound), None],
            peers,
            x,
            forger,
            local,
            rid,
            ticks: 0,
            msgs: msg_alphabet(thorough),
        }
    }

    fn ts(&self, t: T) -> Timestamp {
        let now = self.svc.local_time().as_millis() as u64;
        let v = match t {
            T::Zero => 0,
            T::One => 1,
            T::Now => now,
            T::NowPlusHour => now + HOUR_MS,
            T::NowPlusHourAndOne => now + HOUR_MS + 1,
            T::Max => *Timestamp::MAX,
        };
        Timestamp::try_from(v).expect("timestamp in range")
    }

    fn build(&self, sender: usize, m: &Msg) -> Message {
        use radicle::crypto::signature::Signer as _;
        match m {
            Msg::Subscribe(s, u) => Message::Subscribe(Subscribe { filter: Filter::default(), since: self.ts(*s), until: self.ts(*u) }),
            Msg::SubscribeEmptyFilter => Message::Subscribe(Subscribe { filter: Filter::empty(), since: Timestamp::MIN, until: Timestamp::MAX }),
            Msg::Ping(n) => Message::Ping(Ping { ponglen: *n, zeroes: ZeroBytes::new(0) }),
            Msg::Pong(n) => Message::Pong { zeroes: ZeroBytes::new(*n) },
            Msg::Info => Message::Info(Info::RefsAlreadySynced { rid: self.rid, at: svc::oid(9) }),
            Msg::Ann { announcer, kind, ts, forged } => {
                let (nid, signer) = match announcer {
                    0 => (self.peers[sender].id, &self.peers[sender].signer),
                    1 => (self.x.id, &self.x.signer),
                    2 => (*self.local.public_key(), &self.local),
                    // relayed announcements of peers whose session is mid-dial / disconnected
                    3 => (self.peers[1].id, &self.peers[1].signer),
                    _ => (self.peers[2].id, &self.peers[2].signer),
                };
                let t = self.ts(*ts);
                let message = match kind {
                    AnnKind::Node | AnnKind::NodeNoSeedFeature => AnnouncementMessage::Node(NodeAnnouncement {
                        version: 1,
                        features: if *kind == AnnKind::Node { radicle::node::Features::SEED } else { radicle::node::Features::NONE },
                        timestamp: t,
                        alias: radicle::node::Alias::new("n"),
                        addresses: vec![Address::from(std::net::SocketAddr::from(([77, 77, 77, 7], 8776)))].try_into().unwrap(),
                        nonce: 0,
                        agent: radicle::node::UserAgent::default(),
                    }),
                    AnnKind::InvEmpty => AnnouncementMessage::Inventory(InventoryAnnouncement { inventory: vec![].try_into().unwrap(), timestamp: t }),
                    AnnKind::InvSeeded => AnnouncementMessage::Inventory(InventoryAnnouncement { inventory: vec![self.rid].try_into().unwrap(), timestamp: t }),
                    AnnKind::InvUnknownRepo => AnnouncementMessage::Inventory(InventoryAnnouncement { inventory: vec![svc::rid(0x56)].try_into().unwrap(), timestamp: t }),
                    AnnKind::RefsEmpty => AnnouncementMessage::Refs(RefsAnnouncement { rid: self.rid, refs: vec![].try_into().unwrap(), timestamp: t }),
                    AnnKind::RefsOne => AnnouncementMessage::Refs(RefsAnnouncement { rid: self.rid, refs: vec![RefsAt { remote: nid, at: svc::oid(7) }].try_into().unwrap(), timestamp: t }),
                    AnnKind::RefsNamingLocal => AnnouncementMessage::Refs(RefsAnnouncement {
                        rid: self.rid,
                        refs: vec![RefsAt { remote: *self.local.public_key(), at: svc::oid(8) }].try_into().unwrap(),
                        timestamp: t,
                    }),
                    AnnKind::RefsUnseededRepo => {
                        AnnouncementMessage::Refs(RefsAnnouncement { rid: svc::rid(0x57), refs: vec![RefsAt { remote: nid, at: svc::oid(7) }].try_into().unwrap(), timestamp: t })
                    }
                };
                let bytes = radicle_node::wire::serialize(&message);
                let signature = if *forged { self.forger.signer.sign(&bytes) } else { signer.sign(&bytes) };
                Message::Announcement(Announcement { node: nid, signature, message })
            }
        }
    }

    /// Wire-layer reaction to outputs; returns violations for disconnects of peers other than `sender`.
    fn absorb(&mut self, ios: Vec<Io>, sender: Option<usize>, labels: &mut Vec<String>, vs: &mut Vec<Violation>) {
        for io in ios {
            match io {
                Io::Disconnect(nid, reason) => {
                    let pi = self.peers.iter().position(|p| p.id == nid);
                    if let Some(s) = sender {
                        if pi != Some(s) {
                            vs.push(Violation::new(
                                "C13/other-peer-disconnected",
                                format!("a message from {} made the node disconnect {} ({reason})", self.peers[s].name, pi.map(|i| self.peers[i].name).unwrap_or("?")),
                                json!({}),
                            ));
                        }
                    }
                    labels.push("disconnects-sender".into());
                    if let Some(i) = pi {
                        if let Some(link) = self.links[i].take() {
                            self.svc.disconnected(nid, link, &service::DisconnectReason::connection());
                            let more = svc::drain(&mut self.svc);
                            self.absorb(more, sender, labels, vs);
                        }
                    }
                }
                Io::Connect(nid, _) => {
                    // Dials (maintain_connections / persistent reconnects) are refused at once.
                    self.svc.disconnected(nid, Link::Outbound, &service::DisconnectReason::Dial(std::sync::Arc::new(std::io::Error::from(std::io::ErrorKind::ConnectionRefused))));
                    let more = svc::drain(&mut self.svc);
                    self.absorb(more, sender, labels, vs);
                }
                Io::Fetch { .. } => labels.push("fetch-started".into()),
                Io::Write(..) | Io::Wakeup(_) => {}
            }
        }
    }
}

impl System for Sys {
    type Ev = Ev;

    fn enabled(&self) -> Vec<Ev> {
        let mut v = vec![Ev::Gossip, Ev::Idle];
        for p in 0..self.peers.len() {
            for m in &self.msgs {
                v.push(Ev::Recv(p, m.clone()));
            }
        }
        v
    }

    fn is_deviation(&self, _ev: &Ev) -> bool {
        false
    }

    fn step(&mut self, ev: &Ev) -> StepOut {
        let mut labels = vec![];
        let mut vs = vec![];
        match ev {
            Ev::Gossip => {
                self.ticks += 1;
                let ios = svc::elapse(&mut self.svc, service::GOSSIP_INTERVAL.as_millis() as u64);
                self.absorb(ios, None, &mut labels, &mut vs);
                labels.push("gossip".into());
            }
            Ev::Idle => {
                self.ticks += 5;
                let ios = svc::elapse(&mut self.svc, service::IDLE_INTERVAL.as_millis() as u64);
                self.absorb(ios, None, &mut labels, &mut vs);
                labels.push("idle".into());
            }
            Ev::Recv(p, m) => {
                let msg = self.build(*p, m);
                let from = self.peers[*p].id;
                let d0 = svc::drops();
                self.svc.received_message(from, msg);
                let dropped = svc::drops() != d0;
                let ios = svc::drain(&mut self.svc);
                self.absorb(ios, Some(*p), &mut labels, &mut vs);
                labels.push(
                    match m {
                        Msg::Subscribe(..) | Msg::SubscribeEmptyFilter => "subscribe",
                        Msg::Ping(_) => "ping",
                        Msg::Pong(_) => "pong",
                        Msg::Info => "info",
                        Msg::Ann { .. } => "announcement",
                    }
                    .into(),
                );
                labels.push(format!("from-{}", self.peers[*p].name));
                if dropped {
                    labels.push("dropped-before-handler".into());
                }
            }
        }
        labels.sort();
        labels.dedup();
        StepOut { violations: vs, outcome: labels.join("+"), dead: false }
    }

    fn canon(&self) -> Vec<u8> {
        let now = self.svc.local_time();
        let mut sess: Vec<String> = self
            .svc
            .sessions()
            .iter()
            .map(|(nid, s)| {
                let name = self.peers.iter().find(|p| &p.id == nid).map(|p| p.name).unwrap_or("?");
                let (state, ping) = match &s.state {
                    radicle::node::State::Initial => ("initial", String::new()),
                    radicle::node::State::Attempted => ("attempted", String::new()),
                    radicle::node::State::Connected { ping, fetching, .. } => ("connected", format!("{:?}/{}", std::mem::discriminant(ping), fetching.len())),
                    radicle::node::State::Disconnected { retry_at, .. } => ("disconnected", format!("retry{}", retry_at.as_millis() as i128 - now.as_millis() as i128)),
                };
                format!("{name}|{:?}|{state}|{ping}|sub={:?}|idle={}", s.link, s.subscribe.as_ref().map(|x| (*x.since, *x.until, x.filter.size())), now.as_millis() as i128 - s.last_active.as_millis() as i128)
            })
            .collect();
        sess.sort();
        let mut rows: Vec<String> = match self.svc.database().gossip().filtered(&Filter::default(), Timestamp::MIN, Timestamp::MAX) {
            Ok(it) => it.filter_map(|r| r.ok()).map(|a| format!("{}:{:?}", a.node, a.message)).collect(),
            Err(_) => vec!["<error>".into()],
        };
        rows.sort();
        let links: BTreeSet<(usize, String)> = self.links.iter().enumerate().map(|(i, l)| (i, format!("{l:?}"))).collect();
        json!({"sess": sess, "rows": rows, "links": links, "ticks": self.ticks, "fetching": svc::fetching_key(&self.svc)}).to_string().into_bytes()
    }
}

fn main() {
    let ctx = Ctx::from_env("C13", "model_checking");
    svc::install_logger();
    let thorough = ctx.tier == mcx::Tier::Thorough;
    if let Some(w) = ctx.replay_witness() {
        if w.get("history").is_some() {
            ctx.finish_replay(explore::replay::<Sys>("C13", || Sys::new(true), &w));
        }
        match c13_codec::replay(&w) {
            Some(vs) => ctx.finish_replay(vs),
            None => mcx::report::machinery("replay witness is neither a 13a history nor a codec item"),
        }
    }
    // 13b / 13c first: they run in worker processes (re-executions of this binary).
    let mut frames = c13_codec::frames(&ctx);
    let mut pkt = c13_codec::pktline(&ctx);
    let depth = if thorough { 3 } else { 2 };
    let res = explore::explore("C13", move || Sys::new(thorough), Bounds::new(depth, 0).wall_secs(if thorough { 1500 } else { 45 }));
    let mut cov = res.coverage(
        "13a: BFS over histories of {Recv(sender ∈ {connected inbound, attempted outbound, disconnected persistent, never connected}, message ∈ boundary alphabet), Gossip, Idle} on a real Service; \
         message alphabet = Subscribe with since/until boundary pairs incl. since>until, Ping/Pong at the size limits, Info, announcements {node, node without seed feature, inventory empty/seeded/unknown, refs empty/one/naming-local/unseeded} \
         × announcer {sender, unknown node, local node} × timestamp {0,1,now,now+1h,now+1h+1ms,MAX} × signature {valid, forged}. 13b/13c: see frames_* and pktline_* keys",
    );
    cov.insert("message_alphabet_size".into(), json!(msg_alphabet(thorough).len()));
    for (prefix, st) in [("frames", &frames), ("pktline", &pkt)] {
        cov.insert(format!("{prefix}_evaluations"), json!(st.evaluations));
        cov.insert(format!("{prefix}_space_size"), json!(st.n));
        cov.insert(format!("{prefix}_exhaustive"), json!(st.exhaustive()));
        cov.insert(format!("{prefix}_distinct_classes"), json!(st.classes.len()));
        cov.insert(format!("{prefix}_outcome_histogram"), json!(st.outcomes));
    }
    let mut violations = res.violations;
    violations.merge(std::mem::take(&mut frames.violations));
    violations.merge(std::mem::take(&mut pkt.violations));
    ctx.finish(
        cov,
        &[
            "13a drives Service::received_message directly (the wire layer's decoding is 13b's subject)",
            "a service-requested disconnect is performed immediately; dials are refused",
            "arithmetic overflow checks and debug assertions are on, as in the repository's own test build",
        ],
        violations,
    );
}
