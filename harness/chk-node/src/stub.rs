//! A reactor that swallows every command: enough to construct a `runtime::Handle` for worker hooks.
#![allow(dead_code)]

use std::os::fd::{AsRawFd, RawFd};

use reactor::poller::popol;
use reactor::poller::IoType;
use reactor::{Action, Error as ReactorError, Io as RIo, Reactor, Resource, ResourceId, ResourceType, Timestamp as RTimestamp, WriteAtomic};
use radicle_node::wire::Control;

// ---- stub reactor ------------------------------------------------------------------------------
struct Res(std::fs::File);
impl AsRawFd for Res {
    fn as_raw_fd(&self) -> RawFd {
        self.0.as_raw_fd()
    }
}
impl std::io::Write for Res {
    fn write(&mut self, b: &[u8]) -> std::io::Result<usize> {
        Ok(b.len())
    }
    fn flush(&mut self) -> std::io::Result<()> {
        Ok(())
    }
}
impl WriteAtomic for Res {
    fn is_ready_to_write(&self) -> bool {
        true
    }
    fn empty_write_buf(&mut self) -> std::io::Result<bool> {
        Ok(true)
    }
    fn write_or_buf(&mut self, _b: &[u8]) -> std::io::Result<()> {
        Ok(())
    }
}
impl Resource for Res {
    type Event = ();
    fn interests(&self) -> IoType {
        IoType::read_write()
    }
    fn handle_io(&mut self, _io: RIo) -> Option<()> {
        None
    }
}
/// Swallows every command (worker flushes and results); has no resources.
struct Stub;
impl Iterator for Stub {
    type Item = Action<Res, Res>;
    fn next(&mut self) -> Option<Self::Item> {
        None
    }
}
impl reactor::Handler for Stub {
    type Listener = Res;
    type Transport = Res;
    type Command = Control;
    fn tick(&mut self, _t: RTimestamp) {}
    fn handle_timer(&mut self) {}
    fn handle_listener_event(&mut self, _id: ResourceId, _e: (), _t: RTimestamp) {}
    fn handle_transport_event(&mut self, _id: ResourceId, _e: (), _t: RTimestamp) {}
    fn handle_registered(&mut self, _fd: RawFd, _id: ResourceId, _ty: ResourceType) {}
    fn handle_command(&mut self, _cmd: Control) {}
    fn handle_error(&mut self, _err: ReactorError<Res, Res>) {}
    fn handover_listener(&mut self, _id: ResourceId, _l: Res) {}
    fn handover_transport(&mut self, _id: ResourceId, _t: Res) {}
}

/// A `runtime::Handle` whose reactor drops flush commands and worker results. The reactor thread
/// lives for the rest of the process.
pub fn handle(home: &std::path::Path) -> radicle_node::runtime::Handle {
    let reactor = Reactor::new(Stub, popol::Poller::new()).expect("reactor");
    let controller = reactor.controller();
    std::mem::forget(reactor);
    let home = radicle::profile::Home::new(home).expect("home");
    radicle_node::runtime::Handle::new(home, controller, radicle_node::runtime::Emitter::default())
}
