//! shared helpers for the checks of this crate
