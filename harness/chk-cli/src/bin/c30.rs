//! C30 — Unified diffs round-trip through their text encoding.
//!
//! "For any diff git computes between two trees of text files that end with a newline, encoding
//! it as unified-diff text and decoding that text yields the same files, change kinds and hunks
//! (headers and lines)."
//!
//! Engine B (threads). An item is an ordered pair of small git trees (≤ 2 newline-terminated text
//! files each) plus the diff options the CLI uses (`patience`, `minimal`, `context_lines(n)`) and
//! one of the CLI's three ways of post-processing the tree diff (`rad id`: none, `rad patch
//! review --by-hunk`: `find_similar(exact, all, copies(false))`, `rad diff`: `find_similar(exact,
//! all)`). The trees live in a purely in-memory object database (one per worker thread); git
//! (libgit2) computes the diff and radicle-surf converts it to a `Diff` exactly as the CLI does.
//!
//! Oracle, on the real `Encode` / `Decode` implementations of
//! `crates/radicle-cli/src/git/unified_diff.rs`:
//!
//! * diff level: `Diff::parse(diff.to_unified_string())` succeeds and has the same number of
//!   files; per file the same change kind, the same path(s), the same number of hunks, and per
//!   hunk the same header and the same lines;
//! * content level (radicle's own hunk decoder): for every file,
//!   `DiffContent::parse(content.to_unified_string())` succeeds and has the same hunks (headers
//!   and lines).
//!
//! Nothing else is compared (blob ids are abbreviated by the encoder, stats / eof markers / the
//! derived `old`/`new` ranges of a hunk are not part of the statement). An `Err` or a panic of
//! encode or decode is a violation. The reference is the original value itself; no part of the
//! code under test is used to compute an expectation.

use mcx::panics;
use mcx::report::{Ctx, Violation};
use mcx::sweep::{self, ItemOut, Radix, Stats};
use radicle::git::raw as git2;
use radicle_cli::git::unified_diff::{Decode, Encode};
use radicle_surf::diff::{Diff, DiffContent, FileDiff, Hunk, Modification};
use serde_json::{json, Value};
use std::cell::RefCell;
use std::collections::BTreeMap;
use std::sync::atomic::{AtomicU64, Ordering};

// ------------------------------------------------------------------------------------------
// Alphabets
// ------------------------------------------------------------------------------------------

/// Line alphabet (every line is written with a terminating `\n`).
const LINES: [&str; 14] = [
    "a",                            // 0
    "b",                            // 1
    "",                             // 2  empty line
    "-x",                           // 3  looks like a deletion
    "+y",                           // 4  looks like an addition
    "@@ -1 +1 @@",                  // 5  looks like a hunk header
    "--- a/f",                      // 6  looks like an old-file header
    "+++ b/f",                      // 7  looks like a new-file header
    "diff --git a/f b/f",           // 8  looks like a file header
    "\\ No newline at end of file", // 9  looks like the eof marker
    "a ",                           // 10 trailing blank
    "-- a/f",                       // 11 becomes `--- a/f` when deleted
    "++ b/f",                       // 12 becomes `+++ b/f` when added
    "a\r",                          // 13 line of a CRLF file (the carriage return is content)
];
const FULL: &[u8] = &[0, 1, 2, 3, 4, 5, 6, 7, 8, 9, 10, 11, 12, 13];
const A9: &[u8] = &[0, 1, 2, 3, 5, 8, 9, 10, 11, 13];
const A6: &[u8] = &[0, 1, 2, 5, 10, 11, 13];
const A4: &[u8] = &[0, 1, 10, 11];
const A2: &[u8] = &[0, 3];

const BLOB: i32 = 0o100644;
const EXEC: i32 = 0o100755;

#[derive(Clone, Copy, Debug, PartialEq, Eq)]
enum Find {
    /// `rad id`: the tree diff is converted as is.
    None,
    /// `rad patch review --by-hunk`: exact_match_only, all, copies(false).
    Review,
    /// `rad diff`: exact_match_only, all.
    Diff,
}

impl Find {
    fn name(&self) -> &'static str {
        match self {
            Find::None => "none",
            Find::Review => "review",
            Find::Diff => "diff",
        }
    }
    fn parse(s: &str) -> Find {
        match s {
            "none" => Find::None,
            "review" => Find::Review,
            "diff" => Find::Diff,
            other => mcx::report::machinery(&format!("bad find mode {other:?} in witness")),
        }
    }
}

/// All sequences of at most `max` lines over `alpha`, shortest first.
fn contents(alpha: &[u8], max: usize) -> Vec<Vec<u8>> {
    let mut out: Vec<Vec<u8>> = vec![vec![]];
    let mut last: Vec<Vec<u8>> = vec![vec![]];
    for _ in 0..max {
        let mut next = vec![];
        for c in &last {
            for a in alpha {
                let mut n = c.clone();
                n.push(*a);
                next.push(n);
            }
        }
        out.extend(next.iter().cloned());
        last = next;
    }
    out
}

/// (name index, content index, mode index)
type TreeSpec = Vec<(u8, u32, u8)>;

/// One sub-space: every ordered pair of `trees` × `ctxs` × `finds`.
struct Family {
    id: &'static str,
    tag: usize,
    names: Vec<&'static str>,
    contents: Vec<Vec<u8>>,
    modes: Vec<i32>,
    trees: Vec<TreeSpec>,
    ctxs: Vec<u32>,
    finds: Vec<Find>,
    describe: String,
}

impl Family {
    /// Every tree with at most `max_files` files: each name absent or (content, mode).
    fn new(
        id: &'static str,
        tag: usize,
        names: &[&'static str],
        alpha: &[u8],
        max_lines: usize,
        modes: &[i32],
        max_files: usize,
        ctxs: &[u32],
        finds: &[Find],
    ) -> Family {
        let contents = contents(alpha, max_lines);
        let per_name = contents.len() * modes.len();
        let mut trees: Vec<TreeSpec> = vec![vec![]];
        // one file
        for n in 0..names.len() {
            for k in 0..per_name {
                trees.push(vec![(n as u8, (k / modes.len()) as u32, (k % modes.len()) as u8)]);
            }
        }
        if max_files >= 2 {
            for n1 in 0..names.len() {
                for n2 in n1 + 1..names.len() {
                    for k1 in 0..per_name {
                        for k2 in 0..per_name {
                            trees.push(vec![
                                (n1 as u8, (k1 / modes.len()) as u32, (k1 % modes.len()) as u8),
                                (n2 as u8, (k2 / modes.len()) as u32, (k2 % modes.len()) as u8),
                            ]);
                        }
                    }
                }
            }
        }
        assert!(max_files <= 2);
        let describe = format!(
            "{id}: names {names:?}, contents = every sequence of <= {max_lines} lines over {:?} ({} contents), modes {:?}, trees of <= {max_files} files ({} trees), every ordered pair x context_lines {ctxs:?} x find {:?}",
            alpha.iter().map(|a| LINES[*a as usize]).collect::<Vec<_>>(),
            contents.len(),
            modes.iter().map(|m| format!("{m:o}")).collect::<Vec<_>>(),
            trees.len(),
            finds.iter().map(|f| f.name()).collect::<Vec<_>>(),
        );
        Family { id, tag, names: names.to_vec(), contents, modes: modes.to_vec(), trees, ctxs: ctxs.to_vec(), finds: finds.to_vec(), describe }
    }

    fn radix(&self) -> Radix {
        Radix::new(&[self.trees.len() as u64, self.trees.len() as u64, self.ctxs.len() as u64, self.finds.len() as u64])
    }

    fn resolve(&self, t: &TreeSpec) -> Vec<FileC> {
        t.iter()
            .map(|(n, c, m)| FileC {
                name: self.names[*n as usize].to_string(),
                mode: self.modes[*m as usize],
                lines: self.contents[*c as usize].iter().map(|l| LINES[*l as usize].to_string()).collect(),
            })
            .collect()
    }
}

fn families(thorough: bool) -> Vec<Family> {
    use Find::*;
    let all = [None, Review, Diff];
    if !thorough {
        vec![
            Family::new("M2", 1, &["f"], FULL, 2, &[BLOB], 1, &[3, 0], &[Review]),
            Family::new("M3", 2, &["f"], A9, 3, &[BLOB], 1, &[3, 0], &[Review]),
            Family::new("H6", 3, &["f"], A2, 6, &[BLOB], 1, &[0, 1], &[Review]),
            Family::new("T1", 4, &["f", "g", "a b"], A6, 1, &[BLOB], 2, &[3], &all),
            Family::new("X", 5, &["f", "g"], &[0], 2, &[BLOB, EXEC], 2, &[3], &all),
        ]
    } else {
        vec![
            Family::new("M3", 1, &["f"], FULL, 3, &[BLOB], 1, &[3, 1, 0], &[Review]),
            Family::new("M4", 2, &["f"], A6, 4, &[BLOB], 1, &[3, 1, 0], &[Review]),
            Family::new("H8", 3, &["f"], A2, 8, &[BLOB], 1, &[0, 1, 3], &[Review]),
            Family::new("T1", 4, &["f", "g", "a b", "d/g"], FULL, 1, &[BLOB], 2, &[3], &all),
            Family::new("T2", 5, &["f", "g"], A4, 2, &[BLOB], 2, &[3, 0], &all),
            Family::new("X", 6, &["f", "g"], &[0], 2, &[BLOB, EXEC], 2, &[3], &all),
        ]
    }
}

// ------------------------------------------------------------------------------------------
// The scratch repository (in-memory object database, one per thread)
// ------------------------------------------------------------------------------------------

#[derive(Clone, Debug, serde::Serialize, serde::Deserialize)]
struct FileC {
    name: String,
    mode: i32,
    lines: Vec<String>,
}

impl FileC {
    fn bytes(&self) -> Vec<u8> {
        let mut b = Vec::new();
        for l in &self.lines {
            b.extend_from_slice(l.as_bytes());
            b.push(b'\n');
        }
        b
    }
}

struct World {
    repo: git2::Repository,
    tag: usize,
    trees: Vec<Option<git2::Oid>>,
}

thread_local! {
    static WORLD: RefCell<Option<World>> = const { RefCell::new(None) };
    /// Per worker and fingerprint: the costs of the witnesses kept so far (mirrors `Violations`).
    static BEST: RefCell<std::collections::HashMap<String, Vec<u64>>> = RefCell::new(Default::default());
}

fn new_world() -> World {
    let odb = git2::Odb::new().expect("odb");
    odb.add_new_mempack_backend(1000).expect("mempack");
    let repo = git2::Repository::from_odb(odb).expect("repository over in-memory odb");
    World { repo, tag: 0, trees: vec![] }
}

fn write_tree(repo: &git2::Repository, files: &[(&str, i32, Vec<u8>)]) -> git2::Oid {
    let mut tb = repo.treebuilder(None).expect("treebuilder");
    let mut sub: BTreeMap<&str, Vec<(&str, i32, Vec<u8>)>> = BTreeMap::new();
    for (name, mode, bytes) in files {
        match name.split_once('/') {
            None => {
                let b = repo.blob(bytes).expect("blob");
                tb.insert(name, b, *mode).expect("tree insert");
            }
            Some((d, rest)) => sub.entry(d).or_default().push((rest, *mode, bytes.clone())),
        }
    }
    for (d, fs) in sub {
        let t = write_tree(repo, &fs);
        tb.insert(d, t, 0o040000).expect("subtree insert");
    }
    tb.write().expect("tree write")
}

fn tree_of(repo: &git2::Repository, files: &[FileC]) -> git2::Oid {
    let fs: Vec<(&str, i32, Vec<u8>)> = files.iter().map(|f| (f.name.as_str(), f.mode, f.bytes())).collect();
    write_tree(repo, &fs)
}

/// The diff as the CLI obtains it (commands/diff.rs, commands/patch/review{,/builder}.rs,
/// commands/id.rs).
fn cli_diff(repo: &git2::Repository, old: git2::Oid, new: git2::Oid, context: u32, find: Find) -> Result<Diff, String> {
    let mut opts = git2::DiffOptions::new();
    opts.patience(true).minimal(true).context_lines(context);
    let (told, tnew) = (repo.find_tree(old).expect("old tree"), repo.find_tree(new).expect("new tree"));
    let mut d = repo.diff_tree_to_tree(Some(&told), Some(&tnew), Some(&mut opts)).expect("diff_tree_to_tree");
    match find {
        Find::None => {}
        Find::Review => {
            let mut f = git2::DiffFindOptions::new();
            f.exact_match_only(true);
            f.all(true);
            f.copies(false);
            d.find_similar(Some(&mut f)).expect("find_similar");
        }
        Find::Diff => {
            let mut f = git2::DiffFindOptions::new();
            f.exact_match_only(true);
            f.all(true);
            d.find_similar(Some(&mut f)).expect("find_similar");
        }
    }
    Diff::try_from(d).map_err(|e| e.to_string())
}

// ------------------------------------------------------------------------------------------
// Observation helpers (plain field access on the surf types)
// ------------------------------------------------------------------------------------------

fn kind(f: &FileDiff) -> &'static str {
    match f {
        FileDiff::Added(_) => "added",
        FileDiff::Deleted(_) => "deleted",
        FileDiff::Modified(_) => "modified",
        FileDiff::Moved(_) => "moved",
        FileDiff::Copied(_) => "copied",
    }
}

fn letter(f: &FileDiff) -> char {
    match f {
        FileDiff::Added(_) => 'A',
        FileDiff::Deleted(_) => 'D',
        FileDiff::Modified(_) => 'M',
        FileDiff::Moved(_) => 'R',
        FileDiff::Copied(_) => 'C',
    }
}

fn paths(f: &FileDiff) -> (Option<&std::path::Path>, &std::path::Path) {
    match f {
        FileDiff::Added(x) => (None, x.path.as_path()),
        FileDiff::Deleted(x) => (None, x.path.as_path()),
        FileDiff::Modified(x) => (None, x.path.as_path()),
        FileDiff::Moved(x) => (Some(x.old_path.as_path()), x.new_path.as_path()),
        FileDiff::Copied(x) => (Some(x.old_path.as_path()), x.new_path.as_path()),
    }
}

fn content(f: &FileDiff) -> &DiffContent {
    match f {
        FileDiff::Added(x) => &x.diff,
        FileDiff::Deleted(x) => &x.diff,
        FileDiff::Modified(x) => &x.diff,
        FileDiff::Moved(x) => &x.diff,
        FileDiff::Copied(x) => &x.diff,
    }
}

fn hunks(c: &DiffContent) -> &[Hunk<Modification>] {
    match c {
        DiffContent::Plain { hunks, .. } => &hunks.0,
        DiffContent::Empty | DiffContent::Binary => &[],
    }
}

fn line_parts(m: &Modification) -> (char, &[u8], (u32, u32)) {
    match m {
        Modification::Addition(a) => ('+', a.line.as_bytes(), (0, a.line_no)),
        Modification::Deletion(d) => ('-', d.line.as_bytes(), (d.line_no, 0)),
        Modification::Context { line, line_no_old, line_no_new } => (' ', line.as_bytes(), (*line_no_old, *line_no_new)),
    }
}

fn trim_end(b: &[u8]) -> &[u8] {
    let mut e = b.len();
    while e > 0 && b[e - 1].is_ascii_whitespace() {
        e -= 1;
    }
    &b[..e]
}

fn lossy(b: &[u8]) -> String {
    String::from_utf8_lossy(b).into_owned()
}

/// A difference between an original and a decoded list of hunks: (clause, trait, description).
type Finding = (&'static str, &'static str, String);

fn compare_hunks(orig: &[Hunk<Modification>], dec: &[Hunk<Modification>]) -> Vec<Finding> {
    let mut out: Vec<Finding> = vec![];
    if orig.len() != dec.len() {
        out.push(("hunk-count", "-", format!("{} hunks originally, {} decoded", orig.len(), dec.len())));
        return out;
    }
    for (i, (o, d)) in orig.iter().zip(dec.iter()).enumerate() {
        let (oh, dh) = (o.header.as_bytes(), d.header.as_bytes());
        if oh != dh {
            let tr = if trim_end(oh) == trim_end(dh) { "trailing-whitespace" } else { "fields" };
            out.push(("hunk-header", tr, format!("hunk {i}: header {:?} decoded as {:?}", lossy(oh), lossy(dh))));
        }
        if o.lines.len() != d.lines.len() {
            out.push(("lines", "count", format!("hunk {i}: {} lines originally, {} decoded", o.lines.len(), d.lines.len())));
            continue;
        }
        for (j, (ol, dl)) in o.lines.iter().zip(d.lines.iter()).enumerate() {
            if ol == dl {
                continue;
            }
            let (ok, oc, on) = line_parts(ol);
            let (dk, dc, dn) = line_parts(dl);
            let tr = if ok != dk {
                "line-kind"
            } else if oc != dc {
                if trim_end(oc) == trim_end(dc) {
                    "trailing-whitespace"
                } else {
                    "content"
                }
            } else if on != dn {
                "line-number"
            } else {
                "other"
            };
            out.push(("lines", tr, format!("hunk {i} line {j}: {ok:?}{:?}@{on:?} decoded as {dk:?}{:?}@{dn:?}", lossy(oc), lossy(dc))));
        }
    }
    out
}

/// Abstract shape of a diff: per file the kind letter and per hunk the string of line kinds.
fn shape(d: &Diff) -> (String, String) {
    let mut full = String::new();
    let mut brief: Vec<String> = vec![];
    let mut fn_text = false;
    for f in d.files() {
        full.push(letter(f));
        let hs = hunks(content(f));
        for h in hs {
            full.push('[');
            // whether the header carries function text
            let hdr = h.header.as_bytes();
            if trim_end(hdr).ends_with(b"@@") {
                full.push('@');
            } else {
                full.push('f');
                fn_text = true;
            }
            for l in &h.lines {
                full.push(line_parts(l).0);
            }
            full.push(']');
        }
        full.push(';');
        brief.push(format!("{}{}", letter(f), hs.len().min(3)));
    }
    brief.sort();
    (full, if brief.is_empty() { "empty".to_string() } else { format!("{}{}", brief.join("+"), if fn_text { "/fn" } else { "" }) })
}

static RANGE_NOTES: AtomicU64 = AtomicU64::new(0);

// ------------------------------------------------------------------------------------------
// One item
// ------------------------------------------------------------------------------------------

struct Eval {
    class: u64,
    outcome: String,
    violations: Vec<Violation>,
}

fn eval_item(repo: &git2::Repository, old_oid: git2::Oid, new_oid: git2::Oid, context: u32, find: Find, old: &dyn Fn() -> Vec<FileC>, new: &dyn Fn() -> Vec<FileC>, origin: &Value) -> Eval {
    let orig = match cli_diff(repo, old_oid, new_oid, context, find) {
        Ok(d) => d,
        // Not a diff the CLI could obtain either: outside the quantifier, but shown in the histogram.
        Err(e) => return Eval { class: 0, outcome: format!("surf-conversion-error:{e}"), violations: vec![] },
    };
    let (full_shape, brief) = shape(&orig);
    if orig.files().count() == 0 {
        return Eval { class: 0, outcome: "empty-diff".into(), violations: vec![] };
    }
    if orig.files().any(|f| matches!(content(f), DiffContent::Binary)) {
        return Eval { class: 0, outcome: "binary-excluded".into(), violations: vec![] };
    }
    let class = mcx::fnv64(full_shape.as_bytes()) | 1;
    let mut vs: Vec<Violation> = vec![];
    let mut results: Vec<&'static str> = vec![];
    let mut seen: Vec<String> = vec![];

    // The resolved trees and the witness cost are computed once per violating item; the witness
    // document itself only when this item can still become one of the (three) cheapest witnesses
    // this worker has seen for the fingerprint. Every instance is counted either way.
    let resolved: std::cell::OnceCell<(Vec<FileC>, Vec<FileC>, u64)> = std::cell::OnceCell::new();
    let resolve = || {
        resolved.get_or_init(|| {
            let (o, n) = (old(), new());
            // smaller = better witness: few short files, non-empty plain-mode files, the review path
            let file_cost = |f: &FileC| 2 + f.lines.len() as u64 + f.name.len() as u64 + if f.lines.is_empty() { 3 } else { 0 } + if f.mode != BLOB { 2 } else { 0 };
            let cost: u64 = o.iter().chain(n.iter()).map(file_cost).sum::<u64>() * 8 + if find == Find::Review { 0 } else { 4 } + context.min(3) as u64;
            // deterministic tie-break, so that the kept witnesses do not depend on thread timing
            let tie = mcx::fnv64(format!("{o:?}{n:?}{context}{}{origin}", find.name()).as_bytes()) & 0xff_ffff;
            (o, n, (cost << 24) | tie)
        })
    };
    let mut push = |vs: &mut Vec<Violation>, fp: String, what: String, encoded: Option<&str>| {
        if seen.contains(&fp) {
            return;
        }
        seen.push(fp.clone());
        let (o, n, cost) = resolve();
        let candidate = BEST.with(|b| {
            let mut b = b.borrow_mut();
            let e = b.entry(fp.clone()).or_default();
            if e.len() < 3 {
                e.push(*cost);
                return true;
            }
            let (imax, max) = e.iter().copied().enumerate().max_by_key(|(_, c)| *c).unwrap();
            if *cost < max {
                e[imax] = *cost;
                true
            } else {
                false
            }
        });
        if candidate {
            let w = json!({"old": o, "new": n, "context": context, "find": find.name(), "encoded": encoded, "origin": origin});
            vs.push(Violation::new(fp, what, w).cost(*cost));
        } else {
            vs.push(Violation::new(fp, what, Value::Null).cost(u64::MAX));
        }
    };

    // Which single files reproduce a whole-diff failure on their own?
    let culprits = |pred: &dyn Fn(&FileDiff) -> bool, with_name: bool| -> String {
        let bad: Vec<&FileDiff> = orig.files().filter(|f| pred(f)).collect();
        let mut k: Vec<&'static str> = bad.iter().map(|f| kind(f)).collect();
        k.sort();
        k.dedup();
        let blank = |p: &std::path::Path| p.to_string_lossy().contains(' ');
        let name = if bad.iter().any(|f| blank(paths(f).1) || paths(f).0.is_some_and(blank)) { "space-in-name" } else { "plain-name" };
        if k.is_empty() {
            "only-in-combination".to_string()
        } else if with_name {
            format!("{}/{name}", k.join("+"))
        } else {
            k.join("+")
        }
    };

    // ---- diff level ----------------------------------------------------------------------
    match panics::catch(|| orig.to_unified_string()) {
        Err(c) => {
            let who = culprits(&|f| panics::catch(|| f.to_unified_string()).is_err(), false);
            push(&mut vs, format!("C30/panic@{}/{who}", c.site()), format!("encoding a diff with a {who} file panics: {} ({}:{})", c.message, c.file, c.line), None);
            results.push("encode-panic");
        }
        Ok(Err(e)) => {
            let who = culprits(&|f| matches!(panics::catch(|| f.to_unified_string()), Ok(Err(_))), false);
            push(&mut vs, format!("C30/encode-error/{who}"), format!("encoding a diff with a {who} file fails: {e}"), None);
            results.push("encode-error");
        }
        Ok(Ok(text)) => match panics::catch(|| Diff::parse(&text)) {
            Err(c) => {
                let who = culprits(
                    &|f| match f.to_unified_string() {
                        Ok(t) => panics::catch(|| Diff::parse(&t)).is_err(),
                        Err(_) => false,
                    },
                    false,
                );
                push(&mut vs, format!("C30/panic@{}/{who}", c.site()), format!("decoding the encoded diff ({who} file) panics: {} ({}:{})", c.message, c.file, c.line), Some(&text));
                results.push("decode-panic");
            }
            Ok(Err(e)) => {
                let who = culprits(
                    &|f| match f.to_unified_string() {
                        Ok(t) => matches!(panics::catch(|| Diff::parse(&t)), Ok(Err(_))),
                        Err(_) => false,
                    },
                    true,
                );
                push(&mut vs, format!("C30/decode-error/{who}"), format!("the encoded diff ({who} file) does not decode: {e}"), Some(&text));
                results.push("decode-error");
            }
            Ok(Ok(dec)) => {
                let (of, df): (Vec<&FileDiff>, Vec<&FileDiff>) = (orig.files().collect(), dec.files().collect());
                let (mut bad, mut ws) = (false, false);
                if of.len() != df.len() {
                    bad = true;
                    push(&mut vs, format!("C30/diff/file-count/{brief}"), format!("{} files in the diff, {} after decoding", of.len(), df.len()), Some(&text));
                } else {
                    for (o, d) in of.iter().zip(df.iter()) {
                        let k = kind(o);
                        if k != kind(d) {
                            bad = true;
                            push(&mut vs, format!("C30/diff/kind/{k}->{}", kind(d)), format!("file {:?}: change kind {k} decoded as {}", paths(o).1, kind(d)), Some(&text));
                            continue;
                        }
                        if paths(o) != paths(d) {
                            bad = true;
                            let sp = if paths(o).1.to_string_lossy().contains(' ') || paths(o).0.is_some_and(|p| p.to_string_lossy().contains(' ')) { "space-in-name" } else { "plain-name" };
                            push(&mut vs, format!("C30/diff/path/{k}/{sp}"), format!("{k} file: paths {:?} decoded as {:?}", paths(o), paths(d)), Some(&text));
                        }
                        for (clause, tr, what) in compare_hunks(hunks(content(o)), hunks(content(d))) {
                            if tr == "trailing-whitespace" {
                                ws = true;
                            } else {
                                bad = true;
                            }
                            push(&mut vs, format!("C30/diff/{clause}/{tr}"), format!("{k} file {:?}: {what}", paths(o).1), Some(&text));
                        }
                    }
                }
                results.push(if bad {
                    "diff-mismatch"
                } else if ws {
                    "diff-whitespace-lost"
                } else {
                    "diff-ok"
                });
            }
        },
    }

    // ---- content level (radicle's own hunk / line decoder) -----------------------------------
    let (mut cbad, mut chdr, mut cws) = (false, false, false);
    for f in orig.files() {
        let c = content(f);
        let k = kind(f);
        match panics::catch(|| c.to_unified_string()) {
            Err(p) => {
                cbad = true;
                push(&mut vs, format!("C30/panic@{}/content", p.site()), format!("encoding the content of a {k} file panics: {} ({}:{})", p.message, p.file, p.line), None);
            }
            Ok(Err(e)) => {
                cbad = true;
                push(&mut vs, "C30/content/encode-error".to_string(), format!("encoding the content of a {k} file fails: {e}"), None);
            }
            Ok(Ok(text)) => match panics::catch(|| DiffContent::parse(&text)) {
                Err(p) => {
                    cbad = true;
                    push(&mut vs, format!("C30/panic@{}/content", p.site()), format!("decoding the encoded hunks of a {k} file panics: {} ({}:{})", p.message, p.file, p.line), Some(&text));
                }
                Ok(Err(e)) => {
                    cbad = true;
                    push(&mut vs, "C30/content/decode-error".to_string(), format!("the encoded hunks of a {k} file do not decode: {e}"), Some(&text));
                }
                Ok(Ok(dec)) => {
                    for (clause, tr, what) in compare_hunks(hunks(c), hunks(&dec)) {
                        match (clause, tr) {
                            ("hunk-header", "trailing-whitespace") => chdr = true,
                            ("lines", "trailing-whitespace") => cws = true,
                            _ => cbad = true,
                        }
                        push(&mut vs, format!("C30/content/{clause}/{tr}"), format!("hunks of {k} file {:?}: {what}", paths(f).1), Some(&text));
                    }
                    // Not part of the statement; counted for the report only.
                    for (o, d) in hunks(c).iter().zip(hunks(&dec).iter()) {
                        if o.old != d.old || o.new != d.new {
                            RANGE_NOTES.fetch_add(1, Ordering::Relaxed);
                        }
                    }
                }
            },
        }
    }
    results.push(match (cbad, cws, chdr) {
        (true, _, _) => "content-mismatch",
        (false, true, _) => "content-whitespace-lost",
        (false, false, true) => "content-header-whitespace-only",
        (false, false, false) => "content-ok",
    });
    Eval { class, outcome: format!("{brief}:{}", results.join(",")), violations: vs }
}

fn eval_family(fam: &Family, i: u64) -> ItemOut {
    let d = fam.radix().decode(i);
    let (to, tn, context, find) = (d[0] as usize, d[1] as usize, fam.ctxs[d[2] as usize], fam.finds[d[3] as usize]);
    WORLD.with(|w| {
        let mut w = w.borrow_mut();
        let w = w.get_or_insert_with(new_world);
        if w.tag != fam.tag {
            w.tag = fam.tag;
            w.trees = vec![None; fam.trees.len()];
        }
        for t in [to, tn] {
            if w.trees[t].is_none() {
                let oid = tree_of(&w.repo, &fam.resolve(&fam.trees[t]));
                w.trees[t] = Some(oid);
            }
        }
        let origin = json!({"family": fam.id, "index": i});
        let e = eval_item(&w.repo, w.trees[to].unwrap(), w.trees[tn].unwrap(), context, find, &|| fam.resolve(&fam.trees[to]), &|| fam.resolve(&fam.trees[tn]), &origin);
        ItemOut::new(e.class, format!("{}", e.outcome)).with(e.violations)
    })
}

fn describe_item(fam: &Family, i: u64) -> Value {
    let d = fam.radix().decode(i);
    json!({"family": fam.id, "index": i, "old": fam.resolve(&fam.trees[d[0] as usize]), "new": fam.resolve(&fam.trees[d[1] as usize]),
           "context": fam.ctxs[d[2] as usize], "find": fam.finds[d[3] as usize].name()})
}

fn replay(w: &Value, thorough: bool) -> Vec<Violation> {
    let parse_tree = |v: &Value| -> Vec<FileC> { serde_json::from_value(v.clone()).unwrap_or_else(|e| mcx::report::machinery(&format!("bad tree in witness: {e}"))) };
    if w.get("old").is_some() {
        let (old, new) = (parse_tree(&w["old"]), parse_tree(&w["new"]));
        let context = w["context"].as_u64().unwrap_or(3) as u32;
        let find = Find::parse(w["find"].as_str().unwrap_or("review"));
        let world = new_world();
        let (o, n) = (tree_of(&world.repo, &old), tree_of(&world.repo, &new));
        let origin = w.get("origin").cloned().unwrap_or(Value::Null);
        return eval_item(&world.repo, o, n, context, find, &|| old.clone(), &|| new.clone(), &origin).violations;
    }
    // panic witnesses produced by the sweep driver carry only family + index
    let origin = w.get("origin").unwrap_or(w);
    let (fid, idx) = (origin["family"].as_str().unwrap_or(""), origin["index"].as_u64().unwrap_or(0));
    let tier_thorough = w.get("tier").and_then(Value::as_str).map(|t| t == "thorough").unwrap_or(thorough);
    let fams = families(tier_thorough);
    let fam = fams.iter().find(|f| f.id == fid).unwrap_or_else(|| mcx::report::machinery(&format!("unknown family {fid:?} in witness")));
    eval_family(fam, idx).violations
}

fn main() {
    let ctx = Ctx::from_env("C30", "exploration");
    let thorough = ctx.tier == mcx::Tier::Thorough;
    // Hermetic libgit2: no system / user configuration.
    for lvl in [git2::ConfigLevel::System, git2::ConfigLevel::Global, git2::ConfigLevel::XDG, git2::ConfigLevel::ProgramData] {
        unsafe {
            let _ = git2::opts::set_search_path(lvl, "");
        }
    }

    let replay_witness = ctx.replay_witness();
    // libgit2 stats the paths named in a parsed diff relative to the current directory: run in
    // an empty (already removed) directory so that nothing outside the item can be observed.
    {
        let tmp = tempfile::tempdir().unwrap_or_else(|e| mcx::report::machinery(&format!("tempdir: {e}")));
        std::env::set_current_dir(tmp.path()).unwrap_or_else(|e| mcx::report::machinery(&format!("chdir: {e}")));
    }

    if let Some(w) = replay_witness {
        ctx.finish_replay(replay(&w, thorough));
    }

    let fams = families(thorough);
    let mut st = Stats::default();
    let mut samples = vec![];
    let mut sizes = serde_json::Map::new();
    for fam in &fams {
        let n = fam.radix().size();
        let tier = ctx.tier.as_str();
        let s = sweep::threads(
            n,
            |i| eval_family(fam, i),
            Some(|i: u64, c: &panics::Caught| {
                Violation::new(
                    format!("C30/panic@{}", c.site()),
                    format!("panic outside encode/decode while diffing item {i} of family {}: {} ({}:{})", fam.id, c.message, c.file, c.line),
                    json!({"origin": {"family": fam.id, "index": i}, "tier": tier}),
                )
            }),
        );
        sizes.insert(fam.id.to_string(), json!({"space": n, "trees": fam.trees.len(), "definition": fam.describe}));
        for i in sweep::sample_indexes(n).into_iter().skip(1).take(2) {
            samples.push(describe_item(fam, i));
        }
        st.merge(s);
    }

    let mut cov = st.coverage(
        "every ordered pair of trees of each family (families listed under `families`), times the listed context_lines values and find modes; \
         an item is trivial when git reports no changed file (equal trees); distinct = distinct abstract diff shape \
         (per file: change kind, per hunk: header with/without function text and the sequence of line kinds)",
        samples,
    );
    cov.insert("families".into(), Value::Object(sizes));
    cov.insert("line_alphabet".into(), json!(LINES));
    cov.insert(
        "notes".into(),
        json!({"hunks_whose_decoded_old_new_ranges_differ_from_git (not part of the statement, not a violation)": RANGE_NOTES.load(Ordering::Relaxed)}),
    );
    let violations = std::mem::take(&mut st.violations);
    // Instances that could not improve on a worker's kept witnesses were recorded without a
    // witness document; none of them may have been kept.
    for (fp, (ws, _)) in &violations.by_fp {
        if ws.iter().any(|w| w.witness.is_null()) {
            mcx::report::machinery(&format!("witness-less instance kept for {fp}"));
        }
    }
    ctx.finish(
        cov,
        &[
            "trusted: libgit2 tree diff / rename detection and radicle-surf's conversion produce the diff the CLI would encode",
            "trees are held in an in-memory object database; the diff does not depend on where objects are stored",
            "compared: file count, change kinds, paths, hunk headers (bytes), lines (kind, bytes, line numbers); not compared: blob ids, modes, stats, eof marker, derived hunk ranges",
            "binary files, files without trailing newline, non-UTF-8 contents and CRLF line ends are not generated",
        ],
        violations,
    );
}
