//! shared helpers
