//! C26 — Terminal truncation stays within width, never panics, terminates.
//!
//! Engine B, process-isolated (`sweep::procs`): a panic, an abort or non-termination of the code
//! under test is itself the possible verdict.
//!
//! * **cell family**: every string of length ≤ L over a 10-symbol alphabet (ASCII, space, wide,
//!   combining, zero-width, wide space U+3000, NBSP, tab, emoji + skin-tone modifier) × widths 0..=8
//!   × delimiters {"", "…", "...", "世"}, through every public `Cell::truncate` implementation
//!   that takes text: `str`, `String`, `&str` (blanket `&T`), `Paint<&str>`, `Paint<String>`,
//!   `Label`, `Filled<Label>`.
//! * **line family**: every `Line` of 1–3 labels over the same alphabet (label lengths bounded
//!   per label count) × the same widths and delimiters, through `Line::truncate` (inherent),
//!   `<Line as Cell>::truncate` and `Filled<Line>::truncate`.
//!
//! Non-termination is detected deterministically: a counting global allocator (this binary only)
//! watches every call under test; a call that performs more than `BUDGET` heap allocations (a
//! terminating call on these inputs needs a few dozen) is declared non-terminating. Line calls
//! run on a runner thread inside the worker: when the budget is exceeded the allocator never
//! returns to the looping call — it reports the fact and goes on serving the next jobs from that
//! very frame (the looping call stays suspended below it for good); after `MAX_DEPTH` such
//! suspended calls the thread is parked and a fresh runner is started (a worker process is
//! expensive to restart and thousands of lines loop). Cell calls run inline: exceeding the budget exits the
//! worker with a code naming the entry point, which the process driver attributes to the item.
//! The driver's wall-clock watchdog stays armed as a backstop for a loop that does not allocate.
//! `--replay` re-executes the single item with a 1000× larger budget.
//!
//! Attribution rule for fingerprints: the wrappers delegate to `str::truncate` /
//! `Line::truncate`; a wrapper gets a fingerprint of its own only when it fails on an input on
//! which the function it delegates to does not.

use mcx::report::{Ctx, Violation};
use mcx::sweep::{self, Crash, ItemOut, ProcOpts, Radix, Stats};
use radicle_term::cell::Cell;
use radicle_term::{Color, Filled, Label, Line, Paint};
use serde_json::{json, Value};
use std::alloc::{GlobalAlloc, Layout, System};
use std::io::Write as _;
use std::cell::Cell as StdCell;
use std::sync::atomic::{AtomicU64, AtomicUsize, Ordering};
use std::sync::mpsc;
use std::sync::Mutex;
use std::time::Duration;

// ---------------------------------------------------------------------------------------------
// Allocation budget (non-termination detector)

const STAGES: [&str; 11] = [
    "idle",
    "str::truncate",
    "String::truncate",
    "<&str as Cell>::truncate",
    "Paint<&str>::truncate",
    "Paint<String>::truncate",
    "Label::truncate",
    "Filled<Label>::truncate",
    "Line::truncate",
    "<Line as Cell>::truncate",
    "Filled<Line>::truncate",
];
const MARKER: &str = "C26-ALLOC-BUDGET-EXCEEDED stage=";
const BUDGET: u64 = 20_000;

static LIMIT: AtomicU64 = AtomicU64::new(BUDGET);
static STAGE: AtomicUsize = AtomicUsize::new(0);
/// Set by a runner thread whose call exceeded the budget: 1 = it keeps serving jobs (nested),
/// 2 = it parked for good and a new runner thread is needed.
static EXCEEDED: AtomicUsize = AtomicUsize::new(0);
/// Suspended (never resumed) calls stacked on one runner thread before it is retired.
const MAX_DEPTH: usize = 100;
const EXIT_BASE: i32 = 100;

thread_local! {
    static ARMED: StdCell<bool> = const { StdCell::new(false) };
    static COUNT: StdCell<u64> = const { StdCell::new(0) };
    /// Runner threads survive an exceeded budget; any other thread exits the process.
    static PARK: StdCell<bool> = const { StdCell::new(false) };
    static DEPTH: StdCell<usize> = const { StdCell::new(0) };
    /// The runner thread's job / result channels (reachable from the nested serving loop).
    static CHAN: std::cell::RefCell<Option<(mpsc::Receiver<Job>, mpsc::Sender<(usize, LineRes)>)>> = const { std::cell::RefCell::new(None) };
}

struct Budget;

#[inline]
fn tick() {
    if !ARMED.try_with(|a| a.get()).unwrap_or(false) {
        return;
    }
    let c = COUNT.try_with(|c| {
        let v = c.get() + 1;
        c.set(v);
        v
    })
    .unwrap_or(0);
    if c <= LIMIT.load(Ordering::Relaxed) {
        return;
    }
    let _ = ARMED.try_with(|a| a.set(false));
    if PARK.try_with(|p| p.get()).unwrap_or(false) {
        // The call under test is looping. Never return into it: serve further jobs from here.
        let depth = DEPTH.try_with(|d| {
            d.set(d.get() + 1);
            d.get()
        })
        .unwrap_or(usize::MAX);
        if depth < MAX_DEPTH {
            EXCEEDED.store(1, Ordering::SeqCst);
            serve();
        } else {
            EXCEEDED.store(2, Ordering::SeqCst);
        }
        loop {
            std::thread::sleep(Duration::from_secs(3600));
        }
    }
    let stage = STAGE.load(Ordering::Relaxed);
    let mut err = std::io::stderr();
    let _ = err.write_all(MARKER.as_bytes());
    let _ = err.write_all(STAGES.get(stage).copied().unwrap_or("?").as_bytes());
    let _ = err.write_all(b";\n");
    std::process::exit(EXIT_BASE + stage as i32);
}

unsafe impl GlobalAlloc for Budget {
    unsafe fn alloc(&self, l: Layout) -> *mut u8 {
        tick();
        System.alloc(l)
    }
    unsafe fn alloc_zeroed(&self, l: Layout) -> *mut u8 {
        tick();
        System.alloc_zeroed(l)
    }
    unsafe fn realloc(&self, p: *mut u8, l: Layout, new: usize) -> *mut u8 {
        tick();
        System.realloc(p, l, new)
    }
    unsafe fn dealloc(&self, p: *mut u8, l: Layout) {
        System.dealloc(p, l)
    }
}

#[global_allocator]
static GLOBAL: Budget = Budget;

struct Disarm;
impl Drop for Disarm {
    fn drop(&mut self) {
        ARMED.with(|a| a.set(false));
    }
}

/// Run one call of the code under test with the allocation budget armed, catching a panic.
fn guarded<T>(stage: usize, f: impl FnOnce() -> T) -> Result<T, mcx::panics::Caught> {
    mcx::panics::catch(|| {
        let _d = Disarm;
        STAGE.store(stage, Ordering::Relaxed);
        COUNT.with(|c| c.set(0));
        ARMED.with(|a| a.set(true));
        f()
    })
}

// ---------------------------------------------------------------------------------------------
// Input spaces

/// `❤\u{fe0f}`: a narrow base made two columns wide only by a trailing variation selector.
const ALPHABET: [&str; 10] = ["a", " ", "世", "\u{301}", "\u{200b}", "\u{3000}", "\u{a0}", "\t", "👍🏽", "❤\u{fe0f}"];
const DELIMS: [&str; 4] = ["", "…", "...", "世"];
const WIDTHS: u64 = 9; // 0..=8

/// Number of strings of length 0..=len.
fn n_strings(len: usize) -> u64 {
    (0..=len as u32).map(|l| (ALPHABET.len() as u64).pow(l)).sum()
}

/// Strings by index: length 0 first, then 1, … (symbols little-endian).
fn string_at(len: usize, mut i: u64) -> String {
    let a = ALPHABET.len() as u64;
    let mut l = 0usize;
    let mut count = 1u64;
    while l < len && i >= count {
        i -= count;
        count *= a;
        l += 1;
    }
    let mut s = String::new();
    for _ in 0..l {
        s.push_str(ALPHABET[(i % a) as usize]);
        i /= a;
    }
    s
}

/// Line space: for each (label count k, max label length), every k-tuple of strings.
#[derive(Clone)]
struct LineSpace {
    parts: Vec<(usize, usize)>,
}

impl LineSpace {
    fn part_size(k: usize, len: usize) -> u64 {
        n_strings(len).pow(k as u32)
    }
    fn size(&self) -> u64 {
        self.parts.iter().map(|(k, l)| Self::part_size(*k, *l)).sum()
    }
    fn at(&self, mut i: u64) -> Vec<String> {
        for (k, len) in &self.parts {
            let sz = Self::part_size(*k, *len);
            if i < sz {
                let ns = n_strings(*len);
                let mut out = vec![];
                for _ in 0..*k {
                    out.push(string_at(*len, i % ns));
                    i /= ns;
                }
                return out;
            }
            i -= sz;
        }
        unreachable!("line index out of range")
    }
}

fn esc(s: &str) -> String {
    s.chars().flat_map(|c| if c.is_ascii_graphic() || c == ' ' { vec![c] } else { c.escape_unicode().collect() }).collect()
}

/// Panic site with the input-dependent tail of the message removed.
fn site_of(c: &mcx::panics::Caught) -> String {
    let s = c.site();
    s.split(|ch| ch == ';' || ch == '`' || ch == '\'' || ch == '"').next().unwrap_or("").trim().to_string()
}

// ---------------------------------------------------------------------------------------------
// Cell family

struct Res {
    entry: &'static str,
    /// Ok((display width of the result, plain text of the result)) or the panic site.
    out: Result<(usize, String), String>,
}

fn cell_entries(s: &str, w: usize, d: &str) -> Vec<Res> {
    let string = s.to_string();
    let label = Label::new(s);
    let mut v = vec![];
    let mut push = |stage: usize, r: Result<(usize, String), mcx::panics::Caught>| {
        v.push(Res { entry: STAGES[stage], out: r.map_err(|c| site_of(&c)) });
    };
    push(1, guarded(1, || <str as Cell>::truncate(s, w, d)).map(|o| (Cell::width(&o), o)));
    push(2, guarded(2, || <String as Cell>::truncate(&string, w, d)).map(|o| (Cell::width(&o), o)));
    push(3, guarded(3, || <&str as Cell>::truncate(&s, w, d)).map(|o| (Cell::width(&o), o)));
    push(4, guarded(4, || Cell::truncate(&Paint::new(s), w, d)).map(|o: Paint<String>| (Cell::width(&o), o.content().to_string())));
    push(5, guarded(5, || Cell::truncate(&Paint::new(string.clone()), w, d)).map(|o: Paint<String>| (Cell::width(&o), o.content().to_string())));
    push(6, guarded(6, || Cell::truncate(&label, w, d)).map(|o: Label| (Cell::width(&o), o.content().to_string())));
    let filled = Filled { item: label.clone(), color: Color::Unset };
    push(7, guarded(7, || Cell::truncate(&filled, w, d)).map(|o: Label| (Cell::width(&o), o.content().to_string())));
    v
}

fn eval_cell(s: &str, w: usize, d: &str, cost: u64) -> ItemOut {
    let total = Cell::width(s);
    let res = cell_entries(s, w, d);
    let wit = |extra: Value| json!({"family": "cell", "input": s, "input_escaped": esc(s), "width": w, "delim": d, "detail": extra});
    let mut vs = vec![];
    let inner = &res[0];
    // panics: one violation per distinct site, naming the entry points that reach it
    let mut sites: Vec<(String, Vec<&str>)> = vec![];
    for r in &res {
        if let Err(site) = &r.out {
            match sites.iter_mut().find(|(s, _)| s == site) {
                Some((_, es)) => es.push(r.entry),
                None => sites.push((site.clone(), vec![r.entry])),
            }
        }
    }
    for (site, entries) in &sites {
        vs.push(
            Violation::new(
                format!("C26/panic@{site}"),
                format!("truncate(\"{}\", width {w}, delim \"{}\") panics at {site} (entry points: {})", esc(s), esc(d), entries.join(", ")),
                wit(json!({"entry_points": entries})),
            )
            .cost(cost),
        );
    }
    // width bound
    let inner_exceeds = matches!(&inner.out, Ok((rw, _)) if *rw > w);
    for (k, r) in res.iter().enumerate() {
        if let Ok((rw, text)) = &r.out {
            if *rw > w && (k == 0 || !inner_exceeds) {
                let also: Vec<&str> = if k == 0 { res.iter().skip(1).filter(|x| matches!(&x.out, Ok((xw, _)) if *xw > w)).map(|x| x.entry).collect() } else { vec![] };
                vs.push(
                    Violation::new(
                        format!("C26/width-exceeded/{}", r.entry),
                        format!("{}(\"{}\", width {w}, delim \"{}\") = \"{}\" has display width {rw} > {w}", r.entry, esc(s), esc(d), esc(text)),
                        wit(json!({"entry_point": r.entry, "result": text, "result_width": rw, "wrappers_also_exceeding": also})),
                    )
                    .cost(cost),
                );
            }
        }
    }
    let outcome = match &inner.out {
        Err(_) => "str:panic".to_string(),
        Ok((rw, text)) => {
            let kind = if total <= w {
                if text == s { "fits:unchanged" } else { "fits:changed" }
            } else if text.is_empty() {
                "cut:empty"
            } else if !d.is_empty() && text.ends_with(d) {
                "cut:with-delim"
            } else {
                "cut:no-delim"
            };
            format!("str:{kind}{}", if *rw > w { ":EXCEEDS" } else { "" })
        }
    };
    // non-trivial: the text does not fit and has to be cut
    let class = if total > w { mcx::fnv64(format!("c/{s}/{w}/{d}").as_bytes()) | 1 } else { 0 };
    ItemOut::new(class, outcome).with(vs)
}

// ---------------------------------------------------------------------------------------------
// Line family

fn mk_line(labels: &[String]) -> Line {
    let mut line = Line::default();
    for l in labels {
        line.push(l.as_str());
    }
    line
}

fn line_text(line: &Line) -> (usize, Vec<String>) {
    let w = Line::width(line);
    let labels: Vec<String> = line.clone().into_iter().map(|l| l.content().to_string()).collect();
    (w, labels)
}

fn show_labels(labels: &[String]) -> String {
    format!("[{}]", labels.iter().map(|l| format!("\"{}\"", esc(l))).collect::<Vec<_>>().join(", "))
}

struct Job {
    labels: Vec<String>,
    w: usize,
    d: String,
}
/// Ok((Line::width of the result, label contents of the result)) or the panic site.
type LineRes = Result<(usize, Vec<String>), String>;

struct Runner {
    tx: mpsc::Sender<Job>,
    rx: mpsc::Receiver<(usize, LineRes)>,
}
static RUNNER: Mutex<Option<Runner>> = Mutex::new(None);

/// Serve line jobs on the current (runner) thread until the job channel closes.
fn serve() {
    loop {
        let job = CHAN.with(|c| c.borrow().as_ref().map(|(jobs, _)| jobs.recv()));
        let Some(Ok(Job { labels, w, d })) = job else {
            return;
        };
        let send = |m: (usize, LineRes)| {
            CHAN.with(|c| {
                if let Some((_, out)) = c.borrow().as_ref() {
                    let _ = out.send(m);
                }
            })
        };
        let line = mk_line(&labels);
        let d = d.as_str();
        let r = guarded(8, || {
            let mut l = line.clone();
            Line::truncate(&mut l, w, d);
            l
        });
        send((8, r.map(|l| line_text(&l)).map_err(|c| site_of(&c))));
        let r = guarded(9, || <Line as Cell>::truncate(&line, w, d));
        send((9, r.map(|l| line_text(&l)).map_err(|c| site_of(&c))));
        let filled = Filled { item: line.clone(), color: Color::Unset };
        let r = guarded(10, || Cell::truncate(&filled, w, d));
        send((10, r.map(|l: Line| line_text(&l)).map_err(|c| site_of(&c))));
    }
}

fn runner_main(jobs: mpsc::Receiver<Job>, out: mpsc::Sender<(usize, LineRes)>) {
    PARK.with(|p| p.set(true));
    CHAN.with(|c| *c.borrow_mut() = Some((jobs, out)));
    serve();
}

/// The three line entry points on the runner thread. Returns the results that arrived and, if a
/// call exceeded the allocation budget, the stage that did (that call is never resumed).
fn run_line(labels: &[String], w: usize, d: &str) -> (Vec<(usize, LineRes)>, Option<usize>) {
    let mut guard = RUNNER.lock().unwrap();
    if guard.is_none() {
        let (jtx, jrx) = mpsc::channel();
        let (rtx, rrx) = mpsc::channel();
        std::thread::Builder::new()
            .name("c26-runner".into())
            .stack_size(8 << 20)
            .spawn(move || runner_main(jrx, rtx))
            .unwrap_or_else(|e| mcx::report::machinery(&format!("cannot spawn runner thread: {e}")));
        *guard = Some(Runner { tx: jtx, rx: rrx });
    }
    let r = guard.as_ref().unwrap();
    if r.tx.send(Job { labels: labels.to_vec(), w, d: d.to_string() }).is_err() {
        mcx::report::machinery("runner thread is gone");
    }
    let mut out = vec![];
    loop {
        match r.rx.recv_timeout(Duration::from_millis(1)) {
            Ok(m) => {
                out.push(m);
                if out.len() == 3 {
                    return (out, None);
                }
            }
            Err(mpsc::RecvTimeoutError::Timeout) => {
                let e = EXCEEDED.swap(0, Ordering::SeqCst);
                if e != 0 {
                    let stage = STAGE.load(Ordering::Relaxed);
                    if e == 2 {
                        *guard = None; // that thread is parked for good; start a fresh one next time
                    }
                    return (out, Some(stage));
                }
            }
            Err(mpsc::RecvTimeoutError::Disconnected) => mcx::report::machinery("runner thread died"),
        }
    }
}

fn eval_line(labels: &[String], w: usize, d: &str, cost: u64) -> ItemOut {
    let total = Line::width(&mk_line(labels));
    let shown = show_labels(labels);
    let esc_labels: Vec<String> = labels.iter().map(|l| esc(l)).collect();
    let wit = |extra: Value| json!({"family": "line", "labels": labels, "labels_escaped": esc_labels, "width": w, "delim": d, "detail": extra});
    let (raw, hung) = run_line(labels, w, d);
    let res: Vec<(&'static str, LineRes)> = raw.into_iter().map(|(st, r)| (STAGES[st], r)).collect();

    let mut vs = vec![];
    if let Some(stage) = hung {
        let name = STAGES[stage];
        let budget = LIMIT.load(Ordering::Relaxed);
        vs.push(
            Violation::new(
                format!("C26/hang/{name}"),
                format!("{name} on the line {shown} (width {w}, delim \"{}\") did not return within {budget} heap allocations (terminating calls on this space need < 100): its loop makes no progress", esc(d)),
                wit(json!({"entry_point": name, "allocation_budget": budget})),
            )
            .cost(cost),
        );
    }
    let mut sites: Vec<(String, Vec<&str>)> = vec![];
    for (entry, out) in &res {
        if let Err(site) = out {
            match sites.iter_mut().find(|(s, _)| s == site) {
                Some((_, es)) => es.push(entry),
                None => sites.push((site.clone(), vec![entry])),
            }
        }
    }
    for (site, entries) in &sites {
        vs.push(
            Violation::new(
                format!("C26/panic@{site}"),
                format!("truncating the line {shown} to width {w} with delim \"{}\" panics at {site} (entry points: {})", esc(d), entries.join(", ")),
                wit(json!({"entry_points": entries})),
            )
            .cost(cost),
        );
    }
    let inner_exceeds = matches!(res.first(), Some((_, Ok((rw, _)))) if *rw > w);
    for (k, (entry, out)) in res.iter().enumerate() {
        if let Ok((rw, out_labels)) = out {
            let text: String = out_labels.concat();
            if *rw > w && (k == 0 || !inner_exceeds) {
                vs.push(
                    Violation::new(
                        format!("C26/width-exceeded/{entry}"),
                        format!("{entry} of {shown} to width {w} (delim \"{}\") = \"{}\" has width {rw} > {w}", esc(d), esc(&text)),
                        wit(json!({"entry_point": entry, "result_labels": out_labels, "result_width": rw})),
                    )
                    .cost(cost),
                );
            } else if *rw <= w && Cell::width(text.as_str()) > w && k == 0 {
                // the labels add up to <= w but what is printed (their concatenation) is wider
                vs.push(
                    Violation::new(
                        format!("C26/width-exceeded/{entry}(concatenated)"),
                        format!("{entry} of {shown} to width {w} (delim \"{}\") prints \"{}\" whose display width is {} > {w} (label widths add up to {rw})", esc(d), esc(&text), Cell::width(text.as_str())),
                        wit(json!({"entry_point": entry, "result_labels": out_labels, "result_width": rw, "printed_width": Cell::width(text.as_str())})),
                    )
                    .cost(cost),
                );
            }
        }
    }
    let outcome = match res.first() {
        None => format!("line[{}]:HANG", labels.len()),
        Some((_, Err(_))) => format!("line[{}]:panic", labels.len()),
        Some((_, Ok((rw, out_labels)))) => {
            let is_prefix = out_labels.len() <= labels.len() && out_labels.iter().zip(labels).all(|(a, b)| a == b);
            let kind = if total <= w {
                "fits"
            } else if is_prefix {
                "popped-only"
            } else if out_labels.len() < labels.len() {
                "popped+cut"
            } else {
                "cut-last"
            };
            format!("line[{}]:{kind}{}{}", labels.len(), if *rw > w { ":EXCEEDS" } else { "" }, if hung.is_some() { ":wrapper-HANG" } else { "" })
        }
    };
    let class = if total > w { mcx::fnv64(format!("l/{labels:?}/{w}/{d}").as_bytes()) | 1 } else { 0 };
    ItemOut::new(class, outcome).with(vs)
}

// ---------------------------------------------------------------------------------------------

fn crash_violation(wit: Value, what_input: String, crash: Crash, tail: &str, budget: u64, cost: u64) -> Violation {
    if let Some(pos) = tail.find("MACHINERY-ERROR") {
        mcx::report::machinery(&format!("worker failed on {what_input}: {}", tail[pos..].lines().next().unwrap_or("")));
    }
    // budget exceeded on a non-runner thread: the worker exited with a code naming the stage
    let by_code = match crash {
        Crash::Abort { code: Some(c), .. } if c >= EXIT_BASE && ((c - EXIT_BASE) as usize) < STAGES.len() => Some(STAGES[(c - EXIT_BASE) as usize].to_string()),
        _ => None,
    };
    let by_marker = tail.find(MARKER).map(|pos| tail[pos + MARKER.len()..].split(';').next().unwrap_or("?").to_string());
    if let Some(stage) = by_code.or(by_marker) {
        return Violation::new(
            format!("C26/hang/{stage}"),
            format!("{stage} on {what_input} did not return within {budget} heap allocations (terminating calls on this space need < 100): the loop makes no progress"),
            wit,
        )
        .cost(cost);
    }
    match crash {
        Crash::Hang => Violation::new("C26/hang/wall-clock", format!("truncation of {what_input} did not return within the watchdog time"), wit).cost(cost),
        Crash::Abort { signal, code } => {
            let kind = if tail.contains("overflowed its stack") {
                "stack-overflow"
            } else if tail.contains("memory allocation of") {
                "allocation-failure"
            } else {
                "other"
            };
            let last = tail.lines().last().unwrap_or("").to_string();
            Violation::new(format!("C26/abort/{kind}"), format!("worker aborted (signal {signal:?}, code {code:?}) while truncating {what_input}: {last}"), wit).cost(cost)
        }
    }
}

fn opts(chunk: Option<u64>) -> ProcOpts {
    ProcOpts { chunk_timeout: Duration::from_secs(600), item_timeout: Duration::from_secs(180), chunk }
}

fn cell_family(len: usize) -> Stats {
    let ns = n_strings(len);
    let rx = Radix::new(&[ns, WIDTHS, DELIMS.len() as u64]);
    let decode = |i: u64| {
        let v = rx.decode(i);
        (string_at(len, v[0]), v[1] as usize, DELIMS[v[2] as usize])
    };
    sweep::procs(
        "cell",
        rx.size(),
        opts(None),
        |i| {
            let (s, w, d) = decode(i);
            eval_cell(&s, w, d, i)
        },
        Some(|i: u64, c: &mcx::panics::Caught| {
            let (s, w, d) = decode(i);
            Violation::new(format!("C26/panic@{}", site_of(c)), format!("panic outside a guarded call: {}", c.message), json!({"family": "cell", "input": s, "width": w, "delim": d})).cost(i)
        }),
        |i, crash, tail: &str| {
            let (s, w, d) = decode(i);
            crash_violation(
                json!({"family": "cell", "input": s, "input_escaped": esc(&s), "width": w, "delim": d}),
                format!("(\"{}\", width {w}, delim \"{}\")", esc(&s), esc(d)),
                crash,
                tail,
                BUDGET,
                i,
            )
        },
    )
}

fn line_family(space: &LineSpace) -> Stats {
    let rx = Radix::new(&[space.size(), WIDTHS, DELIMS.len() as u64]);
    let decode = |i: u64| {
        let v = rx.decode(i);
        (space.at(v[0]), v[1] as usize, DELIMS[v[2] as usize])
    };
    sweep::procs(
        "line",
        rx.size(),
        opts(None),
        |i| {
            let (labels, w, d) = decode(i);
            eval_line(&labels, w, d, (1 << 40) | i)
        },
        Some(|i: u64, c: &mcx::panics::Caught| {
            let (labels, w, d) = decode(i);
            Violation::new(format!("C26/panic@{}", site_of(c)), format!("panic outside a guarded call: {}", c.message), json!({"family": "line", "labels": labels, "width": w, "delim": d})).cost(i)
        }),
        |i, crash, tail: &str| {
            let (labels, w, d) = decode(i);
            let e: Vec<String> = labels.iter().map(|l| esc(l)).collect();
            crash_violation(
                json!({"family": "line", "labels": labels, "labels_escaped": e, "width": w, "delim": d}),
                format!("the line {} (width {w}, delim \"{}\")", show_labels(&labels), esc(d)),
                crash,
                tail,
                BUDGET,
                (1 << 40) | i,
            )
        },
    )
}

/// Re-execute one witness in an isolated worker, with a budget 1000× the sweep's.
fn replay(w: &Value) -> Vec<Violation> {
    let big = BUDGET * 1000;
    LIMIT.store(big, Ordering::Relaxed);
    let width = w["width"].as_u64().unwrap_or(0) as usize;
    let delim = w["delim"].as_str().unwrap_or("").to_string();
    let fam = w["family"].as_str().unwrap_or("").to_string();
    let input = w["input"].as_str().unwrap_or("").to_string();
    let labels: Vec<String> = w["labels"].as_array().map(|a| a.iter().map(|x| x.as_str().unwrap_or("").to_string()).collect()).unwrap_or_default();
    if fam != "cell" && fam != "line" {
        mcx::report::machinery("replay witness has no known family");
    }
    let st = sweep::procs(
        "replay",
        1,
        ProcOpts { chunk_timeout: Duration::from_secs(600), item_timeout: Duration::from_secs(600), chunk: Some(1) },
        |_| if fam == "cell" { eval_cell(&input, width, &delim, 0) } else { eval_line(&labels, width, &delim, 0) },
        Some(|_: u64, c: &mcx::panics::Caught| Violation::new(format!("C26/panic@{}", site_of(c)), c.message.clone(), w.clone())),
        |_, crash, tail: &str| crash_violation(w.clone(), "the replayed input".to_string(), crash, tail, big, 0),
    );
    st.violations.by_fp.into_iter().filter_map(|(_, (mut ws, _))| if ws.is_empty() { None } else { Some(ws.remove(0)) }).collect()
}

fn main() {
    let ctx = Ctx::from_env("C26", "exploration");
    if let Some(w) = ctx.replay_witness() {
        ctx.finish_replay(replay(&w));
    }
    let thorough = ctx.tier == mcx::Tier::Thorough;
    let len = if thorough { 6 } else { 5 };
    let space = LineSpace { parts: if thorough { vec![(1, 5), (2, 2), (3, 1)] } else { vec![(1, 3), (2, 2), (3, 1)] } };

    let mut st = Stats::default();
    let t0 = std::time::Instant::now();
    st.merge(cell_family(len));
    let cell_items = st.n;
    let cell_wall = t0.elapsed().as_secs_f64();
    st.merge(line_family(&space));
    let line_wall = t0.elapsed().as_secs_f64() - cell_wall;

    let samples = vec![
        json!({"family": "cell", "input_escaped": esc(&string_at(len, n_strings(len) / 3)), "width": 3, "delim": "…"}),
        json!({"family": "cell", "input_escaped": esc(&string_at(len, n_strings(len) - 1)), "width": 8, "delim": ""}),
        json!({"family": "line", "labels_escaped": space.at(space.size() / 2).iter().map(|l| esc(l)).collect::<Vec<_>>(), "width": 2, "delim": "..."}),
        json!({"family": "line", "labels_escaped": space.at(space.size() - 1).iter().map(|l| esc(l)).collect::<Vec<_>>(), "width": 0, "delim": "世"}),
    ];
    let mut cov = st.coverage(
        "cell item = (string of length <= L over the 10-symbol alphabet, width 0..=8, delimiter) run through 7 Cell::truncate implementations; \
         line item = (1-3 labels over the same alphabet, width, delimiter) run through Line::truncate, <Line as Cell>::truncate and Filled<Line>::truncate. \
         Non-trivial = the input is wider than the requested width (something must be cut); distinct = distinct (input, width, delimiter)",
        samples,
    );
    cov.insert("alphabet".into(), json!(ALPHABET.iter().map(|a| esc(a)).collect::<Vec<_>>()));
    cov.insert("delimiters".into(), json!(DELIMS));
    cov.insert("widths".into(), json!("0..=8"));
    cov.insert("max_string_len".into(), json!(len));
    cov.insert("cell_items".into(), json!(cell_items));
    cov.insert("family_wall_s".into(), json!({"cell": (cell_wall * 10.0).round() / 10.0, "line": (line_wall * 10.0).round() / 10.0}));
    cov.insert("line_space".into(), json!(space.parts.iter().map(|(k, l)| json!({"labels": k, "max_label_len": l, "lines": LineSpace::part_size(*k, *l)})).collect::<Vec<_>>()));
    cov.insert("allocation_budget_per_call".into(), json!(BUDGET));
    cov.insert("crashed_items".into(), json!(st.crashed_items.len()));
    let violations = std::mem::take(&mut st.violations);
    ctx.finish(
        cov,
        &[
            "display width is measured with the crate's own Cell::width / Line::width (the property's observation point)",
            "non-termination = more than 20000 heap allocations inside one truncate call (each iteration of Line::truncate's loop that cuts a label allocates; replay confirms with 20,000,000); wall-clock watchdog as backstop",
            "the design's 'lines of 1-3 such labels' is bounded to label lengths (3 quick | 5 thorough, 2, 1) for (1, 2, 3) labels",
            "Table / TextArea rendering (which call Line::truncate / str::truncate internally) are not driven",
        ],
        violations,
    );
}
