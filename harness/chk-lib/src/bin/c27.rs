//! C27 — SSH agent client never panics; key and signature encodings round-trip.
//!
//! Engine B, process-isolated (`sweep::procs`): a panic / abort / hang of the client is the
//! possible verdict. Seam: `AgentClient::connect(stub)` where the stub `ClientStream::request`
//! returns the enumerated response bytes (what the agent sent after the length prefix).
//!
//! Families (each enumerated completely):
//! * **raw**   every response of length 0..=2 over all 256 byte values, every response of length
//!             3 over a 12-value byte alphabet (quick) / over all byte values (thorough);
//! * **sign**  `[type] string{ string algo, string sig }` with every combination of declared
//!             lengths {actual,0,1,63,64,65,2^31} and actual signature lengths {0,1,63,64,65},
//!             × type ∈ {IDENTITIES_ANSWER, SIGN_RESPONSE, FAILURE, SUCCESS, 0} × every truncation point;
//! * **ids**   `[type] u32 count, (string key-blob, string comment)*` with count ∈ {0,1,2,2^32−1}
//!             independent of the 0..2 entries present, key blobs valid / wrong length / wrong
//!             algorithm / mis-declared, × type × every truncation point;
//! * **unix**  the real `impl ClientStream for UnixStream` over a socket pair: length prefix
//!             (consistent, short, long, truncated) + body;
//! * **rt**    `Encodable::write` → `read` for `PublicKey`, `Signature`, `SecretKey` over
//!             all-equal bytes, one-hot bits and leading-zero runs, directly and through the
//!             client (identities answer, sign response, add/remove-identity requests), plus the
//!             `ExtendedSignature` PEM form.
//!
//! Every response is handed to `request_identities::<PublicKey>`, `sign` and `query_extension`
//! (the three methods that parse what the agent returns).

use mcx::report::{Ctx, Violation};
use mcx::sweep::{self, Crash, ItemOut, ProcOpts, Stats};
use radicle_crypto::ssh::ExtendedSignature;
use radicle_crypto::{PublicKey, SecretKey, Signature};
use radicle_ssh::agent::client::{AgentClient, ClientStream, Error};
use radicle_ssh::encoding::{Buffer, Encodable, Reader};
use serde_json::{json, Value};
use std::io::Write as _;
use std::os::unix::net::UnixStream;
use std::sync::{Arc, Mutex};
use std::time::Duration;

const IDENTITIES_ANSWER: u8 = 12;
const SIGN_RESPONSE: u8 = 14;
const FAILURE: u8 = 5;
const SUCCESS: u8 = 6;
const TYPES: [u8; 5] = [IDENTITIES_ANSWER, SIGN_RESPONSE, FAILURE, SUCCESS, 0];

// ---------------------------------------------------------------------------------------------
// Stub stream

#[derive(Clone, Default)]
struct Stub {
    resp: Vec<u8>,
    last_req: Arc<Mutex<Vec<u8>>>,
}

impl ClientStream for Stub {
    fn request(&mut self, req: &[u8]) -> Result<Buffer, Error> {
        *self.last_req.lock().unwrap() = req.to_vec();
        Ok(Buffer::from(self.resp.clone()))
    }
    fn connect<P>(_path: P) -> Result<AgentClient<Self>, Error>
    where
        P: AsRef<std::path::Path> + Send,
    {
        Err(Error::AgentFailure)
    }
}

fn hex(b: &[u8]) -> String {
    b.iter().map(|x| format!("{x:02x}")).collect()
}
fn unhex(s: &str) -> Vec<u8> {
    (0..s.len() / 2).filter_map(|i| u8::from_str_radix(&s[2 * i..2 * i + 2], 16).ok()).collect()
}

fn err_kind(e: &Error) -> &'static str {
    match e {
        Error::AgentProtocolError => "Err(Protocol)",
        Error::AgentFailure => "Err(Failure)",
        Error::Encoding(_) => "Err(Encoding)",
        Error::Io(_) => "Err(Io)",
        _ => "Err(other)",
    }
}

/// Panic site with input-dependent parts of the message removed.
fn site_of(c: &mcx::panics::Caught) -> String {
    let s = c.site();
    s.split(|ch| ch == ';' || ch == '`' || ch == '\'' || ch == '"').next().unwrap_or("").trim().to_string()
}

fn test_key() -> PublicKey {
    PublicKey::from([7u8; 32])
}

/// The three response-parsing methods on one response, each isolated from the others' panics.
/// Returns (labels, panics as (method, site)).
fn parse_all<S: ClientStream>(mk: &dyn Fn() -> S) -> (Vec<String>, Vec<(&'static str, String)>) {
    let mut labels = vec![];
    let mut panics = vec![];
    match mcx::panics::catch(|| AgentClient::connect(mk()).request_identities::<PublicKey>()) {
        Ok(Ok(keys)) => labels.push(format!("ids:Ok({})", keys.len().min(3))),
        Ok(Err(e)) => labels.push(format!("ids:{}", err_kind(&e))),
        Err(c) => {
            labels.push("ids:PANIC".into());
            panics.push(("request_identities", site_of(&c)));
        }
    }
    match mcx::panics::catch(|| AgentClient::connect(mk()).sign(&test_key(), b"data")) {
        Ok(Ok(_)) => labels.push("sign:Ok".into()),
        Ok(Err(e)) => labels.push(format!("sign:{}", err_kind(&e))),
        Err(c) => {
            labels.push("sign:PANIC".into());
            panics.push(("sign", site_of(&c)));
        }
    }
    match mcx::panics::catch(|| AgentClient::connect(mk()).query_extension(b"query", Buffer::default())) {
        Ok(Ok(b)) => labels.push(format!("ext:Ok({b})")),
        Ok(Err(e)) => labels.push(format!("ext:{}", err_kind(&e))),
        Err(c) => {
            labels.push("ext:PANIC".into());
            panics.push(("query_extension", site_of(&c)));
        }
    }
    (labels, panics)
}

fn eval_resp(family: &str, resp: &[u8], idx: u64) -> ItemOut {
    let (labels, panics) = parse_all(&|| Stub { resp: resp.to_vec(), ..Default::default() });
    let cost = ((resp.len() as u64) << 40) | idx;
    let vs = panics
        .into_iter()
        .map(|(method, site)| {
            Violation::new(
                format!("C27/panic@{site}"),
                format!("AgentClient::{method} panics on the {}-byte agent response {} ({site})", resp.len(), if resp.len() <= 48 { hex(resp) } else { format!("{}…", hex(&resp[..48])) }),
                json!({"family": "resp", "from": family, "response_hex": hex(resp), "method": method}),
            )
            .cost(cost)
        })
        .collect();
    // non-trivial: a response with a type byte one of the parsers acts upon, and a body
    let class = if resp.len() > 1 && [IDENTITIES_ANSWER, SIGN_RESPONSE, SUCCESS].contains(&resp[0]) { mcx::fnv64(resp) | 1 } else { 0 };
    ItemOut::new(class, format!("{family}:{}", labels.join("|"))).with(vs)
}

// ---------------------------------------------------------------------------------------------
// Response spaces

const B3: [u8; 12] = [0, 1, 5, 6, 12, 14, 63, 64, 65, 0x7f, 0x80, 0xff];

/// Thorough tier: every 3-byte response as well.
static FULL3: std::sync::atomic::AtomicBool = std::sync::atomic::AtomicBool::new(false);

fn raw_size() -> u64 {
    1 + 256 + 65536 + if FULL3.load(std::sync::atomic::Ordering::Relaxed) { 1 << 24 } else { (B3.len() as u64).pow(3) }
}
fn raw_at(mut i: u64) -> Vec<u8> {
    if i == 0 {
        return vec![];
    }
    i -= 1;
    if i < 256 {
        return vec![i as u8];
    }
    i -= 256;
    if i < 65536 {
        return vec![(i >> 8) as u8, i as u8];
    }
    i -= 65536;
    if FULL3.load(std::sync::atomic::Ordering::Relaxed) {
        return vec![(i >> 16) as u8, (i >> 8) as u8, i as u8];
    }
    let n = B3.len() as u64;
    vec![B3[(i / (n * n)) as usize], B3[((i / n) % n) as usize], B3[(i % n) as usize]]
}

#[derive(Clone, Copy, PartialEq)]
enum Decl {
    Actual,
    Val(u32),
}

/// Plain re-encoder of an SSH string with a chosen (possibly lying) length field.
fn put_str(out: &mut Vec<u8>, decl: Decl, bytes: &[u8]) {
    let l = match decl {
        Decl::Actual => bytes.len() as u32,
        Decl::Val(v) => v,
    };
    out.extend(l.to_be_bytes());
    out.extend(bytes);
}

const LENS: [Decl; 7] = [Decl::Actual, Decl::Val(0), Decl::Val(1), Decl::Val(63), Decl::Val(64), Decl::Val(65), Decl::Val(1 << 31)];
const ALGO: &[u8] = b"ssh-ed25519";

/// Bodies (without the type byte) shaped like a sign response.
fn sign_bodies() -> Vec<Vec<u8>> {
    let mut v = vec![];
    for outer in LENS {
        for algo in [Decl::Actual, Decl::Val(0), Decl::Val(1), Decl::Val(1 << 31)] {
            for n in [0usize, 1, 63, 64, 65] {
                for sig in LENS {
                    let bytes: Vec<u8> = (1..=n as u8).collect();
                    let mut inner = vec![];
                    put_str(&mut inner, algo, ALGO);
                    put_str(&mut inner, sig, &bytes);
                    let mut body = vec![];
                    put_str(&mut body, outer, &inner);
                    v.push(body);
                }
            }
        }
    }
    v
}

/// Key blobs (the `string` holding one identity) with every malformation of the design.
fn key_blobs() -> Vec<Vec<u8>> {
    let key: Vec<u8> = (100..132u8).collect();
    let mut inners: Vec<Vec<u8>> = vec![];
    for (algo_decl, algo, key_decl, klen) in [
        (Decl::Actual, ALGO, Decl::Actual, 32usize), // valid
        (Decl::Actual, ALGO, Decl::Actual, 31),
        (Decl::Actual, ALGO, Decl::Actual, 33),
        (Decl::Actual, ALGO, Decl::Actual, 0),
        (Decl::Actual, ALGO, Decl::Val(1 << 31), 32),
        (Decl::Actual, ALGO, Decl::Val(33), 32),
        (Decl::Actual, &b"ssh-rsa"[..], Decl::Actual, 32),
        (Decl::Val(1 << 31), ALGO, Decl::Actual, 32),
    ] {
        let mut k = key.clone();
        k.resize(klen, 0xEE);
        let mut inner = vec![];
        put_str(&mut inner, algo_decl, algo);
        put_str(&mut inner, key_decl, &k);
        inners.push(inner);
    }
    inners.push(vec![]);
    let mut v = vec![];
    for inner in &inners {
        for outer in LENS {
            let mut b = vec![];
            put_str(&mut b, outer, inner);
            v.push(b);
        }
    }
    v
}

fn ids_bodies(thorough: bool) -> Vec<Vec<u8>> {
    let blobs = key_blobs();
    let mut comments: Vec<Vec<u8>> = vec![];
    for (d, c) in [(Decl::Actual, &b""[..]), (Decl::Actual, &b"c"[..]), (Decl::Val(1 << 31), &b"c"[..])] {
        let mut b = vec![];
        put_str(&mut b, d, c);
        comments.push(b);
    }
    let mut entries: Vec<Vec<u8>> = vec![];
    for b in &blobs {
        for c in &comments {
            entries.push([b.as_slice(), c.as_slice()].concat());
        }
    }
    // second entries: a valid one and one whose blob length field points far out
    let mut second: Vec<Vec<u8>> = vec![entries[0].clone(), [blobs[6].as_slice(), comments[0].as_slice()].concat()];
    if thorough {
        // every inner malformation (with a consistent outer length) as the second entry too
        for k in 1..blobs.len() / LENS.len() {
            second.push([blobs[k * LENS.len()].as_slice(), comments[1].as_slice()].concat());
        }
    }
    let mut seqs: Vec<Vec<u8>> = vec![vec![]];
    for e in &entries {
        seqs.push(e.clone());
        for s in &second {
            seqs.push([e.as_slice(), s.as_slice()].concat());
        }
    }
    let mut v = vec![];
    for count in [0u32, 1, 2, u32::MAX] {
        for s in &seqs {
            let mut b = count.to_be_bytes().to_vec();
            b.extend(s);
            v.push(b);
        }
    }
    v
}

/// (type, body, cut) space flattened: item → response bytes.
struct Cuts {
    bodies: Vec<Vec<u8>>,
    /// offsets[k] = number of items before body k (each body has (len + 2) cuts × TYPES)
    offsets: Vec<u64>,
    total: u64,
}

impl Cuts {
    fn new(bodies: Vec<Vec<u8>>) -> Cuts {
        let mut offsets = vec![];
        let mut total = 0u64;
        for b in &bodies {
            offsets.push(total);
            // response = type byte + body, cut to 1..=len+1 bytes (0 bytes = the empty response, in `raw`)
            total += (b.len() as u64 + 1) * TYPES.len() as u64;
        }
        Cuts { bodies, offsets, total }
    }
    fn at(&self, i: u64) -> Vec<u8> {
        let k = match self.offsets.binary_search(&i) {
            Ok(k) => k,
            Err(k) => k - 1,
        };
        let r = i - self.offsets[k];
        let t = TYPES[(r % TYPES.len() as u64) as usize];
        let cut = (r / TYPES.len() as u64) as usize + 1;
        let mut resp = vec![t];
        resp.extend(&self.bodies[k]);
        resp.truncate(cut);
        resp
    }
}

// ---------------------------------------------------------------------------------------------
// The real UnixStream transport

fn identities_answer(blobs: &[Vec<u8>]) -> Vec<u8> {
    let mut r = vec![IDENTITIES_ANSWER];
    r.extend((blobs.len() as u32).to_be_bytes());
    for b in blobs {
        r.extend(b); // already a `string`
        put_str(&mut r, Decl::Actual, b"comment");
    }
    r
}

fn sign_response(sig: &[u8]) -> Vec<u8> {
    let mut inner = vec![];
    put_str(&mut inner, Decl::Actual, ALGO);
    put_str(&mut inner, Decl::Actual, sig);
    let mut r = vec![SIGN_RESPONSE];
    put_str(&mut r, Decl::Actual, &inner);
    r
}

fn unix_items() -> Vec<(Vec<u8>, String)> {
    let valid_blob = key_blobs()[0].clone();
    let sig: Vec<u8> = (0..64u8).collect();
    let bodies: Vec<Vec<u8>> = vec![vec![], vec![FAILURE], vec![SUCCESS], vec![IDENTITIES_ANSWER, 0, 0, 0, 0], identities_answer(&[valid_blob]), sign_response(&sig), sign_response(&sig[..63])];
    let mut v = vec![];
    for b in &bodies {
        let l = b.len() as i64;
        for (name, p) in [("exact", l), ("short-by-1", l - 1), ("long-by-1", l + 1), ("zero", 0), ("one", 1)] {
            if p < 0 {
                continue;
            }
            let mut wire = (p as u32).to_be_bytes().to_vec();
            wire.extend(b);
            v.push((wire, format!("prefix={name}")));
        }
        // the length prefix itself cut short
        for k in 0..4usize {
            v.push(((l as u32).to_be_bytes()[..k].to_vec(), format!("prefix-truncated-to-{k}")));
        }
    }
    v
}

fn eval_unix(wire: &[u8], desc: &str, idx: u64) -> ItemOut {
    // One fresh socket pair per call: the peer end is pre-loaded with the wire bytes and its
    // write side shut down; it stays open for reading so the client's request can be written.
    let keep: Mutex<Vec<UnixStream>> = Mutex::new(vec![]);
    let (labels, panics) = parse_all(&|| {
        let (client, mut agent) = UnixStream::pair().unwrap_or_else(|e| mcx::report::machinery(&format!("socketpair: {e}")));
        agent.write_all(wire).unwrap_or_else(|e| mcx::report::machinery(&format!("socket write: {e}")));
        let _ = agent.shutdown(std::net::Shutdown::Write);
        keep.lock().unwrap().push(agent);
        client
    });
    let vs = panics
        .into_iter()
        .map(|(method, site)| {
            Violation::new(
                format!("C27/panic@{site}"),
                format!("AgentClient::<UnixStream>::{method} panics when the agent writes {} ({desc}) to the socket ({site})", hex(wire)),
                json!({"family": "unix", "wire_hex": hex(wire), "method": method, "desc": desc}),
            )
            .cost(((wire.len() as u64) << 40) | (1 << 39) | idx)
        })
        .collect();
    let class = if wire.len() > 4 { mcx::fnv64(wire) | 1 } else { 0 };
    ItemOut::new(class, format!("unix:{}", labels.join("|"))).with(vs)
}

// ---------------------------------------------------------------------------------------------
// Round trips

/// Byte patterns of length `l`: all-equal ×256, one-hot bits ×8l, leading-zero runs ×(l+1).
fn n_patterns(l: usize) -> u64 {
    256 + 8 * l as u64 + l as u64 + 1
}
fn pattern(l: usize, i: u64) -> (Vec<u8>, String) {
    if i < 256 {
        return (vec![i as u8; l], format!("all-bytes-{i:#04x}"));
    }
    let i = i - 256;
    if i < 8 * l as u64 {
        let mut v = vec![0u8; l];
        v[(i / 8) as usize] = 1 << (i % 8);
        return (v, format!("one-hot-bit-{i}"));
    }
    let z = (i - 8 * l as u64) as usize;
    let v = (0..l).map(|k| if k < z { 0 } else { (k as u8) | 0x81 }).collect();
    (v, format!("{z}-leading-zero-bytes"))
}

fn rt_size() -> u64 {
    n_patterns(32) + 2 * n_patterns(64)
}

fn rt_violation(ty: &str, route: &str, what: String, bytes: &[u8], pat: &str, idx: u64) -> Violation {
    // error texts quote raw key bytes: keep the line printable
    let what: String = what.chars().map(|c| if c.is_control() { '.' } else { c }).collect();
    Violation::new(format!("C27/roundtrip/{ty}/{route}"), format!("{ty} ({pat}): {what}"), json!({"family": "rt", "type": ty, "bytes_hex": hex(bytes), "pattern": pat, "route": route})).cost(idx)
}

fn eval_rt(ty: &str, bytes: &[u8], pat: &str, idx: u64) -> ItemOut {
    let mut vs = vec![];
    let mut routes = vec![];
    match ty {
        "PublicKey" => {
            let arr: [u8; 32] = bytes.try_into().unwrap_or_else(|_| mcx::report::machinery("bad PublicKey length"));
            let pk = PublicKey::from(arr);
            let mut buf = Buffer::default();
            pk.write(&mut buf);
            // (1) what `write` produced, handed to `read`
            match PublicKey::read(&mut buf.reader(0)) {
                Ok(back) if back == pk => routes.push("write-read:ok"),
                Ok(back) => vs.push(rt_violation(ty, "write-read", format!("Encodable::read(Encodable::write(k)) = {back:?} ≠ k"), bytes, pat, idx)),
                Err(e) => {
                    routes.push("write-read:err");
                    vs.push(rt_violation(ty, "write-read", format!("Encodable::read rejects the {} bytes Encodable::write produced: {e}", buf.len()), bytes, pat, idx))
                }
            }
            // (2) through the client: the written blob inside an identities answer
            let mut second = Buffer::default();
            test_key().write(&mut second);
            let resp = identities_answer(&[buf.to_vec(), second.to_vec()]);
            match AgentClient::connect(Stub { resp, ..Default::default() }).request_identities::<PublicKey>() {
                Ok(keys) if keys == vec![pk, test_key()] => routes.push("identities-answer:ok"),
                other => vs.push(rt_violation(ty, "identities-answer", format!("request_identities on an answer holding [write(k), write(k2)] returned {:?}", other.map_err(|e| e.to_string())), bytes, pat, idx)),
            }
            // (3) the blob the client sends in a remove-identity request reads back
            let stub = Stub::default();
            let _ = AgentClient::connect(stub.clone()).remove_identity(&pk);
            let req = stub.last_req.lock().unwrap().clone();
            let back = req.as_slice().reader(5).read_string().ok().and_then(|blob| PublicKey::read(&mut blob.reader(0)).ok());
            if back == Some(pk) {
                routes.push("remove-identity-request:ok");
            } else {
                vs.push(rt_violation(ty, "remove-identity-request", format!("key blob of the request reads back as {back:?}"), bytes, pat, idx));
            }
            // (4) PEM form of an extended signature carrying this key
            let es = ExtendedSignature::new(pk, Signature::from([0x5a; 64]));
            match es.to_pem().and_then(|p| ExtendedSignature::from_pem(p)) {
                Ok(back) if back == es => routes.push("pem:ok"),
                other => vs.push(rt_violation("ExtendedSignature", "pem", format!("to_pem/from_pem gave {:?}", other.map_err(|e| e.to_string())), bytes, pat, idx)),
            }
        }
        "Signature" => {
            let arr: [u8; 64] = bytes.try_into().unwrap_or_else(|_| mcx::report::machinery("bad Signature length"));
            let sig = Signature::from(arr);
            let mut buf = Buffer::default();
            sig.write(&mut buf);
            match Signature::read(&mut buf.reader(0)) {
                Ok(back) if back == sig => routes.push("write-read:ok"),
                Ok(back) => vs.push(rt_violation(ty, "write-read", format!("read(write(s)) = {back:?} ≠ s"), bytes, pat, idx)),
                Err(e) => vs.push(rt_violation(ty, "write-read", format!("Encodable::read rejects what Encodable::write produced: {e}"), bytes, pat, idx)),
            }
            let mut resp = vec![SIGN_RESPONSE];
            resp.extend(buf.iter());
            match AgentClient::connect(Stub { resp, ..Default::default() }).sign(&test_key(), b"data") {
                Ok(back) if back == arr => routes.push("sign-response:ok"),
                other => vs.push(rt_violation(ty, "sign-response", format!("sign() on a response holding write(s) returned {:?}", other.map(|b| hex(&b)).map_err(|e| e.to_string())), bytes, pat, idx)),
            }
            let es = ExtendedSignature::new(test_key(), sig);
            match es.to_pem().and_then(|p| ExtendedSignature::from_pem(p)) {
                Ok(back) if back == es => routes.push("pem:ok"),
                other => vs.push(rt_violation("ExtendedSignature", "pem", format!("to_pem/from_pem gave {:?}", other.map_err(|e| e.to_string())), bytes, pat, idx)),
            }
        }
        "SecretKey" => {
            let arr: [u8; 64] = bytes.try_into().unwrap_or_else(|_| mcx::report::machinery("bad SecretKey length"));
            let sk = SecretKey::from(arr);
            let mut buf = Buffer::default();
            sk.write(&mut buf);
            match SecretKey::read(&mut buf.reader(0)) {
                Ok(back) if back == sk => routes.push("write-read:ok"),
                Ok(_) => vs.push(rt_violation(ty, "write-read", "read(write(k)) ≠ k".into(), bytes, pat, idx)),
                Err(e) => vs.push(rt_violation(ty, "write-read", format!("Encodable::read rejects what Encodable::write produced: {e}"), bytes, pat, idx)),
            }
            let stub = Stub::default();
            let _ = AgentClient::connect(stub.clone()).add_identity(&sk, &[]);
            let req = stub.last_req.lock().unwrap().clone();
            match SecretKey::read(&mut req.as_slice().reader(5)) {
                Ok(back) if back == sk => routes.push("add-identity-request:ok"),
                _ => vs.push(rt_violation(ty, "add-identity-request", "key in the add-identity request does not read back".into(), bytes, pat, idx)),
            }
        }
        _ => mcx::report::machinery("unknown rt type"),
    }
    let class = mcx::fnv64(format!("{ty}/{}", hex(bytes)).as_bytes()) | 1;
    ItemOut::new(class, format!("rt:{ty}:{}", routes.join("|"))).with(vs)
}

fn rt_at(i: u64) -> (&'static str, Vec<u8>, String) {
    let (p32, p64) = (n_patterns(32), n_patterns(64));
    if i < p32 {
        let (b, d) = pattern(32, i);
        ("PublicKey", b, d)
    } else if i < p32 + p64 {
        let (b, d) = pattern(64, i - p32);
        ("Signature", b, d)
    } else {
        let (b, d) = pattern(64, i - p32 - p64);
        ("SecretKey", b, d)
    }
}

// ---------------------------------------------------------------------------------------------

fn crash_violation(wit: Value, what: String, crash: Crash, tail: &str, cost: u64) -> Violation {
    if let Some(pos) = tail.find("MACHINERY-ERROR") {
        mcx::report::machinery(&format!("worker failed on {what}: {}", tail[pos..].lines().next().unwrap_or("")));
    }
    match crash {
        Crash::Hang => Violation::new("C27/hang", format!("{what}: no result within the watchdog time"), wit).cost(cost),
        Crash::Abort { signal, code } => {
            let kind = if tail.contains("overflowed its stack") {
                "stack-overflow"
            } else if tail.contains("memory allocation of") {
                "allocation-failure"
            } else {
                "other"
            };
            Violation::new(format!("C27/abort/{kind}"), format!("{what}: worker aborted (signal {signal:?}, code {code:?}): {}", tail.lines().last().unwrap_or("")), wit).cost(cost)
        }
    }
}

fn opts() -> ProcOpts {
    ProcOpts { chunk_timeout: Duration::from_secs(600), item_timeout: Duration::from_secs(180), chunk: None }
}

/// A panic that escapes the per-method isolation (round-trip items call the code under test
/// directly): the witness is the same one the item itself would have produced.
fn outer_panic(family: &'static str, wit: impl Fn(u64) -> Value + Sync) -> impl Fn(u64, &mcx::panics::Caught) -> Violation + Sync {
    move |i, c| Violation::new(format!("C27/panic@{}", site_of(c)), format!("panic in {family} item {i}: {} ({}:{})", c.message, c.file, c.line), wit(i)).cost(i)
}

fn resp_family(name: &'static str, n: u64, at: impl Fn(u64) -> Vec<u8> + Sync) -> Stats {
    sweep::procs(
        name,
        n,
        opts(),
        |i| eval_resp(name, &at(i), i),
        Some(outer_panic(name, |i| json!({"family": "resp", "from": name, "response_hex": hex(&at(i))}))),
        |i, crash, tail: &str| {
            let r = at(i);
            crash_violation(json!({"family": "resp", "from": name, "response_hex": hex(&r)}), format!("agent response {}", hex(&r)), crash, tail, ((r.len() as u64) << 40) | i)
        },
    )
}

fn replay(w: &Value) -> Vec<Violation> {
    let fam = w["family"].as_str().unwrap_or("").to_string();
    if !["resp", "unix", "rt"].contains(&fam.as_str()) {
        mcx::report::machinery("replay witness has no known family");
    }
    let st = sweep::procs(
        "replay",
        1,
        ProcOpts { chunk_timeout: Duration::from_secs(600), item_timeout: Duration::from_secs(600), chunk: Some(1) },
        |_| match fam.as_str() {
            "resp" => eval_resp(w["from"].as_str().unwrap_or("replay"), &unhex(w["response_hex"].as_str().unwrap_or("")), 0),
            "unix" => eval_unix(&unhex(w["wire_hex"].as_str().unwrap_or("")), w["desc"].as_str().unwrap_or(""), 0),
            _ => eval_rt(
                match w["type"].as_str() {
                    Some("Signature") => "Signature",
                    Some("SecretKey") => "SecretKey",
                    _ => "PublicKey",
                },
                &unhex(w["bytes_hex"].as_str().unwrap_or("")),
                w["pattern"].as_str().unwrap_or(""),
                0,
            ),
        },
        Some(outer_panic("replay", |_| w.clone())),
        |_, crash, tail: &str| crash_violation(w.clone(), "replayed item".into(), crash, tail, 0),
    );
    st.violations.by_fp.into_iter().filter_map(|(_, (mut ws, _))| if ws.is_empty() { None } else { Some(ws.remove(0)) }).collect()
}

fn main() {
    let ctx = Ctx::from_env("C27", "exploration");
    if let Some(w) = ctx.replay_witness() {
        ctx.finish_replay(replay(&w));
    }
    let thorough = ctx.tier == mcx::Tier::Thorough;
    FULL3.store(thorough, std::sync::atomic::Ordering::Relaxed);
    let sign = Cuts::new(sign_bodies());
    let ids = Cuts::new(ids_bodies(thorough));
    let unix = unix_items();

    let mut st = Stats::default();
    let mut sizes = serde_json::Map::new();
    for (name, s) in [
        ("raw", resp_family("raw", raw_size(), raw_at)),
        ("sign", resp_family("sign", sign.total, |i| sign.at(i))),
        ("ids", resp_family("ids", ids.total, |i| ids.at(i))),
        (
            "unix",
            sweep::procs(
                "unix",
                unix.len() as u64,
                opts(),
                |i| eval_unix(&unix[i as usize].0, &unix[i as usize].1, i),
                Some(outer_panic("unix", |i| json!({"family": "unix", "wire_hex": hex(&unix[i as usize].0), "desc": unix[i as usize].1}))),
                |i, crash, tail: &str| crash_violation(json!({"family": "unix", "wire_hex": hex(&unix[i as usize].0), "desc": unix[i as usize].1}), format!("socket bytes {}", hex(&unix[i as usize].0)), crash, tail, i),
            ),
        ),
        (
            "rt",
            sweep::procs(
                "rt",
                rt_size(),
                opts(),
                |i| {
                    let (ty, b, d) = rt_at(i);
                    eval_rt(ty, &b, &d, i)
                },
                Some(outer_panic("rt", |i| {
                    let (ty, b, d) = rt_at(i);
                    json!({"family": "rt", "type": ty, "bytes_hex": hex(&b), "pattern": d})
                })),
                |i, crash, tail: &str| {
                    let (ty, b, d) = rt_at(i);
                    crash_violation(json!({"family": "rt", "type": ty, "bytes_hex": hex(&b), "pattern": d}), format!("round trip of {ty} {d}"), crash, tail, i)
                },
            ),
        ),
    ] {
        sizes.insert(name.to_string(), json!(s.n));
        st.merge(s);
    }

    let samples = vec![
        json!({"family": "raw", "response_hex": hex(&raw_at(raw_size() / 3))}),
        json!({"family": "sign", "response_hex": hex(&sign.at(sign.total / 2))}),
        json!({"family": "ids", "response_hex": hex(&ids.at(2 * ids.total / 3))}),
        json!({"family": "unix", "wire_hex": hex(&unix[unix.len() / 2].0), "desc": unix[unix.len() / 2].1}),
        json!({"family": "rt", "type": rt_at(rt_size() - 1).0, "pattern": rt_at(rt_size() - 1).2}),
    ];
    let mut cov = st.coverage(
        "response item = bytes returned by the stub ClientStream (raw: every string of <=2 bytes + 12^3 (quick) / 256^3 (thorough) three-byte strings; sign/ids: structured bodies x 5 type bytes x every truncation point), \
         each parsed by request_identities::<PublicKey>, sign and query_extension; unix item = bytes written to a socket pair read by the real UnixStream transport; rt item = one key/signature byte pattern. \
         Non-trivial = response with a type byte a parser acts upon and at least one body byte / socket payload beyond the prefix / every rt item; distinct = distinct byte strings",
        samples,
    );
    cov.insert("family_sizes".into(), Value::Object(sizes));
    cov.insert("structured_bodies".into(), json!({"sign": sign.bodies.len(), "ids": ids.bodies.len()}));
    cov.insert("type_bytes".into(), json!(TYPES));
    cov.insert("length_fields".into(), json!(["actual", 0, 1, 63, 64, 65, 1u64 << 31]));
    cov.insert("crashed_items".into(), json!(st.crashed_items.len()));
    let violations = std::mem::take(&mut st.violations);
    ctx.finish(
        cov,
        &[
            "the stub returns the response without the 4-byte length prefix, exactly what ClientStream::request hands to the parsers",
            "the UnixStream family uses small length prefixes only: a prefix of 2^31..2^32-1 makes the real transport allocate that many bytes before reading (not exercised, would exhaust the shared machine)",
            "key/signature values: all-equal bytes, one-hot bits, leading-zero runs (not all 2^256 keys)",
            "trusted: ssh-key crate for the PEM form",
        ],
        violations,
    );
}
