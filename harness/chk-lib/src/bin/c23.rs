//! C23 — DAG traversals respect dependencies and pruning removes exactly descendants.
//!
//! Engine B (threads). Two families, both enumerated completely:
//!
//! * **graph**: every DAG on `n` positions (every subset of the strict upper-triangular edge set:
//!   edge `(i, j)`, `i < j`, means "position `j` depends on position `i`") × key relabellings
//!   (traversal tie-breaks use `Ord` on the keys) — and, per graph, every root set × every
//!   stop-predicate (subset of nodes) for `fold` and for `prune_by` under three orderings, `remove`
//!   of every node, `sorted` / `sorted_by` under both orderings.
//! * **merge**: every ordered pair of DAGs whose nodes are subsets of a shared 4-key universe
//!   (edges follow one shared position order, so the union is acyclic) × every relabelling.
//!
//! The oracle works on bit masks over *positions* (own adjacency representation, transitive
//! closure by simple iteration); the real `Dag` is only observed through its public API.

use mcx::report::{Ctx, Violation};
use mcx::sweep::{self, ItemOut, Stats};
use radicle_dag::Dag;
use serde_json::{json, Value};
use std::cmp::Ordering;
use std::ops::ControlFlow;

type D = Dag<u8, u8>;

/// All permutations of `0..n` in lexicographic order.
fn perms(n: usize) -> Vec<Vec<u8>> {
    fn rec(cur: &mut Vec<u8>, used: u32, n: usize, out: &mut Vec<Vec<u8>>) {
        if cur.len() == n {
            out.push(cur.clone());
            return;
        }
        for k in 0..n {
            if used & (1 << k) == 0 {
                cur.push(k as u8);
                rec(cur, used | (1 << k), n, out);
                cur.pop();
            }
        }
    }
    let mut out = vec![];
    rec(&mut vec![], 0, n, &mut out);
    out
}

/// Pairs (i, j), i < j, in a fixed order; bit `b` of an edge mask selects pair `b`.
fn pairs(n: usize) -> Vec<(usize, usize)> {
    let mut v = vec![];
    for j in 0..n {
        for i in 0..j {
            v.push((i, j));
        }
    }
    v
}

/// Reference graph over positions `0..n` restricted to the node set `nodes` (bit mask).
#[derive(Clone, Debug)]
struct Model {
    n: usize,
    nodes: u8,
    /// deps[p] = positions p depends on directly; rdeps[p] = direct dependents.
    deps: [u8; 8],
    rdeps: [u8; 8],
    /// transitive closures (strict).
    anc: [u8; 8],
    desc: [u8; 8],
    /// key of position p.
    key: Vec<u8>,
}

impl Model {
    fn new(n: usize, nodes: u8, emask: u32, key: &[u8]) -> Model {
        let mut deps = [0u8; 8];
        let mut rdeps = [0u8; 8];
        for (b, (i, j)) in pairs(n).into_iter().enumerate() {
            if emask & (1 << b) != 0 && nodes & (1 << i) != 0 && nodes & (1 << j) != 0 {
                deps[j] |= 1 << i;
                rdeps[i] |= 1 << j;
            }
        }
        // Positions are a topological order: ancestors of j have smaller positions.
        let mut anc = [0u8; 8];
        for j in 0..n {
            let mut a = deps[j];
            for i in 0..j {
                if deps[j] & (1 << i) != 0 {
                    a |= anc[i];
                }
            }
            anc[j] = a;
        }
        let mut desc = [0u8; 8];
        for i in (0..n).rev() {
            let mut d = rdeps[i];
            for j in i + 1..n {
                if rdeps[i] & (1 << j) != 0 {
                    d |= desc[j];
                }
            }
            desc[i] = d;
        }
        Model { n, nodes, deps, rdeps, anc, desc, key: key.to_vec() }
    }
    fn pos_of(&self, key: u8) -> Option<usize> {
        self.key.iter().position(|k| *k == key)
    }
    fn keys_of(&self, mask: u8) -> Vec<u8> {
        let mut v: Vec<u8> = (0..self.n).filter(|p| mask & (1 << p) != 0).map(|p| self.key[p]).collect();
        v.sort();
        v
    }
    fn mask_of(&self, keys: impl IntoIterator<Item = u8>) -> Option<u8> {
        let mut m = 0u8;
        for k in keys {
            m |= 1 << self.pos_of(k)?;
        }
        Some(m)
    }
    fn edges_json(&self) -> Value {
        let mut e = vec![];
        for j in 0..self.n {
            for i in 0..self.n {
                if self.deps[j] & (1 << i) != 0 {
                    e.push(json!({"from": self.key[j], "depends_on": self.key[i]}));
                }
            }
        }
        json!(e)
    }
    fn build(&self) -> D {
        let mut d = D::new();
        for p in 0..self.n {
            if self.nodes & (1 << p) != 0 {
                d.node(self.key[p], p as u8);
            }
        }
        for j in 0..self.n {
            for i in 0..self.n {
                if self.deps[j] & (1 << i) != 0 {
                    d.dependency(self.key[j], self.key[i]);
                }
            }
        }
        d
    }
    /// Nodes reachable from `roots` through dependents (including the roots).
    fn reach(&self, roots: u8) -> u8 {
        let mut r = roots;
        for p in 0..self.n {
            if roots & (1 << p) != 0 {
                r |= self.desc[p];
            }
        }
        r
    }
    /// Expected set of nodes the filter is called on: reachable, and no ancestor on which the
    /// filter was called said `Break`. Also returns the set of called nodes that said `Break`.
    fn called(&self, roots: u8, stop: u8) -> (u8, u8) {
        let reach = self.reach(roots);
        let (mut called, mut broke) = (0u8, 0u8);
        for p in 0..self.n {
            if reach & (1 << p) != 0 && self.anc[p] & broke == 0 {
                called |= 1 << p;
                if stop & (1 << p) != 0 {
                    broke |= 1 << p;
                }
            }
        }
        (called, broke)
    }
}

/// What the real graph looks like through its public API, as masks over the model's positions.
struct View {
    nodes: u8,
    deps: [u8; 8],
    rdeps: [u8; 8],
    roots: u8,
    tips: u8,
    /// a key that is not in the model's universe showed up, or the accessors disagree
    foreign: bool,
}

fn view(m: &Model, d: &D, cross_check: bool) -> View {
    let mut v = View { nodes: 0, deps: [0; 8], rdeps: [0; 8], roots: 0, tips: 0, foreign: false };
    for p in 0..m.n {
        if let Some(node) = d.get(&m.key[p]) {
            v.nodes |= 1 << p;
            match m.mask_of(node.dependencies.iter().copied()) {
                Some(x) => v.deps[p] = x,
                None => v.foreign = true,
            }
            match m.mask_of(node.dependents.iter().copied()) {
                Some(x) => v.rdeps[p] = x,
                None => v.foreign = true,
            }
            if d.contains(&m.key[p]) != true || node.key != m.key[p] {
                v.foreign = true;
            }
        }
    }
    if d.len() != v.nodes.count_ones() as usize {
        v.foreign = true;
    }
    for p in 0..m.n {
        for q in 0..m.n {
            if cross_check && d.has_dependency(&m.key[p], &m.key[q]) != (v.deps[p] & (1 << q) != 0) {
                v.foreign = true;
            }
        }
    }
    match m.mask_of(d.roots().map(|(k, _)| *k)) {
        Some(x) => v.roots = x,
        None => v.foreign = true,
    }
    match m.mask_of(d.tips().map(|(k, _)| *k)) {
        Some(x) => v.tips = x,
        None => v.foreign = true,
    }
    v
}

/// Compare the real graph with the expected induced sub-graph on `keep`.
/// `clause` names the operation; returns (fingerprint suffix, description) pairs.
fn compare(m: &Model, d: &D, keep: u8, cross_check: bool, edges_of: &dyn Fn(usize) -> (u8, u8)) -> Vec<(&'static str, String)> {
    let v = view(m, d, cross_check);
    let mut out = vec![];
    if v.foreign {
        out.push(("api-inconsistent", "public accessors (get/contains/len/has_dependency/roots/tips) disagree with each other".to_string()));
    }
    if v.nodes != keep {
        out.push(("nodes", format!("nodes are {:?}, expected {:?}", m.keys_of(v.nodes), m.keys_of(keep))));
        return out;
    }
    let mut edges_ok = true;
    for p in 0..m.n {
        if keep & (1 << p) == 0 {
            continue;
        }
        let (wd, wr) = edges_of(p);
        if v.deps[p] != wd {
            edges_ok = false;
            out.push(("edges", format!("node {} has dependencies {:?}, expected {:?}", m.key[p], m.keys_of(v.deps[p]), m.keys_of(wd))));
            break;
        }
        if v.rdeps[p] != wr {
            edges_ok = false;
            out.push(("edges", format!("node {} has dependents {:?}, expected {:?}", m.key[p], m.keys_of(v.rdeps[p]), m.keys_of(wr))));
            break;
        }
    }
    if edges_ok {
        let mut roots = 0u8;
        let mut tips = 0u8;
        for p in 0..m.n {
            if keep & (1 << p) != 0 {
                let (wd, wr) = edges_of(p);
                if wd == 0 {
                    roots |= 1 << p;
                }
                if wr == 0 {
                    tips |= 1 << p;
                }
            }
        }
        if v.roots != roots {
            out.push(("roots", format!("roots() = {:?}, the edges say {:?}", m.keys_of(v.roots), m.keys_of(roots))));
        }
        if v.tips != tips {
            out.push(("tips", format!("tips() = {:?}, the edges say {:?}", m.keys_of(v.tips), m.keys_of(tips))));
        }
    }
    out
}

/// Check a visit sequence: no node twice, and never a node before one of its (transitive)
/// dependencies that is also visited. Returns the visited mask.
fn check_order(m: &Model, seq: &[u8]) -> (u8, Option<String>) {
    let mut seen = 0u8;
    let mut problem = None;
    for k in seq {
        let Some(p) = m.pos_of(*k) else {
            problem.get_or_insert(format!("unknown key {k} visited"));
            continue;
        };
        if seen & (1 << p) != 0 {
            problem.get_or_insert(format!("node {k} visited twice"));
        }
        if m.desc[p] & seen != 0 {
            problem.get_or_insert(format!("node {k} visited after its dependent(s) {:?}", m.keys_of(m.desc[p] & seen)));
        }
        seen |= 1 << p;
    }
    (seen, problem)
}

const ORDERINGS: [&str; 3] = ["key", "key-rev", "value"];

fn ordering(which: usize) -> impl Fn((&u8, &u8), (&u8, &u8)) -> Ordering {
    move |(k1, v1), (k2, v2)| match which {
        0 => k1.cmp(k2),
        1 => k2.cmp(k1),
        _ => v1.cmp(v2),
    }
}

#[derive(Clone, Copy)]
struct GraphBounds {
    /// enumerate every root set (else: all true roots, each single node, all nodes, empty)
    all_root_sets: bool,
}

fn root_sets(m: &Model, b: GraphBounds) -> Vec<u8> {
    let full = m.nodes;
    if b.all_root_sets {
        return (0..=full).filter(|r| r & !full == 0).collect();
    }
    let true_roots = (0..m.n).filter(|p| m.deps[*p] == 0).fold(0u8, |a, p| a | (1 << p));
    let mut v = vec![0u8, true_roots, full];
    for p in 0..m.n {
        v.push(1 << p);
    }
    v.sort();
    v.dedup();
    v
}

/// One graph item: all traversals / prunings on this labelled graph.
fn eval_graph(n: usize, emask: u32, key: &[u8], b: GraphBounds) -> ItemOut {
    let label_rank = key.iter().fold(0u64, |a, k| a * 8 + *k as u64);
    let full: u8 = if n == 0 { 0 } else { (1u16 << n).wrapping_sub(1) as u8 };
    let m = Model::new(n, full, emask, key);
    let dag = m.build();
    let mut vs: Vec<Violation> = vec![];
    let base = |op: &str, extra: Value| -> Value {
        json!({"family": "graph", "n": n, "edge_mask": emask, "keys_by_position": key, "edges": m.edges_json(), "op": op, "detail": extra, "all_root_sets": b.all_root_sets})
    };
    // strict total order on items => the representative witness of a fingerprint is deterministic
    let cost = (((n as u64) * 100 + emask.count_ones() as u64) << 33) | ((emask as u64) << 18) | label_rank;

    // The graph as built must be the graph we think we built (otherwise nothing below means much).
    for (cl, what) in compare(&m, &dag, full, true, &|p| (m.deps[p], m.rdeps[p])) {
        vs.push(Violation::new(format!("C23/construct/{cl}"), format!("after node()/dependency(): {what}"), base("construct", json!({}))).cost(cost));
    }

    // sorted / sorted_by
    for (name, seq) in [
        ("sorted", dag.sorted()),
        ("sorted_by(cmp)", dag.sorted_by(|a, b| a.cmp(b))),
        ("sorted_by(rev)", dag.sorted_by(|a, b| b.cmp(a))),
    ] {
        let seq: Vec<u8> = seq.into_iter().collect();
        let (seen, problem) = check_order(&m, &seq);
        if let Some(p) = problem {
            vs.push(Violation::new("C23/sorted/order", format!("{name} = {seq:?}: {p}"), base(name, json!({"result": seq}))).cost(cost));
        } else if seen != full || seq.len() != n {
            vs.push(Violation::new("C23/sorted/not-a-permutation", format!("{name} = {seq:?} does not list every node exactly once"), base(name, json!({"result": seq}))).cost(cost));
        }
    }

    let mut max_skipped = 0u32;
    for roots in root_sets(&m, b) {
        let root_keys = m.keys_of(roots); // ascending, as `fold` requires
        // The filter is only ever consulted on visited nodes, so two stop sets that agree on the
        // nodes reachable from the roots are the same run: enumerate the subsets of reach(R).
        let reach = m.reach(roots);
        for stop in 0..=full {
            if stop & !reach != 0 {
                continue;
            }
            let (want_called, want_broke) = m.called(roots, stop);
            let want_skipped = m.reach(roots) & !want_called;
            max_skipped = max_skipped.max(want_skipped.count_ones());
            let detail = |seq: &[u8]| json!({"roots": root_keys, "stop_at": m.keys_of(stop), "visited": seq});
            let shape = |roots: u8| if roots.count_ones() > 1 { "multi-root-call" } else { "single-root-call" };

            // fold
            let seq: Vec<u8> = dag.fold(&root_keys, Vec::new(), |mut acc: Vec<u8>, k, node| {
                acc.push(*k);
                debug_assert_eq!(node.key, *k);
                if m.pos_of(*k).map_or(false, |p| stop & (1 << p) != 0) {
                    ControlFlow::Break(acc)
                } else {
                    ControlFlow::Continue(acc)
                }
            });
            let (seen, problem) = check_order(&m, &seq);
            if let Some(p) = problem {
                vs.push(Violation::new(format!("C23/fold/order/{}", shape(roots)), format!("fold visited {seq:?}: {p}"), base("fold", detail(&seq))).cost(cost));
            } else if seen & !want_called != 0 {
                let extra = seen & !want_called;
                let fp = if extra & !m.reach(roots) != 0 { "visited-unreachable" } else { "dependent-of-stopped-node-visited" };
                vs.push(Violation::new(
                    format!("C23/fold/{fp}/{}", shape(roots)),
                    format!("fold from {root_keys:?} stopping at {:?} visited {seq:?}; {:?} should have been skipped (stopped at {:?})", m.keys_of(stop), m.keys_of(extra), m.keys_of(want_broke)),
                    base("fold", detail(&seq)),
                ).cost(cost));
            } else if want_called & !seen != 0 {
                vs.push(Violation::new(
                    format!("C23/fold/skipped-too-much/{}", shape(roots)),
                    format!("fold from {root_keys:?} stopping at {:?} visited {seq:?}; {:?} is reachable and not a dependent of a stopped node but was skipped", m.keys_of(stop), m.keys_of(want_called & !seen)),
                    base("fold", detail(&seq)),
                ).cost(cost));
            }

            // prune_by under each ordering
            for (oi, oname) in ORDERINGS.iter().enumerate() {
                let mut g = dag.clone();
                let mut seq: Vec<u8> = vec![];
                g.prune_by(
                    &root_keys,
                    |k, _node, _siblings| {
                        seq.push(*k);
                        if m.pos_of(*k).map_or(false, |p| stop & (1 << p) != 0) {
                            ControlFlow::Break(())
                        } else {
                            ControlFlow::Continue(())
                        }
                    },
                    ordering(oi),
                );
                let op = format!("prune_by({oname})");
                let (seen, problem) = check_order(&m, &seq);
                if let Some(p) = problem {
                    vs.push(Violation::new(format!("C23/prune/order/{}", shape(roots)), format!("{op} visited {seq:?}: {p}"), base(&op, detail(&seq))).cost(cost));
                    continue;
                }
                if seen != want_called {
                    let fp = if seen & !want_called != 0 { "removed-node-visited" } else { "skipped-too-much" };
                    vs.push(Violation::new(
                        format!("C23/prune/{fp}/{}", shape(roots)),
                        format!("{op} from {root_keys:?} stopping at {:?} visited {seq:?}, expected exactly {:?}", m.keys_of(stop), m.keys_of(want_called)),
                        base(&op, detail(&seq)),
                    ).cost(cost));
                    continue;
                }
                let mut gone = 0u8;
                for p in 0..n {
                    if want_broke & (1 << p) != 0 {
                        gone |= (1 << p) | m.desc[p];
                    }
                }
                let keep = full & !gone;
                for (cl, what) in compare(&m, &g, keep, false, &|p| (m.deps[p] & keep, m.rdeps[p] & keep)) {
                    vs.push(Violation::new(
                        format!("C23/prune/remaining-{cl}"),
                        format!("{op} from {root_keys:?} stopping at {:?}: {what}", m.keys_of(stop)),
                        base(&op, detail(&seq)),
                    ).cost(cost));
                }
            }
        }
    }

    // remove(k) on its own
    for p in 0..n {
        let mut g = dag.clone();
        let r = g.remove(&m.key[p]);
        let keep = full & !((1 << p) | m.desc[p]);
        if r.as_ref().map(|x| x.key) != Some(m.key[p]) {
            vs.push(Violation::new("C23/remove/return", format!("remove({}) returned {:?}", m.key[p], r.map(|x| x.key)), base("remove", json!({"key": m.key[p]}))).cost(cost));
        }
        for (cl, what) in compare(&m, &g, keep, true, &|q| (m.deps[q] & keep, m.rdeps[q] & keep)) {
            vs.push(Violation::new(format!("C23/remove/remaining-{cl}"), format!("remove({}): {what}", m.key[p]), base("remove", json!({"key": m.key[p]}))).cost(cost));
        }
        if g.remove(&m.key[p]).is_some() {
            vs.push(Violation::new("C23/remove/return", format!("second remove({}) returned a node", m.key[p]), base("remove", json!({"key": m.key[p]}))).cost(cost));
        }
    }

    let n_roots = (0..n).filter(|p| m.deps[*p] == 0).count();
    let joins = (0..n).any(|p| m.deps[p].count_ones() > 1);
    let outcome = format!(
        "n={n}:{}:{}:max-skipped={max_skipped}",
        match n_roots { 0 => "empty", 1 => "single-root", _ => "multi-root" },
        if emask == 0 { "no-edges" } else if joins { "has-join" } else { "forest" },
    );
    // Non-trivial: at least one edge. Distinct: unlabelled-by-key shape (n, edge set).
    let class = if emask != 0 { mcx::fnv64(format!("g/{n}/{emask}").as_bytes()) | 1 } else { 0 };
    ItemOut::new(class, outcome).with(vs)
}

/// All (node subset, edge subset on those nodes) over a universe of `u` positions.
fn sub_graphs(u: usize) -> Vec<(u8, u32)> {
    let ps = pairs(u);
    let mut out = vec![];
    for nodes in 0u8..(1 << u) {
        let inside: Vec<usize> = (0..ps.len()).filter(|b| nodes & (1 << ps[*b].0) != 0 && nodes & (1 << ps[*b].1) != 0).collect();
        for sel in 0u32..(1 << inside.len()) {
            let mut em = 0u32;
            for (x, b) in inside.iter().enumerate() {
                if sel & (1 << x) != 0 {
                    em |= 1 << b;
                }
            }
            out.push((nodes, em));
        }
    }
    out
}

fn eval_merge(u: usize, key: &[u8], a: (u8, u32), b: (u8, u32)) -> ItemOut {
    let ma = Model::new(u, a.0, a.1, key);
    let mb = Model::new(u, b.0, b.1, key);
    let mut g = ma.build();
    let other = mb.build();
    g.merge(other);
    let nodes = a.0 | b.0;
    let mu = Model::new(u, nodes, a.1 | b.1, key);
    let b_roots = (0..u).filter(|p| b.0 & (1 << p) != 0 && mb.deps[*p] == 0).count();
    let shape = match b_roots {
        0 => "other-empty",
        1 => "other-single-root",
        _ => "other-multi-root",
    };
    let wit = json!({
        "family": "merge", "universe": u, "keys_by_position": key,
        "self": {"nodes_mask": a.0, "edge_mask": a.1, "nodes": ma.keys_of(a.0), "edges": ma.edges_json()},
        "other": {"nodes_mask": b.0, "edge_mask": b.1, "nodes": mb.keys_of(b.0), "edges": mb.edges_json()},
    });
    let label_rank = key.iter().fold(0u64, |x, k| x * 8 + *k as u64);
    let primary = ((a.0.count_ones() + b.0.count_ones()) * 100 + a.1.count_ones() + b.1.count_ones()) as u64;
    let cost = (primary << 45) | (label_rank << 30) | ((a.0 as u64) << 25) | ((a.1 as u64) << 15) | ((b.0 as u64) << 10) | b.1 as u64;
    let mut vs = vec![];
    for (cl, what) in compare(&mu, &g, nodes, true, &|p| (mu.deps[p], mu.rdeps[p])) {
        vs.push(Violation::new(format!("C23/merge/union-{cl}/{shape}"), format!("self.merge(other): {what}"), wit.clone()).cost(cost));
    }
    let overlap = if a.0 & b.0 != 0 { "overlap" } else { "disjoint" };
    let outcome = format!("merge:{shape}:{overlap}:{}", if vs.is_empty() { "union" } else { "not-union" });
    let class = if a.0 != 0 && b.0 != 0 && a != b { mcx::fnv64(format!("m/{a:?}/{b:?}").as_bytes()) | 1 } else { 0 };
    ItemOut::new(class, outcome).with(vs)
}

fn on_panic(wit: Value, c: &mcx::panics::Caught) -> Violation {
    let site = c.site();
    Violation::new(format!("C23/panic@{site}"), format!("panic in radicle-dag: {} ({}:{})", c.message, c.file, c.line), wit)
}

/// One labelled-graph family: all edge masks × the given relabellings.
fn graph_family(n: usize, labellings: &[Vec<u8>], b: GraphBounds) -> Stats {
    let masks = 1u64 << (n * n.saturating_sub(1) / 2);
    let nl = labellings.len() as u64;
    sweep::threads(
        masks * nl,
        |i| eval_graph(n, (i / nl) as u32, &labellings[(i % nl) as usize], b),
        Some(|i: u64, c: &mcx::panics::Caught| {
            on_panic(json!({"family": "graph", "n": n, "edge_mask": i / nl, "keys_by_position": labellings[(i % nl) as usize], "all_root_sets": b.all_root_sets}), c)
        }),
    )
}

fn merge_family(u: usize, labellings: &[Vec<u8>]) -> Stats {
    let subs = sub_graphs(u);
    let ns = subs.len() as u64;
    let nl = labellings.len() as u64;
    sweep::threads(
        ns * ns * nl,
        |i| {
            let l = &labellings[(i % nl) as usize];
            let j = i / nl;
            eval_merge(u, l, subs[(j / ns) as usize], subs[(j % ns) as usize])
        },
        Some(|i: u64, c: &mcx::panics::Caught| {
            let j = i / nl;
            let (a, b) = (subs[(j / ns) as usize], subs[(j % ns) as usize]);
            on_panic(json!({"family": "merge", "universe": u, "keys_by_position": labellings[(i % nl) as usize], "self": {"nodes_mask": a.0, "edge_mask": a.1}, "other": {"nodes_mask": b.0, "edge_mask": b.1}}), c)
        }),
    )
}

fn replay_one(w: &Value) -> Vec<Violation> {
    let key: Vec<u8> = w["keys_by_position"].as_array().map(|a| a.iter().map(|x| x.as_u64().unwrap_or(0) as u8).collect()).unwrap_or_default();
    let out = match mcx::panics::catch(|| match w["family"].as_str() {
        Some("graph") => eval_graph(
            w["n"].as_u64().unwrap_or(0) as usize,
            w["edge_mask"].as_u64().unwrap_or(0) as u32,
            &key,
            GraphBounds { all_root_sets: w["all_root_sets"].as_bool().unwrap_or(true) },
        ),
        Some("merge") => eval_merge(
            w["universe"].as_u64().unwrap_or(0) as usize,
            &key,
            (w["self"]["nodes_mask"].as_u64().unwrap_or(0) as u8, w["self"]["edge_mask"].as_u64().unwrap_or(0) as u32),
            (w["other"]["nodes_mask"].as_u64().unwrap_or(0) as u8, w["other"]["edge_mask"].as_u64().unwrap_or(0) as u32),
        ),
        _ => mcx::report::machinery("replay witness has no known family"),
    }) {
        Ok(o) => o.violations,
        Err(c) => vec![on_panic(w.clone(), &c)],
    };
    // one line per fingerprint
    let mut seen = std::collections::BTreeSet::new();
    out.into_iter().filter(|v| seen.insert(v.fingerprint.clone())).collect()
}

fn main() {
    let ctx = Ctx::from_env("C23", "exploration");
    if let Some(w) = ctx.replay_witness() {
        ctx.finish_replay(replay_one(&w));
    }
    let thorough = ctx.tier == mcx::Tier::Thorough;

    let mut st = Stats::default();
    let mut plan = vec![];
    // n <= 4: every relabelling, every root set, every stop set, every ordering.
    for n in 0..=4usize {
        let ls = perms(n);
        plan.push(json!({"n": n, "relabellings": ls.len(), "root_sets": "all subsets"}));
        st.merge(graph_family(n, &ls, GraphBounds { all_root_sets: true }));
    }
    // n = 5: every relabelling; quick restricts the root sets.
    {
        let ls = perms(5);
        plan.push(json!({"n": 5, "relabellings": ls.len(), "root_sets": if thorough { "all subsets" } else { "{}, true roots, all nodes, each single node" }}));
        st.merge(graph_family(5, &ls, GraphBounds { all_root_sets: thorough }));
    }
    if thorough {
        // n = 6: identity and reversed labelling, restricted root sets.
        let ls = vec![(0..6u8).collect::<Vec<_>>(), (0..6u8).rev().collect::<Vec<_>>(), vec![0, 2, 4, 1, 3, 5], vec![3, 4, 5, 0, 1, 2]];
        plan.push(json!({"n": 6, "relabellings": ls, "root_sets": "{}, true roots, all nodes, each single node"}));
        st.merge(graph_family(6, &ls, GraphBounds { all_root_sets: false }));
    }
    // merge: every ordered pair of sub-graphs of a 4-key universe, every relabelling.
    let mu = 4usize;
    st.merge(merge_family(mu, &perms(mu)));
    if thorough {
        // and of a 5-key universe under the identity and the reversed labelling
        let ls = vec![(0..5u8).collect::<Vec<_>>(), (0..5u8).rev().collect::<Vec<_>>()];
        plan.push(json!({"merge_universe": 5, "sub_graphs": sub_graphs(5).len(), "relabellings": ls}));
        st.merge(merge_family(5, &ls));
    }

    let samples = vec![
        json!({"family": "graph", "n": 4, "edge_mask": 0b101101, "keys_by_position": [2, 0, 3, 1], "ops": "sorted, sorted_by x2, fold x (16 root sets x 16 stop sets), prune_by x (16 x 16 x 3 orderings), remove x 4"}),
        json!({"family": "graph", "n": 5, "edge_mask": 1023, "keys_by_position": [4, 3, 2, 1, 0]}),
        json!({"family": "merge", "universe": 4, "self": {"nodes_mask": 0b0111, "edge_mask": 0b011}, "other": {"nodes_mask": 0b1101, "edge_mask": 0b001000}}),
    ];
    let mut cov = st.coverage(
        "graph item = (n, subset of the n(n-1)/2 upper-triangular edges, key relabelling); inside an item every root set x every stop-predicate (subset of nodes) \
         is run through fold and through prune_by under orderings {key, key reversed, node value}, plus remove of each node and sorted/sorted_by(cmp)/sorted_by(reversed). \
         merge item = ordered pair of (node subset, edge subset) graphs over a shared 4-key universe x relabelling. Non-trivial = at least one edge (graph) / both graphs \
         non-empty and different (merge); distinct = distinct (n, edge set) resp. distinct pair, relabellings not counted",
        samples,
    );
    cov.insert("plan".into(), json!(plan));
    cov.insert("merge_universe".into(), json!({"keys": mu, "sub_graphs": sub_graphs(mu).len(), "relabellings": perms(mu).len()}));
    let violations = std::mem::take(&mut st.violations);
    ctx.finish(
        cov,
        &[
            "graphs larger than the bound and random larger DAGs are not covered (bounded exhaustive only)",
            "node()/dependency() are used as documented: all nodes first, then edges between existing nodes",
            "merge pairs share one topological position order, so the union is acyclic",
            "the siblings iterator handed to the prune filter is not part of the statement and is not checked",
        ],
        violations,
    );
}
