//! C22 — CRDT merges are associative, commutative and idempotent; LWW reads follow the greatest
//! clock and at equal clocks an insertion wins over a removal.
//!
//! Engine B (threads). Space: for every provided CRDT, every triple of values over a small
//! domain that is closed under the construction operations (so equal clocks are the majority of
//! cases), plus — for the LWW structures — every pair of operation lists compared with a plain
//! reference model of "greatest clock wins, insert beats remove at a tie".

use mcx::report::{Ctx, Violation, Violations};
use mcx::sweep::{self, ItemOut, NoPanic, Stats};
use radicle_crdt::{GMap, GSet, LWWMap, LWWReg, LWWSet, Max, Min, Redactable, Semilattice};
use serde_json::{json, Value};
use std::fmt::Debug;

fn dedup<T: PartialEq>(v: Vec<T>) -> Vec<T> {
    let mut out: Vec<T> = vec![];
    for x in v {
        if !out.contains(&x) {
            out.push(x);
        }
    }
    out
}

/// All three laws on every triple of `values`.
fn laws<T>(name: &'static str, values: &[T]) -> Stats
where
    T: Semilattice + Clone + PartialEq + Debug + Sync,
{
    let n = values.len() as u64;
    sweep::threads(
        n * n * n,
        |i| {
            let (ia, ib, ic) = ((i / (n * n)) as usize, ((i / n) % n) as usize, (i % n) as usize);
            let (a, b, c) = (&values[ia], &values[ib], &values[ic]);
            let mut vs = vec![];
            let wit = || json!({"type": name, "a": format!("{a:?}"), "b": format!("{b:?}"), "c": format!("{c:?}"), "idx": [ia, ib, ic]});
            let ab = a.clone().join(b.clone());
            let ba = b.clone().join(a.clone());
            if ab != ba {
                vs.push(Violation::new(format!("C22/{name}/commutativity"), format!("{name}: a∨b = {ab:?} but b∨a = {ba:?}"), wit()));
            }
            let l = ab.clone().join(c.clone());
            let r = a.clone().join(b.clone().join(c.clone()));
            if l != r {
                vs.push(Violation::new(format!("C22/{name}/associativity"), format!("{name}: (a∨b)∨c = {l:?} but a∨(b∨c) = {r:?}"), wit()));
            }
            let aa = a.clone().join(a.clone());
            if &aa != a {
                vs.push(Violation::new(format!("C22/{name}/idempotence"), format!("{name}: a∨a = {aa:?} ≠ a = {a:?}"), wit()));
            }
            // absorption consequences: (a∨b)∨a == a∨b
            let aba = ab.clone().join(a.clone());
            if aba != ab {
                vs.push(Violation::new(format!("C22/{name}/absorption"), format!("{name}: (a∨b)∨a = {aba:?} ≠ a∨b = {ab:?}"), wit()));
            }
            let distinct = ia != ib && ib != ic && ia != ic;
            let class = if distinct { mcx::fnv64(format!("{name}/{ia}/{ib}/{ic}").as_bytes()) | 1 } else { 0 };
            let outcome = format!("{name}:{}", if ab == *a || ab == *b { "join-is-operand" } else { "join-is-new" });
            ItemOut::new(class, outcome).with(vs)
        },
        None::<NoPanic>,
    )
}

#[derive(Clone, Copy, Debug, PartialEq)]
enum MapOp {
    Insert(u8, u8, u8), // key, value, clock
    Remove(u8, u8),     // key, clock
}

fn map_ops(keys: u8, vals: u8, clocks: u8) -> Vec<MapOp> {
    let mut v = vec![];
    for k in 0..keys {
        for c in 0..clocks {
            for x in 0..vals {
                v.push(MapOp::Insert(k, x, c));
            }
            v.push(MapOp::Remove(k, c));
        }
    }
    v
}

fn apply_map(ops: &[MapOp]) -> LWWMap<u8, Max<u8>, u8> {
    let mut m = LWWMap::default();
    for op in ops {
        match *op {
            MapOp::Insert(k, v, c) => m.insert(k, Max::from(v), c),
            MapOp::Remove(k, c) => m.remove(k, c),
        }
    }
    m
}

fn apply_set(ops: &[MapOp]) -> LWWSet<u8, u8> {
    let mut m = LWWSet::default();
    for op in ops {
        match *op {
            MapOp::Insert(k, _, c) => m.insert(k, c),
            MapOp::Remove(k, c) => m.remove(k, c),
        }
    }
    m
}

/// Reference model: greatest clock wins; at the greatest clock an insert beats a remove; several
/// inserts at the greatest clock merge their values (Max).
fn model_get(ops: &[MapOp], key: u8) -> Option<u8> {
    let top = ops
        .iter()
        .filter_map(|o| match *o {
            MapOp::Insert(k, _, c) | MapOp::Remove(k, c) if k == key => Some(c),
            _ => None,
        })
        .max()?;
    ops.iter()
        .filter_map(|o| match *o {
            MapOp::Insert(k, v, c) if k == key && c == top => Some(v),
            _ => None,
        })
        .max()
}

/// All op lists of length 0..=len, by index.
fn op_list(ops: &[MapOp], len: usize, mut i: u64) -> Vec<MapOp> {
    // lists are indexed: first all of length 0, then 1, ...
    let n = ops.len() as u64;
    let mut l = 0usize;
    let mut count = 1u64;
    while l < len && i >= count {
        i -= count;
        count *= n;
        l += 1;
    }
    let mut out = vec![];
    for _ in 0..l {
        out.push(ops[(i % n) as usize]);
        i /= n;
    }
    out
}

fn n_lists(n_ops: u64, len: usize) -> u64 {
    (0..=len as u32).map(|l| n_ops.pow(l)).sum()
}

/// LWW read semantics: for every pair of op lists (A, B): build both, join, and compare reads
/// with the model over A ++ B. Also singly: build(A) reads == model(A).
fn lww_reads(keys: u8, vals: u8, clocks: u8, len: usize) -> Stats {
    let ops = map_ops(keys, vals, clocks);
    let nl = n_lists(ops.len() as u64, len);
    sweep::threads(
        nl * nl,
        |i| {
            let a = op_list(&ops, len, i / nl);
            let b = op_list(&ops, len, i % nl);
            let mut all = a.clone();
            all.extend(b.iter().copied());
            let mut vs = vec![];
            let wit = || json!({"A": format!("{a:?}"), "B": format!("{b:?}")});
            let m = apply_map(&a).join(apply_map(&b));
            let s = apply_set(&a).join(apply_set(&b));
            let mut tie = false;
            for k in 0..keys {
                let want = model_get(&all, k);
                let got = m.get(&k).map(|v| *v.get());
                if got != want {
                    vs.push(Violation::new("C22/LWWMap/read-greatest-clock", format!("LWWMap key {k}: read {got:?}, model (greatest clock, insert wins ties) says {want:?}"), wit()));
                }
                if m.contains_key(&k) != want.is_some() {
                    vs.push(Violation::new("C22/LWWMap/contains", format!("LWWMap key {k}: contains_key disagrees with model {want:?}"), wit()));
                }
                if s.contains(&k) != want.is_some() {
                    vs.push(Violation::new("C22/LWWSet/read-greatest-clock", format!("LWWSet elem {k}: contains = {}, model says {}", s.contains(&k), want.is_some()), wit()));
                }
                // is there an insert-vs-remove tie at the top clock for this key?
                let top = all.iter().filter_map(|o| match *o { MapOp::Insert(kk, _, c) | MapOp::Remove(kk, c) if kk == k => Some(c), _ => None }).max();
                if let Some(t) = top {
                    let ins = all.iter().any(|o| matches!(*o, MapOp::Insert(kk, _, c) if kk == k && c == t));
                    let rem = all.iter().any(|o| matches!(*o, MapOp::Remove(kk, c) if kk == k && c == t));
                    tie |= ins && rem;
                }
            }
            if m.len() != (0..keys).filter(|k| model_get(&all, *k).is_some()).count() {
                vs.push(Violation::new("C22/LWWMap/len", "LWWMap::len disagrees with model".to_string(), wit()));
            }
            let class = if !a.is_empty() && !b.is_empty() { mcx::fnv64(format!("{a:?}|{b:?}").as_bytes()) | 1 } else { 0 };
            ItemOut::new(class, if tie { "lww:equal-clock-insert-vs-remove" } else { "lww:no-tie" }).with(vs)
        },
        None::<NoPanic>,
    )
}

/// LWWReg read: after any sequence of sets, `get` is the merge of the values written with the
/// greatest clock (including the initial one).
fn reg_reads(vals: u8, clocks: u8, len: usize) -> Stats {
    let writes: Vec<(u8, u8)> = (0..vals).flat_map(|v| (0..clocks).map(move |c| (v, c))).collect();
    let n = writes.len() as u64;
    let total = n.pow(len as u32 + 1);
    sweep::threads(
        total,
        |mut i| {
            let mut seq = vec![];
            for _ in 0..=len {
                seq.push(writes[(i % n) as usize]);
                i /= n;
            }
            let mut r: LWWReg<Max<u8>, u8> = LWWReg::new(Max::from(seq[0].0), seq[0].1);
            for (v, c) in &seq[1..] {
                r.set(Max::from(*v), *c);
            }
            let top = seq.iter().map(|w| w.1).max().unwrap();
            let want = seq.iter().filter(|w| w.1 == top).map(|w| w.0).max().unwrap();
            let mut vs = vec![];
            if *r.get().get() != want || *r.clock().get() != top {
                vs.push(Violation::new(
                    "C22/LWWReg/read-greatest-clock",
                    format!("LWWReg after writes {seq:?}: get = {:?} @ {:?}, expected {want} @ {top}", r.get(), r.clock()),
                    json!({"writes": seq}),
                ));
            }
            let ties = seq.iter().filter(|w| w.1 == top).count() > 1;
            ItemOut::new(mcx::fnv64(format!("{seq:?}").as_bytes()) | 1, if ties { "reg:tie-at-top-clock" } else { "reg:unique-top" }).with(vs)
        },
        None::<NoPanic>,
    )
}

fn main() {
    let ctx = Ctx::from_env("C22", "exploration");
    let thorough = ctx.tier == mcx::Tier::Thorough;
    let (vals, clocks): (u8, u8) = if thorough { (3, 3) } else { (2, 3) };
    let keys: u8 = 2;

    // Value universes.
    let maxes: Vec<Max<u8>> = (0..4).map(Max::from).collect();
    let mins: Vec<Min<u8>> = (0..4).map(Min::from).collect();
    let bools = vec![false, true];
    let opts: Vec<Option<Max<u8>>> = std::iter::once(None).chain((0..3).map(|v| Some(Max::from(v)))).collect();
    let units: Vec<Option<()>> = vec![None, Some(())];
    let reds: Vec<Redactable<u8>> = vec![Redactable::Present(0), Redactable::Present(1), Redactable::Present(2), Redactable::Redacted];
    let gsets: Vec<GSet<u8>> = (0..8u8).map(|m| (0..3u8).filter(|b| m & (1 << b) != 0).collect()).collect();
    let mut gmaps: Vec<GMap<u8, Max<u8>>> = vec![];
    for a in 0..=3u8 {
        for b in 0..=3u8 {
            let mut m = GMap::default();
            if a > 0 {
                m.insert(0u8, Max::from(a - 1));
            }
            if b > 0 {
                m.insert(1u8, Max::from(b - 1));
            }
            gmaps.push(m);
        }
    }
    let mut gmaps_red: Vec<GMap<u8, Redactable<u8>>> = vec![];
    for a in 0..=3u8 {
        for b in 0..=3u8 {
            let mut m = GMap::default();
            let val = |x: u8| if x == 3 { Redactable::Redacted } else { Redactable::Present(x - 1) };
            if a > 0 {
                m.insert(0u8, val(a));
            }
            if b > 0 {
                m.insert(1u8, val(b));
            }
            gmaps_red.push(m);
        }
    }
    let regs: Vec<LWWReg<Max<u8>, u8>> = (0..3).flat_map(|v| (0..3).map(move |c| LWWReg::new(Max::from(v), c))).collect();
    let regs_red: Vec<LWWReg<Redactable<u8>, u8>> = reds.iter().flat_map(|v| (0..3).map(move |c| LWWReg::new(*v, c))).collect();
    let regs_opt: Vec<LWWReg<Option<Max<u8>>, u8>> = opts.iter().flat_map(|v| (0..3).map(move |c| LWWReg::new(*v, c))).collect();
    // LWW maps / sets: every value reachable by <= 3 operations (closed enough: per key any
    // (clock, Some/None) register state is reachable by one op).
    let ops = map_ops(keys, vals, clocks);
    let nl = n_lists(ops.len() as u64, 2);
    let lmaps = dedup((0..nl).map(|i| apply_map(&op_list(&ops, 2, i))).collect());
    let lsets = dedup((0..nl).map(|i| apply_set(&op_list(&ops, 2, i))).collect());

    if let Some(w) = ctx.replay_witness() {
        // Replays re-run the whole (cheap) family of the named type and report matching failures.
        let ty = w.get("type").and_then(Value::as_str).unwrap_or("").to_string();
        let mut st = Stats::default();
        st.merge(laws("Max", &maxes));
        st.merge(laws("Min", &mins));
        st.merge(laws("Redactable", &reds));
        st.merge(laws("LWWReg<Max>", &regs));
        st.merge(laws("LWWMap", &lmaps));
        st.merge(laws("LWWSet", &lsets));
        st.merge(lww_reads(keys, vals, clocks, 2));
        let vs: Vec<Violation> = st.violations.by_fp.into_iter().filter(|(fp, _)| ty.is_empty() || fp.contains(&ty)).map(|(_, (mut w, _))| w.remove(0)).collect();
        ctx.finish_replay(vs);
    }

    let mut st = Stats::default();
    st.merge(laws("Max", &maxes));
    st.merge(laws("Min", &mins));
    st.merge(laws("bool", &bools));
    st.merge(laws("Option<Max>", &opts));
    st.merge(laws("Option<()>", &units));
    st.merge(laws("Redactable", &reds));
    st.merge(laws("GSet", &gsets));
    st.merge(laws("GMap<Max>", &gmaps));
    st.merge(laws("GMap<Redactable>", &gmaps_red));
    st.merge(laws("LWWReg<Max>", &regs));
    st.merge(laws("LWWReg<Redactable>", &regs_red));
    st.merge(laws("LWWReg<Option<Max>>", &regs_opt));
    st.merge(laws("LWWMap", &lmaps));
    st.merge(laws("LWWSet", &lsets));
    st.merge(lww_reads(keys, vals, clocks, if thorough { 3 } else { 2 }));
    st.merge(reg_reads(3, 3, if thorough { 4 } else { 3 }));

    let samples = vec![
        json!({"type": "LWWMap", "a": format!("{:?}", lmaps[lmaps.len() / 2]), "b": format!("{:?}", lmaps[lmaps.len() / 3]), "c": format!("{:?}", lmaps[lmaps.len() - 1])}),
        json!({"type": "LWWSet", "ops": format!("{:?}", op_list(&ops, 2, nl - 1))}),
        json!({"type": "LWWReg<Redactable>", "a": format!("{:?}", regs_red[5])}),
    ];
    let mut cov = st.coverage(
        "every triple of values of each CRDT type over keys {0,1}, clocks {0,1,2}, small value sets (universes closed under insert/remove/set), \
         plus every pair of LWW operation lists against the greatest-clock reference model; a triple is non-trivial when its three values are pairwise distinct, \
         an op-list pair when both lists are non-empty; distinct = distinct (type, index triple) / distinct op-list pair",
        samples,
    );
    cov.insert("universe_sizes".into(), json!({"LWWMap": lmaps.len(), "LWWSet": lsets.len(), "GMap": gmaps.len(), "LWWReg": regs.len()}));
    let violations: Violations = std::mem::take(&mut st.violations);
    ctx.finish(cov, &["PartialEq/Debug of the CRDT types are the observation", "values outside the small domains are not covered"], violations);
}
