//! Shared environment for the COB-operation checks C04 / C07 / C08 (included with
//! `#[path = "../cobops.rs"] mod cobops;`).
//!
//! Nothing in here models the code under test. It provides
//! * fixed keys, synthetic entry ids, a fixed commit time;
//! * `EnvRepo`, a table-driven `ReadRepository` that answers exactly the three questions
//!   `Issue::op` / `Patch::op` ask of their repository (identity document at a commit, default
//!   branch head of a namespace, ancestry of two commits) from tables snapshotted off a real
//!   repository; every other method is a harness panic (= machinery error), so an unanswered
//!   question can never pass silently;
//! * real on-disk repositories (`Repository::init`) and the *comb* materialiser that writes an
//!   in-memory history as real signed COB commits so that `radicle_cob::get` evaluates the
//!   operations in the same order (conformance replays);
//! * JSON canonicalisation with symbolic object names.
#![allow(dead_code)]

use std::collections::{BTreeMap, BTreeSet};
use std::path::{Path, PathBuf};

use nonempty::NonEmpty;
use radicle::cob::{self, change::Storage as _};
use radicle::crypto::test::signer::MockSigner;
use radicle::crypto::{PublicKey, Verified};
use radicle::git::{self, Oid, Qualified};
use radicle::identity::doc::{Doc, DocAt, DocError};
use radicle::identity::{project::Project, RawDoc, RepoId, Visibility};
use radicle::node::device::Device;
use radicle::node::Alias;
use radicle::prelude::Did;
use radicle::storage::git::{Repository, Storage};
use radicle::storage::refs::{Refs, RefsAt};
use radicle::storage::{
    self, ReadRepository, RemoteId, RemoteRepository, Remotes, RepositoryError, ValidateRepository, Validations,
};
use serde_json::Value;

/// Commit / operation time of everything the harness writes (seconds).
pub const T0: u64 = 1_700_000_000;

/// Must be called first thing in `main`, before any thread exists: commit times of COB changes
/// are taken from this process-global variable; a constant makes every change carry the same
/// timestamp so that evaluation order is decided by entry ids only (which the comb controls).
pub fn init_env() {
    std::env::set_var("GIT_COMMITTER_DATE", T0.to_string());
    std::env::set_var("GIT_AUTHOR_DATE", T0.to_string());
}

pub fn dev(seed: u8) -> Device<MockSigner> {
    Device::mock_from_seed([seed; 32])
}

/// Synthetic entry id number `n` (in-memory operations are not commits).
pub fn syn_oid(n: u32) -> Oid {
    let mut b = [0u8; 20];
    b[0] = 0xc0;
    b[1] = 0xb0;
    b[16..20].copy_from_slice(&n.to_be_bytes());
    Oid::from(git2::Oid::from_bytes(&b).expect("20 bytes"))
}

pub fn project_doc(delegates: &[PublicKey], threshold: usize) -> Doc {
    let proj = Project::new("acme".try_into().expect("name"), "Acme's repository".to_string(), git::refname!("master")).expect("project");
    RawDoc::new(proj, delegates.iter().map(Did::from).collect(), threshold, Visibility::Public).verified().expect("valid document")
}

// ---------------------------------------------------------------------------------------------
// Table-driven repository environment
// ---------------------------------------------------------------------------------------------

#[derive(Clone, Debug)]
pub struct EnvRepo {
    pub rid: RepoId,
    /// Identity document found at an identity commit.
    pub docs: BTreeMap<Oid, DocAt>,
    /// Head of `refs/heads/master` in a namespace.
    pub heads: BTreeMap<PublicKey, Oid>,
    /// Commits that exist.
    pub commits: BTreeSet<Oid>,
    /// Strict ancestry: (ancestor, descendant).
    pub ancestry: BTreeSet<(Oid, Oid)>,
}

fn unanswered(what: &str) -> ! {
    panic!("EnvRepo: the code under test asked `{what}`, which the environment tables do not answer")
}

impl RemoteRepository for EnvRepo {
    fn remote(&self, _remote: &RemoteId) -> Result<storage::Remote<Verified>, storage::refs::Error> {
        unanswered("remote")
    }
    fn remotes(&self) -> Result<Remotes<Verified>, storage::refs::Error> {
        unanswered("remotes")
    }
    fn remote_refs_at(&self) -> Result<Vec<RefsAt>, storage::refs::Error> {
        unanswered("remote_refs_at")
    }
}

impl ValidateRepository for EnvRepo {
    fn validate_remote(&self, _remote: &storage::Remote<Verified>) -> Result<Validations, storage::Error> {
        unanswered("validate_remote")
    }
}

impl ReadRepository for EnvRepo {
    fn id(&self) -> RepoId {
        self.rid
    }
    fn is_empty(&self) -> Result<bool, git2::Error> {
        unanswered("is_empty")
    }
    fn path(&self) -> &Path {
        unanswered("path")
    }
    fn blob_at<P: AsRef<Path>>(&self, _commit: Oid, _path: P) -> Result<git2::Blob, git::ext::Error> {
        unanswered("blob_at")
    }
    fn blob(&self, _oid: Oid) -> Result<git2::Blob, git::ext::Error> {
        unanswered("blob")
    }
    fn head(&self) -> Result<(Qualified, Oid), RepositoryError> {
        unanswered("head")
    }
    fn canonical_head(&self) -> Result<(Qualified, Oid), RepositoryError> {
        unanswered("canonical_head")
    }
    fn identity_head(&self) -> Result<Oid, RepositoryError> {
        unanswered("identity_head")
    }
    fn identity_head_of(&self, _remote: &RemoteId) -> Result<Oid, git::ext::Error> {
        unanswered("identity_head_of")
    }
    fn identity_root(&self) -> Result<Oid, RepositoryError> {
        unanswered("identity_root")
    }
    fn identity_root_of(&self, _remote: &RemoteId) -> Result<Oid, RepositoryError> {
        unanswered("identity_root_of")
    }
    fn canonical_identity_head(&self) -> Result<Oid, RepositoryError> {
        unanswered("canonical_identity_head")
    }
    fn reference(&self, _remote: &RemoteId, _reference: &Qualified) -> Result<git2::Reference, git::ext::Error> {
        unanswered("reference")
    }
    fn commit(&self, _oid: Oid) -> Result<git2::Commit, git::ext::Error> {
        unanswered("commit")
    }
    fn revwalk(&self, _head: Oid) -> Result<git2::Revwalk, git2::Error> {
        unanswered("revwalk")
    }
    fn contains(&self, oid: Oid) -> Result<bool, git2::Error> {
        Ok(self.commits.contains(&oid))
    }
    fn is_ancestor_of(&self, ancestor: Oid, head: Oid) -> Result<bool, git::ext::Error> {
        if !self.commits.contains(&ancestor) || !self.commits.contains(&head) {
            unanswered("is_ancestor_of(unknown commit)");
        }
        Ok(self.ancestry.contains(&(ancestor, head)))
    }
    fn reference_oid(&self, remote: &RemoteId, reference: &Qualified) -> Result<Oid, git::raw::Error> {
        if reference.as_str() != "refs/heads/master" {
            unanswered("reference_oid(other than refs/heads/master)");
        }
        self.heads.get(remote).copied().ok_or_else(|| {
            git::raw::Error::new(git::raw::ErrorCode::NotFound, git::raw::ErrorClass::Reference, format!("could not find {reference} for {remote}"))
        })
    }
    fn references_of(&self, _remote: &RemoteId) -> Result<Refs, storage::Error> {
        unanswered("references_of")
    }
    fn references_glob(&self, _pattern: &git::PatternStr) -> Result<Vec<(Qualified, Oid)>, git::ext::Error> {
        unanswered("references_glob")
    }
    fn identity_doc_at(&self, head: Oid) -> Result<DocAt, DocError> {
        match self.docs.get(&head) {
            Some(d) => Ok(d.clone()),
            None => unanswered("identity_doc_at(unknown identity commit)"),
        }
    }
    fn merge_base(&self, _left: &Oid, _right: &Oid) -> Result<Oid, git::ext::Error> {
        unanswered("merge_base")
    }
}

// ---------------------------------------------------------------------------------------------
// Real repositories
// ---------------------------------------------------------------------------------------------

pub fn storage_at(dir: &Path, key: PublicKey) -> Storage {
    Storage::open(dir.join("storage"), git::UserInfo { alias: Alias::new("harness"), key }).expect("storage")
}

/// Create a real repository whose identity starts with `doc`, founded by `founder` (who must be
/// the first delegate). Returns the repository and the identity root commit.
pub fn init_repo(storage: &Storage, doc: &Doc, founder: &Device<MockSigner>) -> (Repository, Oid) {
    Repository::init(doc, storage, founder).expect("Repository::init")
}

pub fn repo_path(storage: &Storage, rid: &RepoId) -> PathBuf {
    radicle::storage::git::paths::repository(storage, rid)
}

pub fn copy_dir(src: &Path, dst: &Path) {
    std::fs::create_dir_all(dst).expect("mkdir");
    for e in std::fs::read_dir(src).expect("read_dir") {
        let e = e.expect("dirent");
        let (from, to) = (e.path(), dst.join(e.file_name()));
        if e.file_type().expect("file type").is_dir() {
            copy_dir(&from, &to);
        } else {
            std::fs::copy(&from, &to).expect("copy");
        }
    }
}

/// An empty commit with the given parents (harness-made branch history).
pub fn plain_commit(repo: &Repository, msg: &str, parents: &[Oid]) -> Oid {
    let sig = git2::Signature::new("harness", "harness@localhost", &git2::Time::new(T0 as i64, 0)).expect("sig");
    let tree = {
        let tb = repo.backend.treebuilder(None).expect("treebuilder");
        repo.backend.find_tree(tb.write().expect("tree")).expect("find tree")
    };
    let ps: Vec<git2::Commit> = parents.iter().map(|p| repo.backend.find_commit(**p).expect("parent")).collect();
    let refs: Vec<&git2::Commit> = ps.iter().collect();
    repo.backend.commit(None, &sig, &sig, msg, &tree, &refs).expect("commit").into()
}

pub fn set_branch_head(repo: &Repository, ns: &PublicKey, oid: Oid) {
    let name = format!("refs/namespaces/{ns}/refs/heads/master");
    repo.backend.reference(&name, *oid, true, "harness").expect("set head");
}

/// Snapshot the answers of the real repository into the tables of an `EnvRepo`.
pub fn snapshot(repo: &Repository, identity_commits: &[Oid], namespaces: &[PublicKey], commits: &[Oid]) -> EnvRepo {
    let mut env = EnvRepo { rid: repo.id, docs: BTreeMap::new(), heads: BTreeMap::new(), commits: commits.iter().copied().collect(), ancestry: BTreeSet::new() };
    for c in identity_commits {
        env.docs.insert(*c, repo.identity_doc_at(*c).expect("identity_doc_at"));
    }
    let master = git::qualified!("refs/heads/master");
    for ns in namespaces {
        if let Ok(h) = repo.reference_oid(ns, &master) {
            env.heads.insert(*ns, h);
        }
    }
    for a in commits {
        for b in commits {
            if a != b && repo.is_ancestor_of(*a, *b).expect("is_ancestor_of") {
                env.ancestry.insert((*a, *b));
            }
        }
    }
    env
}

// ---------------------------------------------------------------------------------------------
// The comb: a linear history of operations as a real change graph
// ---------------------------------------------------------------------------------------------

/// Writes operations `o1, o2, …` as real signed COB commits such that `ChangeGraph::evaluate`
/// visits them in exactly this order: every operation is a child of the *spine tip* (the last
/// operation that was applied successfully, initially the root); an operation that failed stays a
/// leaf, so nothing later depends on it (it is pruned alone — exactly the situation in which an
/// in-place application leaves its trace). All changes carry the same timestamp, so the visiting
/// order among the children of one node is decided by the entry ids: ascending among the children
/// of an inner node (`Dag::visit_by` with the chronological order), and — because `evaluate`
/// passes the root's dependents in key order and `prune_by` pushes each sub-walk to the *front* —
/// descending among the children of the root. The commit message carries a salt that is
/// incremented until the new entry id falls on the required side of its already written siblings.
pub struct Comb<'a> {
    pub repo: &'a Repository,
    pub type_name: cob::TypeName,
    pub root: Oid,
    tip: Oid,
    siblings: Vec<Oid>,
    leaves: Vec<Oid>,
    pub written: Vec<Oid>,
    pub salt_attempts: u64,
}

impl<'a> Comb<'a> {
    pub fn new(repo: &'a Repository, type_name: cob::TypeName, root: Oid) -> Self {
        Comb { repo, type_name, root, tip: root, siblings: vec![], leaves: vec![], written: vec![], salt_attempts: 0 }
    }

    /// Write a root change (no tips). Returns its entry id.
    pub fn write_root(repo: &Repository, type_name: &cob::TypeName, resource: Option<Oid>, signer: &Device<MockSigner>, actions: Vec<Vec<u8>>, embeds: Vec<cob::Embed<Oid>>) -> Oid {
        let contents = NonEmpty::from_vec(actions).expect("actions");
        let entry = repo
            .store(resource, vec![], signer, cob::change::Template { type_name: type_name.clone(), tips: vec![], message: "root".to_string(), embeds, contents })
            .expect("store root");
        entry.id
    }

    /// Append the next operation; `applied` says whether it was applied successfully in memory
    /// (then it becomes the new spine tip).
    pub fn push(&mut self, resource: Option<Oid>, signer: &Device<MockSigner>, actions: Vec<Vec<u8>>, embeds: Vec<cob::Embed<Oid>>, applied: bool) -> Oid {
        let contents = NonEmpty::from_vec(actions).expect("actions");
        let n = self.written.len();
        // The new id must fall on the required side of its already written siblings. Taking any
        // such id would halve the remaining id space at every sibling (and the expected number of
        // attempts would diverge), so a small batch is written and the admissible id closest to the
        // siblings is kept.
        let at_root = self.tip == self.root;
        let batch = if self.siblings.is_empty() { 1 } else { 6 };
        let mut salt = 0u32;
        let mut best: Option<Oid> = None;
        let id = loop {
            for _ in 0..batch {
                let entry = self
                    .repo
                    .store(
                        resource,
                        vec![],
                        signer,
                        cob::change::Template { type_name: self.type_name.clone(), tips: vec![self.tip], message: format!("op {n} salt {salt}"), embeds: embeds.clone(), contents: contents.clone() },
                    )
                    .expect("store change");
                self.salt_attempts += 1;
                salt += 1;
                let ok = if at_root { self.siblings.iter().all(|s| entry.id < *s) } else { self.siblings.iter().all(|s| entry.id > *s) };
                if ok {
                    best = Some(match best {
                        None => entry.id,
                        Some(b) => {
                            if at_root {
                                b.max(entry.id)
                            } else {
                                b.min(entry.id)
                            }
                        }
                    });
                }
            }
            if let Some(b) = best {
                break b;
            }
            if salt > 500_000 {
                panic!("comb: salt search did not converge");
            }
        };
        self.written.push(id);
        if applied {
            self.tip = id;
            self.siblings.clear();
        } else {
            self.siblings.push(id);
            self.leaves.push(id);
        }
        id
    }

    /// Point one reference per tip at the graph (namespaces from `pool`), evaluate with `f`, and
    /// remove the references again.
    pub fn with_published<T>(&self, object: &cob::ObjectId, pool: &[PublicKey], restore: Option<(&PublicKey, Oid)>, f: impl FnOnce() -> T) -> T {
        let mut tips: Vec<Oid> = self.leaves.clone();
        tips.push(self.tip);
        if tips.len() > pool.len() {
            panic!("comb: namespace pool too small ({} tips)", tips.len());
        }
        for (ns, tip) in pool.iter().zip(&tips) {
            cob::object::Storage::update(self.repo, ns, &self.type_name, object, tip).expect("update ref");
        }
        let out = f();
        for (ns, _) in pool.iter().zip(&tips) {
            match restore {
                Some((keep, at)) if keep == ns => cob::object::Storage::update(self.repo, ns, &self.type_name, object, &at).expect("restore ref"),
                _ => cob::object::Storage::remove(self.repo, ns, &self.type_name, object).expect("remove ref"),
            }
        }
        out
    }
}

pub fn encode_action<A: serde::Serialize>(a: &A) -> Vec<u8> {
    cob::store::encoding::encode(a).expect("encode action")
}

// ---------------------------------------------------------------------------------------------
// JSON canonicalisation
// ---------------------------------------------------------------------------------------------

/// Serialize `v`, replace every known object id by its symbolic name, drop the keys in `drop`,
/// sort object keys and the arrays stored under the keys in `sets`.
pub fn canon_json<T: serde::Serialize>(v: &T, names: &[(String, String)], drop: &[&str], sets: &[&str]) -> Value {
    let mut s = serde_json::to_string(v).expect("serialize");
    for (from, to) in names {
        if s.contains(from.as_str()) {
            s = s.replace(from.as_str(), to.as_str());
        }
    }
    let val: Value = serde_json::from_str(&s).expect("reparse");
    normalise(val, drop, sets, false)
}

fn normalise(v: Value, drop: &[&str], sets: &[&str], sort_here: bool) -> Value {
    match v {
        Value::Object(m) => {
            let mut out: BTreeMap<String, Value> = BTreeMap::new();
            for (k, x) in m {
                if drop.contains(&k.as_str()) {
                    continue;
                }
                let is_set = sets.contains(&k.as_str());
                out.insert(k, normalise(x, drop, sets, is_set));
            }
            Value::Object(out.into_iter().collect())
        }
        Value::Array(a) => {
            let mut items: Vec<Value> = a.into_iter().map(|x| normalise(x, drop, sets, sort_here)).collect();
            if sort_here {
                items.sort_by_key(|x| x.to_string());
            }
            Value::Array(items)
        }
        other => other,
    }
}

/// Fast canonical text of an in-memory object: serde JSON with every `"timeline":[…]` array
/// removed, the items of every `"conflicts":[…]` array sorted (they come out of a `HashMap`), and
/// known ids replaced by symbolic names. Map keys are *not* re-sorted: in memory the ids are
/// synthetic and increase with creation order, so `BTreeMap` order already is creation order.
/// (The slower `canon_json` is used when a real repository is on the other side.)
pub fn fast_view<T: serde::Serialize>(v: &T, names: &[(String, String)]) -> String {
    let mut s = serde_json::to_string(v).expect("serialize");
    cut_arrays(&mut s, "\"timeline\":[", false);
    for (from, to) in names {
        if s.contains(from.as_str()) {
            s = s.replace(from.as_str(), to.as_str());
        }
    }
    cut_arrays(&mut s, "\"conflicts\":[", true);
    s
}

/// For every occurrence of `open` (which ends with `[`): find the matching `]`; either remove the
/// content (`sort == false`) or sort its top-level items.
fn cut_arrays(s: &mut String, open: &str, sort: bool) {
    let mut from = 0;
    while let Some(pos) = s[from..].find(open) {
        let start = from + pos + open.len();
        let bytes = s.as_bytes();
        let (mut depth, mut i, mut in_str) = (1usize, start, false);
        let mut items: Vec<(usize, usize)> = vec![];
        let mut item_start = start;
        while i < bytes.len() {
            let b = bytes[i];
            if in_str {
                if b == b'\\' {
                    i += 1;
                } else if b == b'"' {
                    in_str = false;
                }
            } else {
                match b {
                    b'"' => in_str = true,
                    b'[' | b'{' => depth += 1,
                    b']' | b'}' => {
                        depth -= 1;
                        if depth == 0 {
                            break;
                        }
                    }
                    b',' if depth == 1 => {
                        items.push((item_start, i));
                        item_start = i + 1;
                    }
                    _ => {}
                }
            }
            i += 1;
        }
        let end = i; // index of the closing bracket
        if end > item_start {
            items.push((item_start, end));
        }
        let replacement = if sort {
            let mut v: Vec<&str> = items.iter().map(|(a, b)| &s[*a..*b]).collect();
            v.sort();
            v.join(",")
        } else {
            String::new()
        };
        let new_end = start + replacement.len();
        s.replace_range(start..end, &replacement);
        from = new_end;
    }
}

pub fn hex(o: &Oid) -> String {
    o.to_string()
}
