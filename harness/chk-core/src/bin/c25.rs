//! C25 — The sync `Announcer` and `Fetcher` report success exactly when their target is met, never
//! count or hand out the local node, and the fetcher never hands out a node that already has a result.
//!
//! Engine A, two machines. A history starts with a configuration event (every subset of the node
//! universe for every set-valued parameter, every replication factor), followed by result / query
//! events over the universe {L (local), a, b, c, u (never mentioned in a configuration)}.
//! `timed_out()` / `can_continue()` / `finish()` consume the object and are terminal events.
//!
//! Reference model: the *set* `S` of nodes reported synced / fetched-ok, excluding the local node
//! (for the announcer also the nodes the configuration declares already synced). With the target
//! `(T, ρ)` read from the object's own `target()`:
//!     P = T ≠ ∅ ∧ T ⊆ S,    R = |S| ≥ upper(ρ) if ρ is a range else |S| ≥ lower(ρ)
//!     conjunctive reading  C = (T = ∅ ∨ T ⊆ S) ∧ R,     disjunctive reading  D = P ∨ R
//! A verdict `v` is accepted iff `v = C` or `v = D` (the statement's gloss and the two types'
//! documentation differ in how P and R combine; a verdict matching neither reading is a violation).
//! Since the statement makes the verdict a function of what has been reached, a verdict may not
//! change while `S` is unchanged. Neither type is `Clone`: states are rebuilt by replaying.

use mcx::explore::{self, Bounds, Result_, StepOut, System};
use mcx::report::{Ctx, Violation};
use radicle::node::device::Device;
use radicle::node::sync::announce::{Announcer, AnnouncerConfig, AnnouncerError, AnnouncerResult};
use radicle::node::sync::fetch::{Candidate, Fetcher, FetcherConfig, FetcherError, FetcherResult};
use radicle::node::sync::ReplicationFactor;
use radicle::node::{Address, FetchResult, NodeId};
use serde::{Deserialize, Serialize};
use serde_json::{json, Value};
use std::collections::{BTreeSet, HashSet};
use std::ops::ControlFlow;
use std::sync::OnceLock;

const NAMES: [&str; 5] = ["L", "a", "b", "c", "u"];
const L: u8 = 0;

fn nid(i: u8) -> NodeId {
    static IDS: OnceLock<Vec<NodeId>> = OnceLock::new();
    IDS.get_or_init(|| (0..5u8).map(|k| *Device::mock_from_seed([40 + k; 32]).public_key()).collect())[i as usize]
}

fn idx(n: &NodeId) -> u8 {
    (0..5u8).find(|i| nid(*i) == *n).expect("node of the universe")
}

fn set_of(mask: u8) -> BTreeSet<NodeId> {
    (0..4u8).filter(|i| mask & (1 << i) != 0).map(nid).collect()
}

fn names(s: &BTreeSet<u8>) -> String {
    s.iter().map(|i| NAMES[*i as usize]).collect::<Vec<_>>().join("")
}

#[derive(Clone, Copy, Debug, PartialEq, Eq, PartialOrd, Ord, Serialize, Deserialize)]
enum Rep {
    Must(u8),
    Range(u8, u8),
}

impl Rep {
    fn build(self) -> ReplicationFactor {
        match self {
            Rep::Must(n) => ReplicationFactor::must_reach(n as usize),
            Rep::Range(l, u) => ReplicationFactor::range(l as usize, u as usize),
        }
    }
}

fn reps(max: u8) -> Vec<Rep> {
    let mut v: Vec<Rep> = (0..=max).map(Rep::Must).collect();
    for l in 0..=max {
        for u in l + 1..=max {
            v.push(Rep::Range(l, u)); // range(l, l) is must_reach(l) by construction
        }
    }
    v
}

/// The two readings of "target met", from sets only.
fn readings(t: &BTreeSet<u8>, rho: &ReplicationFactor, s: &BTreeSet<u8>, count: usize) -> (bool, bool) {
    let all_pref = t.is_subset(s);
    let p = !t.is_empty() && all_pref;
    let r = match rho.upper_bound() {
        Some(u) => count >= u,
        None => count >= rho.lower_bound(),
    };
    ((t.is_empty() || all_pref) && r, p || r)
}

fn accepted(v: bool, t: &BTreeSet<u8>, rho: &ReplicationFactor, s: &BTreeSet<u8>) -> bool {
    let (c, d) = readings(t, rho, s, s.len());
    v == c || v == d
}

/// Shared bookkeeping of the reference model.
#[derive(Clone, Default)]
struct Model {
    t: BTreeSet<u8>,
    rho: Option<ReplicationFactor>,
    /// Nodes reported successful, never the local node.
    s: BTreeSet<u8>,
    /// Every success report in order, local node and repetitions included. Used only to *label*
    /// a wrong verdict (which departure from the set semantics would explain it), never to judge.
    ok_reports: Vec<u8>,
    /// Last verdict seen together with the success set it was given for.
    last: Option<(bool, BTreeSet<u8>)>,
}

impl Model {
    /// Would the verdict be explained by counting reports instead of distinct non-local nodes?
    fn explained_by(&self, v: bool, include_local: bool, with_repeats: bool) -> bool {
        let rho = self.rho.as_ref().unwrap();
        let mut nodes: Vec<u8> = self.ok_reports.iter().copied().filter(|n| include_local || *n != L).collect();
        if !with_repeats {
            nodes.sort();
            nodes.dedup();
        }
        let pref = nodes.iter().filter(|n| self.t.contains(n)).count();
        let all_pref = pref >= self.t.len();
        let r = match rho.upper_bound() {
            Some(u) => nodes.len() >= u,
            None => nodes.len() >= rho.lower_bound(),
        };
        let c = (self.t.is_empty() || all_pref) && r;
        let d = (!self.t.is_empty() && all_pref) || r;
        v == c || v == d
    }

    /// Label the cause of a wrong verdict.
    fn cause(&self, v: bool) -> &'static str {
        // When both explanations fit, prefer the repeats one: it does not involve the local node,
        // so a verdict is only attributed to "local node counted" when nothing else explains it.
        if self.explained_by(v, false, true) {
            "repeated-result-counted-twice"
        } else if self.explained_by(v, true, false) {
            "local-node-counted"
        } else if self.explained_by(v, true, true) {
            "local-node-and-repeats-counted"
        } else {
            "unexplained"
        }
    }

    /// Judge one verdict of the real object. `on_local` = the verdict answers a report about the
    /// local node (which, by the statement, changes nothing).
    fn judge(&mut self, machine: &str, at: &str, on_local: bool, v: bool, vs: &mut Vec<Violation>) {
        let rho = self.rho.as_ref().unwrap();
        let (c, d) = readings(&self.t, rho, &self.s, self.s.len());
        let detail = || json!({"T": names(&self.t), "rho": format!("{rho:?}"), "S": names(&self.s), "conjunctive": c, "disjunctive": d, "verdict": v, "at": at});
        if !accepted(v, &self.t, rho, &self.s) {
            let kind = if v { "success-but-target-unmet" } else { "no-success-but-target-met" };
            let cause = match self.cause(v) {
                "unexplained" if on_local => "answer-to-local-node-report",
                c => c,
            };
            vs.push(Violation::new(
                format!("C25/{machine}/verdict/{kind}/{cause}"),
                format!("{machine} {at}: verdict success={v} with T={{{}}} rho={rho:?} S={{{}}} matches neither reading (conjunctive={c}, disjunctive={d})", names(&self.t), names(&self.s)),
                detail(),
            ));
            // A rejected verdict is not remembered (one defect, one report).
            return;
        }
        if let Some((v0, s0)) = &self.last {
            if *s0 == self.s && *v0 != v {
                vs.push(Violation::new(
                    format!("C25/{machine}/verdict-changed-without-new-success/{}", self.cause(v)),
                    format!("{machine} {at}: verdict went {v0} -> {v} although the set of successful nodes S={{{}}} did not change", names(&self.s)),
                    detail(),
                ));
            }
        }
        self.last = Some((v, self.s.clone()));
    }
}

// ───────────────────────────── Announcer ─────────────────────────────

#[derive(Clone, Debug, PartialEq, Eq, PartialOrd, Ord, Serialize, Deserialize)]
enum AEv {
    AnnouncerConfig { preferred: u8, synced: u8, unsynced: u8, replicas: Rep },
    SyncedWith(u8),
    TimedOut,
    CanContinue,
}

#[derive(Clone)]
struct ASpace {
    /// Root menu.
    configs: std::sync::Arc<Vec<AEv>>,
    nodes: Vec<u8>,
}

struct ASys {
    space: ASpace,
    real: Option<Announcer>,
    started: bool,
    m: Model,
}

impl ASys {
    fn new(space: ASpace) -> Self {
        ASys { space, real: None, started: false, m: Model::default() }
    }
    fn handout_check(&self, vs: &mut Vec<Violation>) {
        if let Some(a) = &self.real {
            if a.to_sync().contains(&nid(L)) {
                vs.push(Violation::new("C25/announcer/hands-out-local-node/to_sync", "Announcer::to_sync contains the local node", Value::Null));
            }
        }
    }
}

impl System for ASys {
    type Ev = AEv;

    fn enabled(&self) -> Vec<AEv> {
        if !self.started {
            return self.space.configs.as_ref().clone();
        }
        let mut v: Vec<AEv> = self.space.nodes.iter().map(|n| AEv::SyncedWith(*n)).collect();
        v.push(AEv::TimedOut);
        v.push(AEv::CanContinue);
        v
    }

    fn step(&mut self, ev: &AEv) -> StepOut {
        let mut vs = vec![];
        match *ev {
            AEv::AnnouncerConfig { preferred, synced, unsynced, replicas } => {
                self.started = true;
                let cfg = AnnouncerConfig::public(nid(L), replicas.build(), set_of(preferred), set_of(synced), set_of(unsynced));
                match Announcer::new(cfg) {
                    Err(e) => {
                        let label = match e {
                            AnnouncerError::AlreadySynced(_) => "AlreadySynced",
                            AnnouncerError::NoSeeds => "NoSeeds",
                            AnnouncerError::Target(_) => "Target",
                        };
                        StepOut { violations: vs, outcome: format!("announcer:new:Err({label})"), dead: true }
                    }
                    Ok(a) => {
                        self.m.t = a.target().preferred_seeds().iter().map(idx).collect();
                        self.m.rho = Some(*a.target().replicas());
                        // Nodes the configuration declares already synced are synced (never the local node).
                        self.m.s = (1..4u8).filter(|i| synced & (1 << i) != 0).collect();
                        self.m.ok_reports = self.m.s.iter().copied().collect();
                        self.real = Some(a);
                        self.handout_check(&mut vs);
                        StepOut { violations: vs, outcome: "announcer:new:Ok".into(), dead: false }
                    }
                }
            }
            AEv::SyncedWith(n) => {
                let a = self.real.as_mut().expect("configured");
                let before = a.progress();
                let cf = a.synced_with(nid(n), std::time::Duration::from_secs(1));
                let after = a.progress();
                self.m.ok_reports.push(n);
                if n == L {
                    if (before.preferred(), before.synced(), before.unsynced()) != (after.preferred(), after.synced(), after.unsynced()) {
                        vs.push(Violation::new(
                            "C25/announcer/local-node-counted/progress",
                            format!("synced_with(local) changed the counts: {before:?} -> {after:?}"),
                            Value::Null,
                        ));
                    }
                } else {
                    self.m.s.insert(n);
                }
                let v = cf.is_break();
                if let ControlFlow::Break(success) = &cf {
                    if success.synced().contains_key(&nid(L)) {
                        vs.push(Violation::new("C25/announcer/local-node-counted/success-set", "Success::synced contains the local node", Value::Null));
                    }
                }
                self.m.judge("announcer", "synced_with", n == L, v, &mut vs);
                self.handout_check(&mut vs);
                let kind = if n == L { "local" } else if n == 4 { "unknown" } else { "known" };
                StepOut { violations: vs, outcome: format!("announcer:synced_with({kind}):{}", if v { "Break(Success)" } else { "Continue" }), dead: false }
            }
            AEv::TimedOut => {
                let a = self.real.take().expect("configured");
                let res = a.timed_out();
                let (v, label) = match &res {
                    AnnouncerResult::Success(_) => (true, "Success"),
                    AnnouncerResult::TimedOut(_) => (false, "TimedOut"),
                    AnnouncerResult::NoNodes(_) => (false, "NoNodes"),
                };
                if res.synced().contains_key(&nid(L)) {
                    vs.push(Violation::new("C25/announcer/local-node-counted/result-set", "AnnouncerResult::synced contains the local node", Value::Null));
                }
                if let AnnouncerResult::TimedOut(t) = &res {
                    if t.timed_out().contains(&nid(L)) {
                        vs.push(Violation::new("C25/announcer/hands-out-local-node/timed_out", "TimedOut::timed_out contains the local node", Value::Null));
                    }
                }
                self.m.judge("announcer", "timed_out", false, v, &mut vs);
                StepOut { violations: vs, outcome: format!("announcer:timed_out:{label}"), dead: true }
            }
            AEv::CanContinue => {
                let a = self.real.take().expect("configured");
                let label = match a.can_continue() {
                    ControlFlow::Break(_) => "Break(NoNodes)",
                    ControlFlow::Continue(_) => "Continue",
                };
                StepOut { violations: vs, outcome: format!("announcer:can_continue:{label}"), dead: true }
            }
        }
    }

    fn canon(&self) -> Vec<u8> {
        format!("{:?}|{:?}|{}|{}|{:?}", self.real, self.m.last, self.m.ok_reports.contains(&L), self.started, self.m.s).into_bytes()
    }
}

// ───────────────────────────── Fetcher ─────────────────────────────

#[derive(Clone, Debug, PartialEq, Eq, PartialOrd, Ord, Serialize, Deserialize)]
enum FEv {
    FetcherConfig { seeds: u8, extra_candidates: u8, replicas: Rep },
    NextNode,
    NextFetch,
    ReadyToFetch(u8),
    FetchCompleteOk(u8),
    FetchCompleteFailed(u8),
    FetchFailed(u8),
    Finish,
}

#[derive(Clone)]
struct FSpace {
    configs: std::sync::Arc<Vec<FEv>>,
    nodes: Vec<u8>,
    complete_failed: bool,
}

struct FSys {
    space: FSpace,
    real: Option<Fetcher>,
    started: bool,
    m: Model,
    /// Model of the results: who has any result (success or failure).
    has_result: BTreeSet<u8>,
}

impl FSys {
    fn new(space: FSpace) -> Self {
        FSys { space, real: None, started: false, m: Model::default(), has_result: BTreeSet::new() }
    }

    fn handed_out(&self, via: &str, n: &NodeId, vs: &mut Vec<Violation>) {
        let i = idx(n);
        if i == L {
            vs.push(Violation::new(format!("C25/fetcher/hands-out-local-node/{via}"), format!("Fetcher::{via} returned the local node"), Value::Null));
        }
        if self.has_result.contains(&i) {
            vs.push(Violation::new(
                format!("C25/fetcher/hands-out-node-with-result/{via}"),
                format!("Fetcher::{via} returned node {} which already has a result", NAMES[i as usize]),
                Value::Null,
            ));
        }
    }

    /// Record a result in the model; returns whether it is for the local node.
    fn record(&mut self, n: u8, ok: bool) {
        if ok {
            self.m.ok_reports.push(n);
            if n != L {
                self.m.s.insert(n);
            }
        }
        self.has_result.insert(n);
    }
}

fn kind(n: u8) -> &'static str {
    if n == L {
        "local"
    } else if n == 4 {
        "unknown"
    } else {
        "known"
    }
}

impl System for FSys {
    type Ev = FEv;

    fn enabled(&self) -> Vec<FEv> {
        if !self.started {
            return self.space.configs.as_ref().clone();
        }
        let mut v = vec![FEv::NextNode, FEv::NextFetch];
        for n in &self.space.nodes {
            v.push(FEv::ReadyToFetch(*n));
            v.push(FEv::FetchCompleteOk(*n));
            if self.space.complete_failed {
                v.push(FEv::FetchCompleteFailed(*n));
            }
            v.push(FEv::FetchFailed(*n));
        }
        v.push(FEv::Finish);
        v
    }

    fn step(&mut self, ev: &FEv) -> StepOut {
        let mut vs = vec![];
        let counts = |f: &Fetcher| {
            let p = f.progress();
            (p.succeeded(), p.failed(), p.preferred())
        };
        match *ev {
            FEv::FetcherConfig { seeds, extra_candidates, replicas } => {
                self.started = true;
                let extra: Vec<Candidate> = (0..4u8).filter(|i| extra_candidates & (1 << i) != 0).map(|i| Candidate::new(nid(i))).collect();
                let cfg = FetcherConfig::public(set_of(seeds), replicas.build(), nid(L)).with_candidates(extra);
                match Fetcher::new(cfg) {
                    Err(e) => {
                        let label = match e {
                            FetcherError::NoCandidates => "NoCandidates",
                            FetcherError::Target(_) => "Target",
                            _ => "other",
                        };
                        StepOut { violations: vs, outcome: format!("fetcher:new:Err({label})"), dead: true }
                    }
                    Ok(f) => {
                        self.m.t = f.target().preferred_seeds().iter().map(idx).collect();
                        self.m.rho = Some(*f.target().replicas());
                        self.real = Some(f);
                        StepOut { violations: vs, outcome: "fetcher:new:Ok".into(), dead: false }
                    }
                }
            }
            FEv::NextNode => {
                let r = self.real.as_mut().expect("configured").next_node();
                if let Some(n) = &r {
                    self.handed_out("next_node", n, &mut vs);
                }
                StepOut { violations: vs, outcome: format!("fetcher:next_node:{}", if r.is_some() { "Some" } else { "None" }), dead: false }
            }
            FEv::NextFetch => {
                let r = self.real.as_mut().expect("configured").next_fetch();
                if let Some((n, _)) = &r {
                    self.handed_out("next_fetch", n, &mut vs);
                }
                StepOut { violations: vs, outcome: format!("fetcher:next_fetch:{}", if r.is_some() { "Some" } else { "None" }), dead: false }
            }
            FEv::ReadyToFetch(n) => {
                let addr = Address::from(std::net::SocketAddr::from(([10, 0, 0, n + 1], 8776)));
                self.real.as_mut().expect("configured").ready_to_fetch(nid(n), addr);
                StepOut { violations: vs, outcome: format!("fetcher:ready_to_fetch({})", kind(n)), dead: false }
            }
            FEv::FetchCompleteOk(n) | FEv::FetchCompleteFailed(n) => {
                let ok = matches!(ev, FEv::FetchCompleteOk(_));
                let f = self.real.as_mut().expect("configured");
                let before = counts(f);
                let result = if ok { FetchResult::Success { updated: vec![], namespaces: HashSet::new(), clone: false } } else { FetchResult::Failed { reason: "failed".into() } };
                let cf = f.fetch_complete(nid(n), result);
                let after = counts(f);
                let repeat = self.has_result.contains(&n);
                self.record(n, ok);
                if n == L && before != after {
                    vs.push(Violation::new(
                        format!("C25/fetcher/local-node-counted/{}", if ok { "succeeded" } else { "failed" }),
                        format!("fetch_complete(local, {}) changed the counts (succeeded, failed, preferred): {before:?} -> {after:?}", if ok { "ok" } else { "failed" }),
                        Value::Null,
                    ));
                }
                let v = cf.is_break();
                self.m.judge("fetcher", "fetch_complete", n == L, v, &mut vs);
                StepOut {
                    violations: vs,
                    outcome: format!("fetcher:fetch_complete({},{}{}):{}", kind(n), if ok { "ok" } else { "failed" }, if repeat { ",repeat" } else { "" }, if v { "Break(Success)" } else { "Continue" }),
                    dead: false,
                }
            }
            FEv::FetchFailed(n) => {
                let f = self.real.as_mut().expect("configured");
                let before = counts(f);
                f.fetch_failed(nid(n), "unreachable");
                let after = counts(f);
                self.record(n, false);
                if n == L && before != after {
                    vs.push(Violation::new(
                        "C25/fetcher/local-node-counted/failed",
                        format!("fetch_failed(local) changed the counts (succeeded, failed, preferred): {before:?} -> {after:?}"),
                        Value::Null,
                    ));
                }
                StepOut { violations: vs, outcome: format!("fetcher:fetch_failed({})", kind(n)), dead: false }
            }
            FEv::Finish => {
                let f = self.real.take().expect("configured");
                let (v, label) = match f.finish() {
                    FetcherResult::TargetReached(_) => (true, "TargetReached"),
                    FetcherResult::TargetError(_) => (false, "TargetError"),
                };
                self.m.judge("fetcher", "finish", false, v, &mut vs);
                StepOut { violations: vs, outcome: format!("fetcher:finish:{label}"), dead: true }
            }
        }
    }

    fn canon(&self) -> Vec<u8> {
        format!("{:?}|{:?}|{}|{:?}|{:?}|{:?}", self.real, self.m.last, self.started, self.has_result, self.m.s, self.m.ok_reports).into_bytes()
    }
}

// ───────────────────────────── driver ─────────────────────────────

fn merge<E>(acc: &mut Option<Result_<E>>, r: Result_<E>) {
    match acc {
        None => *acc = Some(r),
        Some(a) => {
            a.states += r.states;
            a.transitions += r.transitions;
            a.paths_executed += r.paths_executed;
            a.events_executed += r.events_executed;
            a.completed_depth = a.completed_depth.min(r.completed_depth);
            a.exhaustive &= r.exhaustive;
            for (i, n) in r.frontier_sizes.iter().enumerate() {
                if i < a.frontier_sizes.len() {
                    a.frontier_sizes[i] += n;
                } else {
                    a.frontier_sizes.push(*n);
                }
            }
            for (k, v) in r.outcomes {
                *a.outcomes.entry(k).or_insert(0) += v;
            }
            a.violations.merge(r.violations);
            if a.samples.len() < 3 {
                a.samples.extend(r.samples.into_iter().take(1));
            }
            a.reexpanded += r.reexpanded;
        }
    }
}

struct FetcherRun {
    name: &'static str,
    mask_bits: u8,
    nodes: Vec<u8>,
    rep_max: u8,
    /// Events after the configuration event.
    depth: usize,
    complete_failed: bool,
}

fn f_configs(run: &FetcherRun, seeds: Option<u8>) -> Vec<FEv> {
    let mut v = vec![];
    for s in 0..(1u8 << run.mask_bits) {
        if seeds.is_some_and(|x| x != s) {
            continue;
        }
        for e in 0..(1u8 << run.mask_bits) {
            for r in reps(run.rep_max) {
                v.push(FEv::FetcherConfig { seeds: s, extra_candidates: e, replicas: r });
            }
        }
    }
    v
}

fn main() {
    let ctx = Ctx::from_env("C25", "model_checking");
    let thorough = ctx.tier == mcx::Tier::Thorough;

    // Announcer: cheap enough for the full space in both tiers: every (preferred, synced, unsynced)
    // triple of subsets of {L,a,b,c}, every replication factor up to 3, five events over {L,a,b,c,u}.
    let a_nodes: Vec<u8> = vec![0, 1, 2, 3, 4];
    let a_masks: Vec<u8> = (0..16u8).collect();
    let a_reps = reps(3);
    let a_depth = 1 + 5;
    let a_configs = |pref: Option<u8>| -> Vec<AEv> {
        let mut v = vec![];
        for &p in &a_masks {
            if pref.is_some_and(|x| x != p) {
                continue;
            }
            for &s in &a_masks {
                for &u in &a_masks {
                    for &r in &a_reps {
                        v.push(AEv::AnnouncerConfig { preferred: p, synced: s, unsynced: u, replicas: r });
                    }
                }
            }
        }
        v
    };

    // Fetcher: the state space grows ~14x per event, so depth and universe are traded off:
    //   small  = configurable nodes {L,a,b}, universe {L,a,b,u}, replication factors <= 2, 4 events;
    //   large  = configurable nodes {L,a,b,c}, universe {L,a,b,c,u}, replication factors <= 3, 3 events.
    let mut f_runs = vec![FetcherRun { name: "small-universe", mask_bits: 3, nodes: vec![0, 1, 2, 4], rep_max: 2, depth: 4, complete_failed: thorough }];
    if thorough {
        f_runs.push(FetcherRun { name: "large-universe", mask_bits: 4, nodes: vec![0, 1, 2, 3, 4], rep_max: 3, depth: 3, complete_failed: true });
    }

    if let Some(w) = ctx.replay_witness() {
        // Replay menus are irrelevant (the history names its own configuration).
        let h = w.get("history").cloned().unwrap_or(Value::Null);
        if serde_json::from_value::<Vec<AEv>>(h.clone()).is_ok() {
            let sp = ASpace { configs: std::sync::Arc::new(vec![]), nodes: a_nodes.clone() };
            ctx.finish_replay(explore::replay::<ASys>("C25", move || ASys::new(sp.clone()), &w));
        }
        let sp = FSpace { configs: std::sync::Arc::new(vec![]), nodes: a_nodes.clone(), complete_failed: true };
        ctx.finish_replay(explore::replay::<FSys>("C25", move || FSys::new(sp.clone()), &w));
    }

    // Announcer: one exploration per preferred-seed mask (bounds the state table).
    let mut a_acc: Option<Result_<AEv>> = None;
    for &p in &a_masks {
        let sp = ASpace { configs: std::sync::Arc::new(a_configs(Some(p))), nodes: a_nodes.clone() };
        merge(&mut a_acc, explore::explore("C25", move || ASys::new(sp.clone()), Bounds::new(a_depth, 0).wall_secs(600)));
    }
    let a_res = a_acc.unwrap();

    // Fetcher: one exploration per run and seed mask.
    let mut f_acc: Option<Result_<FEv>> = None;
    let mut f_detail = serde_json::Map::new();
    for run in &f_runs {
        let mut acc: Option<Result_<FEv>> = None;
        for s in 0..(1u8 << run.mask_bits) {
            let sp = FSpace { configs: std::sync::Arc::new(f_configs(run, Some(s))), nodes: run.nodes.clone(), complete_failed: run.complete_failed };
            merge(&mut acc, explore::explore("C25", move || FSys::new(sp.clone()), Bounds::new(1 + run.depth, 0).wall_secs(900)));
        }
        let r = acc.unwrap();
        f_detail.insert(
            run.name.into(),
            json!({"states": r.states, "transitions": r.transitions, "completed_depth": r.completed_depth, "requested_depth": 1 + run.depth, "frontier_sizes": r.frontier_sizes, "configs": f_configs(run, None).len(),
                   "universe": run.nodes.iter().map(|n| NAMES[*n as usize]).collect::<Vec<_>>(), "configurable_nodes": run.mask_bits,
                   "replication_factors": reps(run.rep_max).iter().map(|r| format!("{r:?}")).collect::<Vec<_>>(), "fetch_complete_with_failed_result": run.complete_failed, "exhaustive": r.exhaustive}),
        );
        merge(&mut f_acc, r);
    }
    let f_res = f_acc.unwrap();

    let rule = "a history = one configuration event (announcer: every (preferred, synced, unsynced) triple of subsets of the configurable nodes x every replication factor; \
                fetcher: every (seeds, extra candidates) pair of subsets x every replication factor) followed by up to D events over the node universe incl. the local node L and the \
                never-configured node u (announcer: synced_with(n), timed_out, can_continue; fetcher: next_node, next_fetch, ready_to_fetch(n), fetch_complete(n, ok|failed), fetch_failed(n), finish); \
                a state is the Debug rendering of the real object plus the model (success set, reports, last verdict); one exploration per preferred/seed mask, counts summed";
    let mut cov = f_res.coverage(rule);
    let a_cov = a_res.coverage(rule);
    // Top-level counters are the sums; per-machine detail below.
    for k in ["states", "transitions", "traces_validated_against_impl", "events_executed_on_impl", "evaluations", "distinct_nontrivial", "violating_instances", "reexpanded_with_fewer_deviations", "self_loop_transitions"] {
        let s = cov.get(k).and_then(Value::as_u64).unwrap_or(0) + a_cov.get(k).and_then(Value::as_u64).unwrap_or(0);
        cov.insert(k.into(), json!(s));
    }
    let mut hist = f_res.outcomes.clone();
    for (k, v) in &a_res.outcomes {
        *hist.entry(k.clone()).or_insert(0) += v;
    }
    cov.insert("outcome_histogram".into(), json!(hist));
    cov.insert("distinct_outcomes".into(), json!(hist.len()));
    cov.insert("exhaustive".into(), json!(a_res.exhaustive && f_res.exhaustive));
    cov.insert("completed_depth".into(), json!(a_res.completed_depth.min(f_res.completed_depth)));
    cov.insert(
        "announcer".into(),
        json!({"states": a_res.states, "transitions": a_res.transitions, "completed_depth": a_res.completed_depth, "requested_depth": a_depth, "frontier_sizes": a_res.frontier_sizes, "configs": a_configs(None).len(),
               "universe": ["L", "a", "b", "c", "u"], "configurable_nodes": 4, "replication_factors": a_reps.iter().map(|r| format!("{r:?}")).collect::<Vec<_>>(), "samples": a_res.samples}),
    );
    cov.insert("fetcher".into(), Value::Object(f_detail));
    let mut violations = f_res.violations;
    violations.merge(a_res.violations);
    ctx.finish(
        cov,
        &[
            "target (preferred set, replication factor) is read from the object's own target() after the constructor's clipping",
            "public configurations only (PrivateNetwork cannot be built without a repository document)",
            "candidate order = configuration order (seeds sorted, then extra candidates sorted by universe index)",
        ],
        violations,
    );
}
