//! C04 — Identity revisions need a majority of valid delegate signatures.
//!
//! Engine A. A state is a history of single-action identity operations applied with the real
//! `store::Cob::op` of `radicle::cob::identity::Identity` to a real in-memory `Identity` (built by
//! `Identity::load` from a real repository that also holds every document blob of the alphabet),
//! exactly as `ChangeGraph::evaluate` applies them: in causal order, an operation whose `op`
//! fails is pruned *and the object stays as the implementation left it*.
//!
//! Oracle (reference model = tables built by the harness: which actor is a delegate of which
//! document, which (actor, blob, signature) triples verify under the raw ed25519 check):
//!   I1  every link X→Y on the chain current→root: a strict majority of delegates(X.doc) have a
//!       signature in `Y.signatures()` that verifies over Y.blob; sub-shape says whether even the
//!       weakest reading ("has submitted a valid signature over that blob in any operation so
//!       far") fails;
//!   I2  `current` stays or moves to a revision whose parent is the old `current`;
//!   I3  a step by a key that is not a delegate of the current document changes nothing;
//!   I4  the current revision is never redacted and its title/description never change.
//! Conformance: violating histories and a deterministic 1-in-N stride of all executed histories
//! are also written as real signed COB commits and evaluated by `Identity::get`; the final states
//! must agree (machinery error otherwise).

#[path = "../cobops.rs"]
mod cobops;

use cobops::*;
use mcx::explore::{self, Bounds, StepOut, System};
use mcx::report::{machinery, Ctx, Violation};
use radicle::cob::identity::{self, Action, Identity, Verdict};
use radicle::cob::store::Cob;
use radicle::cob::{self, Embed, Manifest, ObjectId, Op, Timestamp};
use radicle::crypto::test::signer::MockSigner;
use radicle::crypto::{PublicKey, Signature};
use radicle_crypto::signature::Signer as _;
use radicle::git::Oid;
use radicle::identity::doc::Doc;
use radicle::identity::RepoId;
use radicle::node::device::Device;
use radicle::prelude::Did;
use radicle::storage::git::Repository;
use serde::{Deserialize, Serialize};
use serde_json::{json, Value};
use std::cell::RefCell;
use std::collections::{BTreeMap, BTreeSet};
use std::path::PathBuf;
use std::sync::atomic::{AtomicUsize, Ordering};
use std::sync::{Mutex, OnceLock};

const ACTOR_NAMES: [&str; 7] = ["A", "B", "C", "D", "E", "F", "G"];

#[derive(Clone, Copy, Debug, PartialEq, Eq, PartialOrd, Ord, Serialize, Deserialize)]
enum Sig {
    Valid,
    /// The actor's own signature, over the blob of another document.
    WrongBlob,
    /// Another delegate's (valid) signature over the right blob, submitted under this actor's key.
    WrongKey,
    Garbage,
}
const SIGS: [Sig; 4] = [Sig::Valid, Sig::WrongBlob, Sig::WrongKey, Sig::Garbage];

#[derive(Clone, Copy, Debug, PartialEq, Eq, PartialOrd, Ord, Serialize, Deserialize)]
enum Par {
    /// Parent = the current revision.
    Cur,
    /// Parent = the revision that `current` replaced (a stale parent).
    Prev,
}

/// One action of an operation (revisions named by creation order, 0 = root; `parent` is resolved
/// against the state *before* the operation).
#[derive(Clone, Copy, Debug, PartialEq, Eq, PartialOrd, Ord, Serialize, Deserialize)]
enum Act {
    Propose { doc: u8, parent: Par, sig: Sig },
    Accept { rev: u8, sig: Sig },
    Reject { rev: u8 },
    Edit { rev: u8 },
    Redact { rev: u8 },
}

impl Act {
    fn kind(&self) -> &'static str {
        match self {
            Act::Propose { .. } => "propose",
            Act::Accept { .. } => "accept",
            Act::Reject { .. } => "reject",
            Act::Edit { .. } => "edit",
            Act::Redact { .. } => "redact",
        }
    }
}

/// Actors are indexes: 0..n_del are the delegates of the initial document, n_del is the stranger.
#[derive(Clone, Debug, PartialEq, Eq, PartialOrd, Ord, Serialize, Deserialize)]
enum Ev {
    /// First event: the configuration (number of delegates of the initial document).
    Cfg(u8),
    Propose { by: u8, doc: u8, parent: Par, sig: Sig },
    Accept { by: u8, rev: u8, sig: Sig },
    Reject { by: u8, rev: u8 },
    Edit { by: u8, rev: u8 },
    Redact { by: u8, rev: u8 },
    /// One operation carrying two actions.
    Two { by: u8, a: Act, b: Act },
}

impl Ev {
    fn by(&self) -> u8 {
        match self {
            Ev::Cfg(_) => 0,
            Ev::Propose { by, .. } | Ev::Accept { by, .. } | Ev::Reject { by, .. } | Ev::Edit { by, .. } | Ev::Redact { by, .. } | Ev::Two { by, .. } => *by,
        }
    }
    fn acts(&self) -> Vec<Act> {
        match *self {
            Ev::Cfg(_) => vec![],
            Ev::Propose { doc, parent, sig, .. } => vec![Act::Propose { doc, parent, sig }],
            Ev::Accept { rev, sig, .. } => vec![Act::Accept { rev, sig }],
            Ev::Reject { rev, .. } => vec![Act::Reject { rev }],
            Ev::Edit { rev, .. } => vec![Act::Edit { rev }],
            Ev::Redact { rev, .. } => vec![Act::Redact { rev }],
            Ev::Two { a, b, .. } => vec![a, b],
        }
    }
    fn kind(&self) -> String {
        match self {
            Ev::Cfg(_) => "cfg".to_string(),
            Ev::Two { a, b, .. } => format!("two[{},{}]", a.kind(), b.kind()),
            other => other.acts()[0].kind().to_string(),
        }
    }
}

struct DocInfo {
    doc: Doc,
    blob: Oid,
    delegates: Vec<u8>,
    what: &'static str,
}

struct Fix {
    repo_path: PathBuf,
    rid: RepoId,
    n_del: usize,
    /// Bounds of this configuration (events after `Cfg`).
    depth: usize,
    max_devs: usize,
    actors: Vec<Device<MockSigner>>,
    keys: Vec<PublicKey>,
    docs: Vec<DocInfo>,
    /// Documents offered to `Propose` (indexes into `docs`).
    menu: Vec<u8>,
    max_revs: usize,
    root: Oid,
    initial: Identity,
    /// [actor][doc][sig kind]
    sigs: Vec<Vec<[Signature; 4]>>,
    /// (actor, doc, signature bytes) -> verifies under the raw ed25519 check
    valid: BTreeMap<(u8, u8, Vec<u8>), bool>,
    pool: Vec<PublicKey>,
    /// Some entry, handed to `op` as "a concurrent operation exists" (only its presence is read).
    sibling: cob::Entry,
}

static FIXES: OnceLock<Vec<Fix>> = OnceLock::new();
static BASE: OnceLock<PathBuf> = OnceLock::new();
static STRIDE: OnceLock<u64> = OnceLock::new();
fn fixes() -> &'static [Fix] {
    FIXES.get().expect("fixtures")
}
fn fix_for(n_del: u8) -> &'static Fix {
    fixes().iter().find(|f| f.n_del == n_del as usize).unwrap_or_else(|| die(&format!("no configuration with {n_del} delegates in this run")))
}

thread_local! {
    static REPO: RefCell<BTreeMap<usize, Repository>> = const { RefCell::new(BTreeMap::new()) };
    static WREPO: RefCell<BTreeMap<usize, Repository>> = const { RefCell::new(BTreeMap::new()) };
}
static WCOUNT: AtomicUsize = AtomicUsize::new(0);
static STRIDE_SET: Mutex<BTreeSet<String>> = Mutex::new(BTreeSet::new());

/// Read-only handle on the fixture repository (one per thread; git2 handles are not `Sync`).
fn with_repo<T>(fx: &'static Fix, f: impl FnOnce(&Repository) -> T) -> T {
    REPO.with(|c| {
        let mut c = c.borrow_mut();
        let r = c.entry(fx.n_del).or_insert_with(|| Repository::open(&fx.repo_path, fx.rid).expect("open fixture repository"));
        f(r)
    })
}

/// Private writable copy of the fixture repository (one per thread) for conformance replays.
fn with_wrepo<T>(fx: &'static Fix, f: impl FnOnce(&Repository) -> T) -> T {
    WREPO.with(|c| {
        let mut c = c.borrow_mut();
        let r = c.entry(fx.n_del).or_insert_with(|| {
            let n = WCOUNT.fetch_add(1, Ordering::Relaxed);
            let dst = BASE.get().expect("base").join(format!("w{n}"));
            copy_dir(&fx.repo_path, &dst);
            Repository::open(&dst, fx.rid).expect("open repository copy")
        });
        f(r)
    })
}

fn cleanup() {
    if let Some(b) = BASE.get() {
        let _ = std::fs::remove_dir_all(b);
    }
}

fn die(msg: &str) -> ! {
    cleanup();
    machinery(msg)
}

fn build_fixture(base: &std::path::Path, n_del: usize, menu: Vec<u8>, max_revs: usize, depth: usize, max_devs: usize) -> Fix {
    let base = base.join(format!("n{n_del}"));
    // Actors: seeds 1.. ; the last one is the stranger.
    let actors: Vec<Device<MockSigner>> = (0..=n_del).map(|i| dev(i as u8 + 1)).collect();
    let keys: Vec<PublicKey> = actors.iter().map(|a| *a.public_key()).collect();
    let dels: Vec<u8> = (0..n_del as u8).collect();
    let pk = |ix: &[u8]| ix.iter().map(|i| keys[*i as usize]).collect::<Vec<_>>();
    let mut with_s = dels.clone();
    with_s.push(n_del as u8);
    let specs: Vec<(Vec<u8>, usize, &'static str)> = vec![
        (dels.clone(), 1, "initial"),
        (dels[..n_del - 1].to_vec(), 1, "remove last delegate"),
        (with_s, 1, "add the stranger as delegate"),
        (dels.clone(), 2, "threshold 2"),
    ];
    let storage = storage_at(&base, keys[0]);
    let mut docs = vec![];
    for (d, t, what) in &specs {
        let doc = project_doc(&pk(d), *t);
        let (blob, _) = doc.encode().expect("encode");
        docs.push(DocInfo { doc, blob, delegates: d.clone(), what });
    }
    let (repo, root) = init_repo(&storage, &docs[0].doc, &actors[0]);
    for d in &docs {
        let (_, bytes) = d.doc.encode().expect("encode");
        let oid = repo.backend.blob(&bytes).expect("write blob");
        assert_eq!(Oid::from(oid), d.blob);
    }
    let initial = Identity::get(&ObjectId::from(root), &repo).expect("Identity::get");
    let sibling = radicle::cob::change::Storage::load(&repo, root).expect("load root entry");
    assert_eq!(initial.current, root);
    let rid = repo.id;
    let repo_path = repo_path(&storage, &rid);
    // Signatures and their validity under the raw primitive.
    let mut sigs = vec![];
    let mut valid = BTreeMap::new();
    for (a, actor) in actors.iter().enumerate() {
        let mut per_doc = vec![];
        for (d, info) in docs.iter().enumerate() {
            let other = &docs[(d + 1) % docs.len()];
            let neighbour = &actors[(a + 1) % n_del];
            let four = [
                actor.sign(info.blob.as_bytes()),
                actor.sign(other.blob.as_bytes()),
                neighbour.sign(info.blob.as_bytes()),
                Signature::from([0x42u8; 64]),
            ];
            for s in &four {
                let ok = keys[a].verify(info.blob.as_bytes(), s).is_ok();
                valid.insert((a as u8, d as u8, AsRef::<[u8]>::as_ref(s).to_vec()), ok);
            }
            per_doc.push(four);
        }
        sigs.push(per_doc);
    }
    let mut pool = vec![keys[0]];
    pool.extend((0..12u8).map(|i| *dev(200 + i).public_key()));
    Fix { repo_path, rid, n_del, depth, max_devs, actors, keys, docs, menu, max_revs, root, initial, sigs, valid, pool, sibling }
}

#[derive(Clone)]
struct RevInfo {
    id: Oid,
    doc: u8,
    parent: Option<u8>,
    /// Model: was the link parent → this revision backed by a majority when it became current?
    link_ok: Option<bool>,
}

#[derive(Clone)]
struct Sys {
    /// Configuration, once chosen by the first event.
    f: Option<&'static Fix>,
    /// Graph model: the change graph of this history contains a surviving leaf — an earlier
    /// single-action operation that was refused with `UnexpectedState` while it had no concurrent
    /// operation; now that later operations exist it is their sibling (and, evaluated again, is
    /// itself tolerated instead of refused, which changes nothing as it has one action).
    survivor: bool,
    id: Identity,
    /// Model: revisions by creation order.
    revs: Vec<RevInfo>,
    /// Model: (doc, actor) — the actor has submitted, in some operation so far, a signature that
    /// verifies over that document's blob.
    signed: BTreeSet<(u8, u8)>,
    hist: Vec<Ev>,
    /// Per executed operation: did `op` return Ok, and which revision (creation index) it made.
    applied: Vec<(bool, Option<u8>)>,
}

impl Sys {
    fn new() -> Sys {
        // Placeholder object until `Cfg` picks the configuration.
        let f = &fixes()[0];
        Sys { f: None, survivor: false, id: f.initial.clone(), revs: vec![], signed: BTreeSet::new(), hist: vec![], applied: vec![] }
    }

    fn fx(&self) -> &'static Fix {
        self.f.expect("configured")
    }

    fn configure(&mut self, n_del: u8) {
        let f = fix_for(n_del);
        self.f = Some(f);
        self.id = f.initial.clone();
        self.revs = vec![RevInfo { id: f.root, doc: 0, parent: None, link_ok: None }];
        self.signed.insert((0, 0)); // the founder signed the initial document
    }

    fn rev_ix(&self, id: &Oid) -> Option<u8> {
        self.revs.iter().position(|r| r.id == *id).map(|i| i as u8)
    }

    fn cur_ix(&self) -> u8 {
        self.rev_ix(&self.id.current).expect("current revision is known to the model")
    }

    fn is_delegate_of(&self, rev: u8, actor: u8) -> bool {
        self.fx().docs[self.revs[rev as usize].doc as usize].delegates.contains(&actor)
    }

    fn sig_valid(&self, actor: u8, doc: u8, sig: &Signature) -> bool {
        let f = self.fx();
        match f.valid.get(&(actor, doc, AsRef::<[u8]>::as_ref(sig).to_vec())) {
            Some(v) => *v,
            None => f.keys[actor as usize].verify(f.docs[doc as usize].blob.as_bytes(), sig).is_ok(),
        }
    }

    /// The concrete action of `act` by `by`, with the given id mapping (in-memory or real);
    /// `self` is the state before the operation.
    fn action(&self, by: u8, act: &Act, rev_id: &dyn Fn(u8) -> Oid) -> Action {
        let f = self.fx();
        match act {
            Act::Propose { doc, parent, sig } => Action::Revision {
                title: format!("proposal by {}", ACTOR_NAMES[by as usize]),
                description: String::new(),
                blob: f.docs[*doc as usize].blob,
                parent: Some(rev_id(self.parent_ix(*parent))),
                signature: f.sigs[by as usize][*doc as usize][*sig as usize],
            },
            Act::Accept { rev, sig } => {
                let d = self.revs[*rev as usize].doc;
                Action::RevisionAccept { revision: rev_id(*rev), signature: f.sigs[by as usize][d as usize][*sig as usize] }
            }
            Act::Reject { rev } => Action::RevisionReject { revision: rev_id(*rev) },
            Act::Edit { rev } => Action::RevisionEdit { revision: rev_id(*rev), title: "edited".to_string(), description: "edited".to_string() },
            Act::Redact { rev } => Action::RevisionRedact { revision: rev_id(*rev) },
        }
    }

    fn parent_ix(&self, parent: Par) -> u8 {
        let cur = self.cur_ix();
        match parent {
            Par::Cur => cur,
            Par::Prev => self.revs[cur as usize].parent.expect("Prev enabled only when current has a parent"),
        }
    }

    /// Apply ONE operation carrying `acts` with the real `Identity::op`; update the model's
    /// revision table and signature bits. Returns the result and the revision it created.
    fn apply(&mut self, by: u8, acts: &[Act]) -> (Result<(), identity::ApplyError>, Option<u8>) {
        let f = self.fx();
        let op_id = syn_oid(self.applied.len() as u32 + 1);
        let actions: Vec<Action> = acts.iter().map(|a| self.action(by, a, &|r| self.revs[r as usize].id)).collect();
        let mut proposed: Option<(u8, u8)> = None; // (doc, parent)
        for a in acts {
            match a {
                Act::Propose { doc, parent, sig } => {
                    proposed = Some((*doc, self.parent_ix(*parent)));
                    if self.sig_valid(by, *doc, &f.sigs[by as usize][*doc as usize][*sig as usize]) {
                        self.signed.insert((*doc, by));
                    }
                }
                Act::Accept { rev, sig } => {
                    let d = self.revs[*rev as usize].doc;
                    if self.sig_valid(by, d, &f.sigs[by as usize][d as usize][*sig as usize]) {
                        self.signed.insert((d, by));
                    }
                }
                _ => {}
            }
        }
        let op = Op::new(op_id, nonempty::NonEmpty::from_vec(actions).expect("actions"), f.keys[by as usize], Timestamp::from_secs(T0), None, Manifest::new(identity::TYPENAME.clone(), cob::Version::default()));
        let concurrent: Vec<&cob::Entry> = if self.survivor { vec![&f.sibling] } else { vec![] };
        let result = with_repo(f, |repo| self.id.op(op, concurrent, repo));
        let mut made = None;
        if let Some((doc, parent)) = proposed {
            if self.id.revision(&op_id).is_some() {
                self.revs.push(RevInfo { id: op_id, doc, parent: Some(parent), link_ok: None });
                made = Some(self.revs.len() as u8 - 1);
            }
        }
        self.applied.push((result.is_ok(), made));
        (result, made)
    }

    /// Everything observable of the identity, ids replaced by creation-order names.
    fn snapshot(&self, with_text: bool) -> Vec<u8> {
        let mut out = Vec::with_capacity(256);
        let name = |id: &Oid| self.rev_ix(id).map(|i| i as i16).unwrap_or(-1);
        out.extend_from_slice(&name(&self.id.current).to_le_bytes());
        let f = self.fx();
        for (did, rev) in &self.id.heads {
            let a = f.keys.iter().position(|k| Did::from(k) == *did).map(|i| i as u8).unwrap_or(0xff);
            out.push(a);
            out.extend_from_slice(&name(rev).to_le_bytes());
        }
        out.push(0xfe);
        for r in &self.revs {
            match self.id.revision(&r.id) {
                None => out.push(0xfd),
                Some(rev) => {
                    out.push(rev.state as u8);
                    out.extend_from_slice(&rev.parent.map(|p| name(&p)).unwrap_or(-2).to_le_bytes());
                    for (k, v) in rev.verdicts() {
                        let a = f.keys.iter().position(|x| x == k).map(|i| i as u8).unwrap_or(0xff);
                        out.push(a);
                        match v {
                            Verdict::Reject => out.push(0),
                            Verdict::Accept(s) => out.push(if self.sig_valid(a, r.doc, s) { 1 } else { 2 }),
                        }
                    }
                    out.push(0xfc);
                    if with_text {
                        out.extend_from_slice(rev.title.as_bytes());
                        out.push(0);
                        out.extend_from_slice(rev.description.as_bytes());
                        out.push(0);
                    }
                }
            }
        }
        out
    }

    fn describe(&self) -> Value {
        let f = self.fx();
        let revs: Vec<Value> = self
            .revs
            .iter()
            .enumerate()
            .map(|(i, r)| match self.id.revision(&r.id) {
                None => json!({"rev": i, "redacted": true}),
                Some(rev) => json!({
                    "rev": i, "doc": f.docs[r.doc as usize].what, "state": rev.state.to_string(), "parent": r.parent,
                    "verdicts": rev.verdicts().map(|(k, v)| {
                        let a = f.keys.iter().position(|x| x == k).unwrap_or(99);
                        format!("{}:{}", ACTOR_NAMES.get(a).unwrap_or(&"?"), match v { Verdict::Reject => "reject", Verdict::Accept(s) => if self.sig_valid(a as u8, r.doc, s) { "accept(valid)" } else { "accept(INVALID)" } })
                    }).collect::<Vec<_>>(),
                }),
            })
            .collect();
        let heads: Vec<String> = self.id.heads.iter().map(|(d, r)| {
            let a = f.keys.iter().position(|k| Did::from(k) == *d).unwrap_or(99);
            format!("{}->rev{}", ACTOR_NAMES.get(a).unwrap_or(&"?"), self.rev_ix(r).map(|i| i as i32).unwrap_or(-1))
        }).collect();
        json!({"current": self.cur_ix(), "heads": heads, "revisions": revs})
    }

    /// I1 for the link parent(y) → y: the delegates of the replaced document that have a valid
    /// signature over y's blob in `Revision::signatures()`; `None` if y is redacted.
    fn link_signers(&self, y: u8) -> Option<(u8, Vec<u8>)> {
        let f = self.fx();
        let x = self.revs[y as usize].parent?;
        let dels = &f.docs[self.revs[x as usize].doc as usize].delegates;
        let ydoc = self.revs[y as usize].doc;
        let yrev = self.id.revision(&self.revs[y as usize].id)?;
        let in_state = dels.iter().copied().filter(|d| yrev.signatures().any(|(k, s)| *k == f.keys[*d as usize] && self.sig_valid(*d, ydoc, &s))).collect();
        Some((x, in_state))
    }

    /// I1. A link is judged (and the witness classified) the first time it is seen on the chain
    /// current → root, i.e. after the operation that made it; on every later state the links that
    /// were sound when created are re-judged.
    fn check_i1(&mut self, vs: &mut Vec<Violation>) {
        let f = self.fx();
        let names = |v: &[u8]| v.iter().map(|i| ACTOR_NAMES[*i as usize]).collect::<Vec<_>>().join(",");
        let mut y = self.cur_ix();
        while self.revs[y as usize].parent.is_some() {
            let Some((x, in_state)) = self.link_signers(y) else { break }; // I4 reports a redacted current revision
            let dels = &f.docs[self.revs[x as usize].doc as usize].delegates;
            let ydoc = self.revs[y as usize].doc;
            let sound = in_state.len() * 2 > dels.len();
            if self.revs[y as usize].link_ok.is_none() {
                self.revs[y as usize].link_ok = Some(sound);
                if !sound {
                    let yrev = self.id.revision(&self.revs[y as usize].id).expect("checked by link_signers");
                    let ever: Vec<u8> = dels.iter().copied().filter(|d| self.signed.contains(&(ydoc, *d))).collect();
                    let voters: Vec<u8> = dels.iter().copied().filter(|d| self.id.heads.get(&Did::from(f.keys[*d as usize])) == Some(&self.revs[y as usize].id)).collect();
                    // Why does the implementation's vote count exceed the valid signatures? Classify each
                    // voter that has no valid signature in the state by what this history made it do.
                    let mut reasons: BTreeSet<&'static str> = BTreeSet::new();
                    for v in voters.iter().filter(|v| !in_state.contains(v)) {
                        let verdict_is_reject = yrev.verdicts().any(|(k, vd)| *k == f.keys[*v as usize] && matches!(vd, Verdict::Reject));
                        let bad_accept = self.hist.iter().any(|e| e.by() == *v && e.acts().iter().any(|a| matches!(a, Act::Accept { rev, sig } if *rev == y && *sig != Sig::Valid)));
                        reasons.insert(if bad_accept {
                            "vote-of-pruned-accept-with-invalid-signature-counted"
                        } else if verdict_is_reject && ever.contains(v) {
                            "valid-signature-overwritten-by-failed-duplicate-verdict"
                        } else {
                            "voter-without-signature"
                        });
                    }
                    let primary = ["vote-of-pruned-accept-with-invalid-signature-counted", "valid-signature-overwritten-by-failed-duplicate-verdict", "voter-without-signature"]
                        .into_iter()
                        .find(|r| reasons.contains(r))
                        .unwrap_or(if voters.len() * 2 <= dels.len() { "adopted-with-votes-below-majority" } else { "unclassified" });
                    let reading = if ever.len() * 2 <= dels.len() {
                        "under every reading: fewer than a majority ever submitted a valid signature over this blob"
                    } else {
                        "a majority did submit valid signatures in this history, but Revision::signatures() no longer shows them"
                    };
                    vs.push(Violation::new(
                        format!("C04/I1-majority-of-valid-signatures/{primary}"),
                        format!(
                            "revision rev{y} ({}) replaced rev{x} and became current, but only {} of the {} delegates of the replaced document have a valid signature over its blob in Revision::signatures() [{}] (a strict majority needs {}); counted as votes by `heads`: [{}]; ever submitted a valid signature over that blob: [{}] — {reading}",
                            f.docs[ydoc as usize].what, in_state.len(), dels.len(), names(&in_state), dels.len() / 2 + 1, names(&voters), names(&ever)
                        ),
                        json!({"state": self.describe(), "reasons": reasons, "majority_ever_signed": ever.len() * 2 > dels.len()}),
                    ));
                }
            } else if self.revs[y as usize].link_ok == Some(true) && !sound {
                self.revs[y as usize].link_ok = Some(false);
                vs.push(Violation::new(
                    "C04/I1-majority-of-valid-signatures/accepted-revision-lost-signatures-later".to_string(),
                    format!("accepted revision rev{y} had a majority of valid signatures when it became current but now shows only [{}] of {} delegates", names(&in_state), dels.len()),
                    json!({"state": self.describe()}),
                ));
            }
            y = x;
        }
    }

    /// Materialise this history as real commits and evaluate with `Identity::get`.
    fn conformance(hist: &[Ev]) -> Result<(), String> {
        let Some(Ev::Cfg(n)) = hist.first() else { return Ok(()) };
        let f = fix_for(*n);
        let hist_ops = &hist[1..];
        let mut mem = Sys::new();
        for ev in hist {
            let _ = mem.step(ev);
        }
        let want = {
            let names: Vec<(String, String)> = (0..=hist.len() as u32).map(|i| (hex(&syn_oid(i)), format!("#op{i}"))).collect();
            canon_json(&mem.id, &names, &["timeline"], &[])
        };
        with_wrepo(f, |repo| {
            let mut comb = Comb::new(repo, identity::TYPENAME.clone(), f.root);
            let mut replay = Sys::new(); // supplies `action()` with the model state before each op
            let _ = replay.step(&hist[0]);
            let mut real_ids: Vec<Oid> = vec![f.root]; // revision (creation index) -> real commit
            let mut names: Vec<(String, String)> = vec![];
            for (i, ev) in hist_ops.iter().enumerate() {
                let acts = ev.acts();
                let contents: Vec<Vec<u8>> = acts.iter().map(|a| encode_action(&replay.action(ev.by(), a, &|r| real_ids[r as usize]))).collect();
                let embeds: Vec<Embed<Oid>> = acts
                    .iter()
                    .filter_map(|a| match a {
                        Act::Propose { doc, .. } => Some(Embed { name: "radicle.json".to_string(), content: f.docs[*doc as usize].blob }),
                        _ => None,
                    })
                    .collect();
                let (ok, made) = mem.applied[i];
                let id = comb.push(None, &f.actors[ev.by() as usize], contents, embeds, ok);
                names.push((hex(&id), format!("#op{}", i + 1)));
                if made.is_some() {
                    real_ids.push(id);
                }
                let _ = replay.step(ev);
            }
            let object = ObjectId::from(f.root);
            let got = comb.with_published(&object, &f.pool, Some((&f.keys[0], f.root)), || Identity::get(&object, repo));
            let got = got.map_err(|e| format!("Identity::get failed: {e}"))?;
            let got = canon_json(&got, &names, &["timeline"], &[]);
            if got != want {
                return Err(format!("in-memory application and Identity::get disagree\n in-memory: {want}\n real:      {got}"));
            }
            Ok(())
        })
    }
}

impl System for Sys {
    type Ev = Ev;

    fn enabled(&self) -> Vec<Ev> {
        let Some(f) = self.f else {
            return fixes().iter().map(|f| Ev::Cfg(f.n_del as u8)).collect();
        };
        if self.applied.len() >= f.depth {
            return vec![]; // per-configuration depth bound
        }
        let mut out = vec![];
        let n_act = f.actors.len() as u8;
        let cur = self.cur_ix();
        let has_prev = self.revs[cur as usize].parent.is_some();
        for by in 0..n_act {
            if self.revs.len() < f.max_revs {
                for doc in &f.menu {
                    for parent in [Par::Cur, Par::Prev] {
                        if parent == Par::Prev && !has_prev {
                            continue;
                        }
                        for sig in [Sig::Valid, Sig::WrongBlob] {
                            out.push(Ev::Propose { by, doc: *doc, parent, sig });
                        }
                    }
                }
            }
            for rev in 0..self.revs.len() as u8 {
                for sig in SIGS {
                    out.push(Ev::Accept { by, rev, sig });
                }
                out.push(Ev::Reject { by, rev });
                out.push(Ev::Edit { by, rev });
                out.push(Ev::Redact { by, rev });
            }
            // Two-action operations (every one a deviation). Shapes: [accept|reject, propose],
            // [propose, accept], [accept, accept another], [accept, redact], [edit, accept]; valid
            // signatures, non-root targets, at most one `propose` (two would share the entry id and
            // trip `debug_assert!(!self.revisions.contains_key(&entry))`).
            let targets: Vec<u8> = (1..self.revs.len() as u8).collect();
            let mut proposals = vec![];
            if self.revs.len() < f.max_revs {
                for doc in &f.menu {
                    proposals.push(Act::Propose { doc: *doc, parent: Par::Cur, sig: Sig::Valid });
                    if has_prev {
                        proposals.push(Act::Propose { doc: *doc, parent: Par::Prev, sig: Sig::Valid });
                    }
                }
            }
            for r in &targets {
                let acc = Act::Accept { rev: *r, sig: Sig::Valid };
                for p in &proposals {
                    out.push(Ev::Two { by, a: acc, b: *p });
                    out.push(Ev::Two { by, a: Act::Reject { rev: *r }, b: *p });
                    out.push(Ev::Two { by, a: *p, b: acc });
                }
                for r2 in &targets {
                    if r2 != r {
                        out.push(Ev::Two { by, a: acc, b: Act::Accept { rev: *r2, sig: Sig::Valid } });
                    }
                    out.push(Ev::Two { by, a: acc, b: Act::Redact { rev: *r2 } });
                    out.push(Ev::Two { by, a: Act::Edit { rev: *r2 }, b: acc });
                }
            }
        }
        out
    }

    fn is_deviation(&self, ev: &Ev) -> bool {
        if matches!(ev, Ev::Cfg(_)) {
            return false;
        }
        let f = self.fx();
        if !self.is_delegate_of(self.cur_ix(), ev.by()) {
            return true; // stranger (with respect to the current document)
        }
        match ev {
            Ev::Propose { sig, .. } => *sig != Sig::Valid,
            Ev::Accept { by, rev, sig } => *sig != Sig::Valid || self.has_verdict(*rev, f.keys[*by as usize]),
            Ev::Reject { by, rev } => self.has_verdict(*rev, f.keys[*by as usize]),
            Ev::Two { .. } => true,
            _ => false,
        }
    }

    fn step(&mut self, ev: &Ev) -> StepOut {
        if let Ev::Cfg(n) = ev {
            self.configure(*n);
            self.hist.push(ev.clone());
            return StepOut::ok(format!("cfg:{n}-delegates"));
        }
        let by = ev.by();
        let acts = ev.acts();
        let pre_cur = self.cur_ix();
        let pre_full = self.snapshot(true);
        let pre_text = self.id.revision(&self.id.current).map(|r| (r.title.clone(), r.description.clone()));
        let author_is_delegate = self.is_delegate_of(pre_cur, by);
        // For a two-action operation: the state after its first action alone (same entry id),
        // computed by the implementation itself on a copy. It defines "the current document" at the
        // time of the second action.
        let mid: Option<(u8, Vec<u8>, bool)> = if acts.len() == 2 {
            let mut fork = self.clone();
            let _ = fork.apply(by, &acts[..1]);
            fork.rev_ix(&fork.id.current).map(|c| (c, fork.snapshot(true), fork.is_delegate_of(c, by)))
        } else {
            None
        };
        let had_sibling = self.survivor;
        let (result, _made) = self.apply(by, &acts);
        self.hist.push(ev.clone());
        // Graph model (see `survivor`). A refused operation is a leaf of the change graph. One that
        // was refused with UnexpectedState *for want of a concurrent operation* will have one as soon
        // as anything is appended: with a single action that changes nothing (it is tolerated and
        // still has no effect) and it becomes the sibling of everything later; with two actions the
        // longer history would evaluate it differently, so such a state is not extended.
        let refused_alone = !had_sibling && matches!(result, Err(identity::ApplyError::UnexpectedState));
        let dead_end = refused_alone && acts.len() > 1;
        if refused_alone && acts.len() == 1 {
            self.survivor = true;
        }

        let mut vs = vec![];
        // I4 (first: `cur_ix` below needs a live current revision)
        let post_cur = self.rev_ix(&self.id.current);
        match (post_cur, self.id.revision(&self.id.current)) {
            (Some(pc), Some(r)) => {
                if pc == pre_cur {
                    if let Some((t, d)) = &pre_text {
                        if *t != r.title || *d != r.description {
                            vs.push(Violation::new(format!("C04/I4-current-revision-edited/by-{}", ev.kind()), format!("the current revision rev{pc} changed its title/description from {t:?}/{d:?} to {:?}/{:?}", r.title, r.description), json!({"state": self.describe()})));
                        }
                    }
                }
            }
            _ => {
                vs.push(Violation::new(format!("C04/I4-current-revision-redacted/by-{}", ev.kind()), "the current revision is redacted or unknown after this step".to_string(), Value::Null));
                return StepOut { violations: vs, outcome: format!("{}:current-lost", ev.kind()), dead: true };
            }
        }
        let post_cur = post_cur.unwrap();
        let post_full = self.snapshot(true);
        // I2: every move of `current` goes to a successor. A two-action operation may move twice
        // (pre → mid → post); an operation that is refused as a whole leaves `current` where it was.
        let succ = |from: u8, to: u8| from == to || self.revs.get(to as usize).and_then(|r| r.parent) == Some(from);
        let i2_ok = match &mid {
            None => succ(pre_cur, post_cur),
            Some((mid_cur, _, _)) => post_cur == pre_cur || (succ(pre_cur, *mid_cur) && succ(*mid_cur, post_cur)),
        };
        if !i2_ok {
            vs.push(Violation::new(
                "C04/I2-current-replaced-by-non-successor".to_string(),
                format!("current moved from rev{pre_cur}{} to rev{post_cur}, whose parent is {:?}", mid.as_ref().map(|m| format!(" (rev{} after the first action)", m.0)).unwrap_or_default(), self.revs[post_cur as usize].parent),
                json!({"state": self.describe()}),
            ));
        }
        // I3: an author that is not a delegate of the current document changes nothing. For the
        // second action "current" is the document after the first action: the result must then be
        // either the state after the first action alone or (operation refused) the state before.
        if !author_is_delegate && post_full != pre_full {
            vs.push(Violation::new(
                "C04/I3-non-delegate-changed-identity".to_string(),
                format!("{} is not a delegate of the current document (rev{pre_cur}) but its {} changed the identity state", ACTOR_NAMES[by as usize], ev.kind()),
                json!({"state": self.describe()}),
            ));
        } else if let Some((mid_cur, mid_full, still_delegate)) = &mid {
            if author_is_delegate && !still_delegate && post_full != pre_full && post_full != *mid_full {
                vs.push(Violation::new(
                    "C04/I3-non-delegate-changed-identity/second-action-after-losing-delegacy".to_string(),
                    format!(
                        "the first action of {}'s {} made rev{mid_cur} current, of whose document {} is not a delegate, yet the second action changed the identity state",
                        ACTOR_NAMES[by as usize],
                        ev.kind(),
                        ACTOR_NAMES[by as usize]
                    ),
                    json!({"state": self.describe()}),
                ));
            }
        }
        // I1
        self.check_i1(&mut vs);

        let res = match &result {
            Ok(()) => "ok".to_string(),
            Err(e) => format!("err:{}", variant(e)),
        };
        let moved = if post_cur != pre_cur { "+adopted" } else { "" };
        let who = if author_is_delegate { "delegate" } else { "non-delegate" };
        let stride = *STRIDE.get().unwrap_or(&0);
        if stride > 0 {
            let key = serde_json::to_string(&self.hist).expect("hist");
            if mcx::fnv64(key.as_bytes()) % stride == 0 {
                STRIDE_SET.lock().unwrap().insert(key);
            }
        }
        let conc = if had_sibling { "" } else { "/alone" };
        StepOut { violations: vs, outcome: format!("{}/{who}{conc}:{res}{moved}", ev.kind()), dead: dead_end }
    }

    fn canon(&self) -> Vec<u8> {
        let Some(f) = self.f else { return b"unconfigured".to_vec() };
        let mut out = vec![f.n_del as u8, self.survivor as u8];
        out.extend(self.snapshot(false));
        out.push(0xfb);
        for r in &self.revs {
            out.push(r.doc);
            out.push(r.parent.map(|p| p + 1).unwrap_or(0));
            out.push(match r.link_ok { None => 0, Some(true) => 1, Some(false) => 2 });
        }
        out.push(0xfa);
        for (d, a) in &self.signed {
            out.push(*d);
            out.push(*a);
        }
        out
    }

    fn fork(&self) -> Option<Self> {
        Some(self.clone())
    }
}

impl Sys {
    fn has_verdict(&self, rev: u8, key: PublicKey) -> bool {
        self.id.revision(&self.revs[rev as usize].id).map(|r| r.verdicts().any(|(k, _)| *k == key)).unwrap_or(false)
    }
}

fn variant(e: &identity::ApplyError) -> &'static str {
    use identity::ApplyError::*;
    match e {
        Missing(_) => "Missing",
        Init(_) => "Init",
        InvalidSignature(..) => "InvalidSignature",
        NotAuthorized => "NotAuthorized",
        MissingParent => "MissingParent",
        DuplicateVerdict => "DuplicateVerdict",
        UnexpectedState => "UnexpectedState",
        Redacted => "Redacted",
        DocUnchanged => "DocUnchanged",
        Git(_) => "Git",
        GitExt(_) => "GitExt",
        Doc(_) => "Doc",
    }
}

fn parse_hist(s: &str) -> Vec<Ev> {
    serde_json::from_str(s).expect("history")
}

fn main() {
    init_env();
    let ctx = Ctx::from_env("C04", "model_checking");
    let thorough = ctx.tier == mcx::Tier::Thorough;
    let replaying = ctx.replay.is_some();
    // (delegates, documents offered, max revisions, depth) per configuration; K is global.
    // quick: 4 delegates + stranger, D=5, K<=2. thorough: 4 delegates D=6 (documents: remove a delegate /
    // add the stranger) and 5 delegates D=5 (documents: remove a delegate / threshold 2), K<=2.
    // The design's 5 delegates / D=7 / K<=3 was measured at > 10^9 transitions (~45 us each, dominated by the
    // implementation's own signature verification): 4+5 delegates, 3 documents, D=5, K<=3 alone is 1.4*10^8.
    let (configs, devs, stride): (Vec<(usize, Vec<u8>, usize, usize)>, usize, u64) =
        if thorough { (vec![(4, vec![1, 2], 3, 6), (5, vec![1, 3], 3, 5)], 2, 10007) } else { (vec![(4, vec![1, 2], 3, 5)], 2, 0) };
    let configs = if replaying { vec![(4, vec![1, 2, 3], 16, 64), (5, vec![1, 2, 3], 16, 64)] } else { configs };
    let base = tempfile::Builder::new().prefix("verif-c04-").tempdir().expect("tempdir").into_path();
    let _ = BASE.set(base.clone());
    // Development aid: C04_STRIDE=n replays 1 in n executed histories in any tier.
    let stride = std::env::var("C04_STRIDE").ok().and_then(|s| s.parse().ok()).unwrap_or(stride);
    let _ = STRIDE.set(stride);
    let fixtures: Vec<Fix> = configs.iter().map(|(n, menu, max_revs, depth)| build_fixture(&base, *n, menu.clone(), *max_revs, *depth, devs)).collect();
    if FIXES.set(fixtures).is_err() {
        unreachable!();
    }
    let depth = 1 + configs.iter().map(|c| c.3).max().unwrap();

    if let Some(w) = ctx.replay_witness() {
        let vs = explore::replay("C04", Sys::new, &w);
        let hist: Vec<Ev> = serde_json::from_value(w.get("history").cloned().unwrap_or(Value::Null)).unwrap_or_default();
        match Sys::conformance(&hist) {
            Ok(()) => println!("REPLAY conformance: Identity::get over the same history as real commits agrees with the in-memory application"),
            Err(e) => die(&format!("conformance: {e}")),
        }
        cleanup();
        ctx.finish_replay(vs);
    }

    let mut res = explore::explore("C04", Sys::new, Bounds::new(depth, devs).wall_secs(if thorough { 1500 } else { 300 }));

    // Conformance: every violating witness + the stride of executed histories.
    let mut todo: BTreeSet<String> = std::mem::take(&mut *STRIDE_SET.lock().unwrap());
    let stride_n = todo.len();
    for (_, (ws, _)) in res.violations.by_fp.iter() {
        for w in ws {
            if let Some(h) = w.witness.get("history") {
                todo.insert(h.to_string());
            }
        }
    }
    // Always: the deepest samples and a fixed family per configuration (an accept with an invalid
    // signature followed by valid ones; a failed duplicate verdict; an adoption followed by a
    // stranger's edit and a further proposal).
    for s in &res.samples {
        todo.insert(serde_json::to_string(s).unwrap());
    }
    for f in fixes() {
        let n = f.n_del as u8;
        let p = |by: u8, doc: u8| Ev::Propose { by, doc, parent: Par::Cur, sig: Sig::Valid };
        let acc = |by: u8, sig: Sig| Ev::Accept { by, rev: 1, sig };
        for h in [
            vec![Ev::Cfg(n), p(0, 1), acc(1, Sig::WrongBlob), acc(2, Sig::Valid), acc(3, Sig::Garbage)],
            vec![Ev::Cfg(n), p(0, 1), Ev::Reject { by: 0, rev: 1 }, acc(1, Sig::Valid), acc(2, Sig::Valid)],
            vec![Ev::Cfg(n), p(0, 1), acc(1, Sig::Valid), acc(2, Sig::Valid), Ev::Edit { by: n, rev: 1 }, p(1, 2), Ev::Redact { by: 1, rev: 2 }],
            // the delegate that is being removed casts the deciding vote and proposes in the same operation
            vec![Ev::Cfg(n), p(0, 1), acc(1, Sig::Valid), acc(2, Sig::Valid), Ev::Two { by: n - 1, a: Act::Accept { rev: 1, sig: Sig::Valid }, b: Act::Propose { doc: 2, parent: Par::Cur, sig: Sig::Valid } }],
            vec![Ev::Cfg(n), p(0, 1), p(1, 2), Ev::Two { by: 2, a: Act::Accept { rev: 1, sig: Sig::Valid }, b: Act::Accept { rev: 2, sig: Sig::Valid } }, Ev::Two { by: 3, a: Act::Edit { rev: 2 }, b: Act::Accept { rev: 1, sig: Sig::Valid } }],
        ] {
            todo.insert(serde_json::to_string(&h).unwrap());
        }
    }
    let todo: Vec<String> = todo.into_iter().collect();
    let st = mcx::sweep::threads(
        todo.len() as u64,
        |i| {
            let hist = parse_hist(&todo[i as usize]);
            match mcx::panics::catch(|| Sys::conformance(&hist)) {
                Ok(Ok(())) => mcx::sweep::ItemOut::new(mcx::fnv64(todo[i as usize].as_bytes()) | 1, "agree"),
                Ok(Err(e)) => die(&format!("conformance replay of {} failed: {e}", todo[i as usize])),
                Err(c) if c.file.starts_with("chk-") || c.file.starts_with("mcx/") => die(&format!("harness panic in conformance replay of {}: {} ({}:{})", todo[i as usize], c.message, c.file, c.line)),
                Err(c) => mcx::sweep::ItemOut::new(mcx::fnv64(c.site().as_bytes()) | 1, format!("panic:{}", c.site())).with(vec![Violation::new(
                    format!("C04/panic@{}", c.site()),
                    format!("panic while the history is applied / evaluated from real commits: {} ({}:{})", c.message, c.file, c.line),
                    json!({"history": serde_json::from_str::<Value>(&todo[i as usize]).unwrap_or(Value::Null), "detail": {"panic": c.message, "file": c.file, "where": "conformance replay"}}),
                )]),
            }
        },
        // A panic of the code under test while the real evaluation runs is a violation with the same
        // fingerprint the exploration gives it (a harness panic stays a machinery error).
        Some(|i: u64, c: &mcx::panics::Caught| {
            Violation::new(
                format!("C04/panic@{}", c.site()),
                format!("panic while the history is applied / evaluated from real commits: {} ({}:{})", c.message, c.file, c.line),
                json!({"history": serde_json::from_str::<Value>(&todo[i as usize]).unwrap_or(Value::Null), "detail": {"panic": c.message, "file": c.file, "where": "conformance replay"}}),
            )
        }),
    );

    let mut cov = res.coverage(
        "BFS over histories of identity operations with one action (propose/accept/reject/edit/redact) or two actions (see assumptions) by every delegate and a stranger, with valid / wrong-blob / wrong-key / garbage signatures, \
         current and stale parents, documents that remove a delegate / add the stranger / raise the threshold; applied with the real Identity::op in causal order, a failing op is pruned and the object stays as left. \
         Deviation = non-valid signature, duplicate verdict, author not a delegate of the current document, or a two-action operation. A state = (current, heads, per revision state/parent/verdicts with signature validity, model bits); \
         distinct = distinct canonical states",
    );
    cov.insert("conformance_replays".into(), json!(st.evaluations));
    cov.insert("conformance_outcomes".into(), json!(st.outcomes));
    cov.insert("conformance_stride".into(), json!(if stride > 0 { format!("1 in {stride} of all executed histories (by hash): {stride_n}; plus violating witnesses, deepest samples and a fixed family") } else { "violating witnesses, deepest samples and a fixed family".to_string() }));
    cov.insert(
        "config".into(),
        json!(fixes().iter().map(|f| json!({"delegates": f.n_del, "stranger": 1, "documents": f.menu.iter().map(|d| f.docs[*d as usize].what).collect::<Vec<_>>(), "max_revisions_incl_root": f.max_revs, "depth": f.depth, "deviations": f.max_devs})).collect::<Vec<_>>()),
    );
    let mut violations = std::mem::take(&mut res.violations);
    violations.merge(st.violations.clone());
    cleanup();
    ctx.finish(
        cov,
        &[
            "operations carry one action, or two actions in the shapes [accept|reject, propose], [propose, accept], [accept, accept another], [accept, redact], [edit, accept] (valid signatures, non-root targets; every two-action operation counts as a deviation); an operation with two `revision` actions is kept out of the alphabet because both would use the entry id as revision id and trip debug_assert!(!self.revisions.contains_key(&entry)) in Identity::action; longer operations are the subject of C06",
            "for the second action of an operation, `the current document` is the one after the first action alone, obtained by applying that action by itself (same entry id) to a copy with the real Identity::op",
            "the linear history is realised as a change graph in which every operation is a child of the last successfully applied one (refused operations are leaves). `concurrent` is what that graph gives: empty until a single-action operation has been refused with UnexpectedState, non-empty afterwards (that leaf survives as everybody's sibling). A two-action operation refused with UnexpectedState while nothing is concurrent is checked but not extended (a longer history would evaluate it differently)",
            "trusted: ed25519 verification primitive, git object store",
        ],
        violations,
    );
}
