//! C03 — Canonical branch head is backed by the delegate threshold.
//!
//! Engine B (threads). The real `Canonical::reference(..)` reads one tip per delegate from a real
//! on-disk `radicle::storage::git::Repository` (`refs/namespaces/<did>/refs/heads/master`), then the
//! real `.quorum(raw)` decides. A second evaluation of every item presents the same tips through
//! the public `modify_vote` (the path `git-remote-rad push` uses), and a third stage runs the
//! production entry points `ReadRepository::canonical_head` / `WriteRepository::set_head` on real
//! project repositories (identity document with N delegates and threshold t).
//!
//! Space: a family of commit DAGs (chain, forks, fork with depth, single / double / criss-cross
//! merge, disjoint roots) x every assignment of N delegates to {no ref, c0..c(n-1)} x every
//! threshold 1..N x every rank order of the object ids of the distinct tips. Rank orders are
//! realised by a deterministic salt search over commit messages: all salted copies of a shape live
//! in one object database, and for every (tip set, permutation) the first salt whose object ids
//! are ordered that way is used. The `Did` order is covered because delegates are sorted by `Did`
//! and every assignment (with repetition) is enumerated.
//!
//! Oracle (harness DAG only, no git): support(c) = number of distinct delegates whose tip equals or
//! descends from c; S = tips with support >= t. `Ok(h)` => h is a tip, support(h) >= t, no other
//! member of S descends from h, and S has a maximum. An `Err` is never a violation (the statement
//! does not forbid errors).

use std::cell::RefCell;
use std::collections::{BTreeMap, HashMap};
use std::path::{Path, PathBuf};
use std::sync::atomic::{AtomicU64, AtomicUsize, Ordering};
use std::sync::Mutex;

use mcx::report::{machinery, Ctx, Violation};
use mcx::sweep::{self, ItemOut};
use nonempty::NonEmpty;
use radicle::crypto::test::signer::MockSigner;
use radicle::git::canonical::{Canonical, QuorumError};
use radicle::identity::doc::{RawDoc, Visibility};
use radicle::identity::{Did, Project, RepoId};
use radicle::node::device::Device;
use radicle::node::Alias;
use radicle::storage::git::{Repository, Storage};
use radicle::storage::{ReadRepository, WriteRepository};
use serde_json::{json, Value};

const EMPTY_TREE: &str = "4b825dc642cb6eb9a060e54bf8d69288fbee4904";
const SALT_CAP: u64 = 5_000_000;

// ---------------------------------------------------------------------------------------------
// DAG family

#[derive(Clone, Debug)]
struct Shape {
    name: String,
    /// `parents[i]` = indexes (< i) of the parents of commit `ci`; commit 0 is a root.
    parents: Vec<Vec<usize>>,
}

fn shape(name: &str, parents: &[&[usize]]) -> Shape {
    Shape { name: name.to_string(), parents: parents.iter().map(|p| p.to_vec()).collect() }
}

/// (shape, number of delegates) blocks of the main sweep.
fn family(thorough: bool) -> Vec<(Shape, usize)> {
    // <= 5 commits
    let small = vec![
        // c0 <- c1 <- c2 <- c3 <- c4
        shape("chain5", &[&[], &[0], &[1], &[2], &[3]]),
        // two branches of depth 2 from the root
        shape("fork2-deep", &[&[], &[0], &[1], &[0], &[3]]),
        // three children of the root, one of them extended
        shape("fork3-ext", &[&[], &[0], &[0], &[0], &[1]]),
        // test_quorum: c0, c1(c0), c2(c1), b2(c1), a1(c0)
        shape("fork-depth", &[&[], &[0], &[1], &[1], &[0]]),
        // c0, c1(c0), c2(c1), b2(c1), m1(c2,b2)
        shape("merge", &[&[], &[0], &[1], &[1], &[2, 3]]),
        // c0, a(c0), b(c0), m(a,b), x(m)
        shape("merge-cont", &[&[], &[0], &[0], &[1, 2], &[3]]),
        // c0, a(c0), b(c0), m1(a,b), m2(b,a): two merge bases for (m1, m2)
        shape("criss-cross", &[&[], &[0], &[0], &[1, 2], &[2, 1]]),
        // unrelated histories: c0 <- c1, r <- r1
        shape("disjoint", &[&[], &[0], &[], &[2]]),
    ];
    // 6 commits
    let large = vec![
        shape("chain6", &[&[], &[0], &[1], &[2], &[3], &[4]]),
        // test_quorum: c0, c1(c0), c2(c1), b2(c1), a1(c0), c3(c1)
        shape("fork-depth6", &[&[], &[0], &[1], &[1], &[0], &[1]]),
        // c0, c1(c0), c2(c1), b2(c1), m1(c2,b2), a1(c0)
        shape("merge6", &[&[], &[0], &[1], &[1], &[2, 3], &[0]]),
        // test_quorum_merges: c0, c1, c2, c3 (children of c0), m1(c1,c2), m2(c2,c3)
        shape("double-merge-a", &[&[], &[0], &[0], &[0], &[1, 2], &[2, 3]]),
        // test_quorum without its root: c1, c2(c1), b2(c1), a1(c1), m1(c2,b2), m2(a1,b2)
        shape("double-merge-b", &[&[], &[0], &[0], &[0], &[1, 2], &[3, 2]]),
        // criss-cross continued: c0, a, b, m1(a,b), m2(b,a), x(m1)
        shape("criss-cross6", &[&[], &[0], &[0], &[1, 2], &[2, 1], &[3]]),
    ];
    let mut out = vec![];
    if thorough {
        for s in small {
            out.push((s, 5));
        }
        for s in large {
            out.push((s, 4));
        }
    } else {
        for s in small {
            out.push((s, 4));
        }
    }
    out
}

fn factorial(j: usize) -> u64 {
    (1..=j as u64).product()
}

/// Lexicographic rank of a permutation of `0..j`.
fn perm_rank(perm: &[usize]) -> u32 {
    let j = perm.len();
    let mut r = 0u32;
    for i in 0..j {
        let c = perm[i + 1..].iter().filter(|&&x| x < perm[i]).count() as u32;
        r = r * (j - i) as u32 + c;
    }
    r
}

fn perm_unrank(j: usize, mut r: u32) -> Vec<usize> {
    let mut rest: Vec<usize> = (0..j).collect();
    let mut out = Vec::with_capacity(j);
    for i in 0..j {
        let f = factorial(j - 1 - i) as u32;
        let c = (r / f) as usize;
        r %= f;
        out.push(rest.remove(c));
    }
    out
}

fn bits(mask: u32) -> Vec<usize> {
    (0..32).filter(|b| mask & (1 << b) != 0).collect()
}

fn commit_buf(parents: &[git2::Oid], msg: &str) -> Vec<u8> {
    let mut s = format!("tree {EMPTY_TREE}\n");
    for p in parents {
        s.push_str(&format!("parent {p}\n"));
    }
    s.push_str("author chk <chk@verif.invalid> 1514817556 +0000\n");
    s.push_str("committer chk <chk@verif.invalid> 1514817556 +0000\n\n");
    s.push_str(msg);
    s.push('\n');
    s.into_bytes()
}

struct Fam {
    salt: u64,
    oids: Vec<git2::Oid>,
}

/// One (shape, N) block of the space with its salt table.
struct Block {
    /// position in the family (simplest shapes first; tie-break for witnesses)
    ord: usize,
    shape: Shape,
    n: usize,
    nd: usize,
    /// ancestors-or-self bitmask per commit (harness DAG; the oracle's only source).
    anc: Vec<u32>,
    /// prefix[a] = number of (assignment, permutation) pairs before assignment a.
    prefix: Vec<u64>,
    /// (tip mask, permutation rank) -> index into `fams`.
    table: HashMap<(u32, u32), u32>,
    fams: Vec<Fam>,
    salts_searched: u64,
    required: usize,
}

impl Block {
    fn pairs(&self) -> u64 {
        *self.prefix.last().unwrap()
    }
    /// Items of the main sweep: (assignment, permutation, threshold).
    fn size(&self) -> u64 {
        self.pairs() * self.nd as u64
    }
    fn n_assignments(&self) -> u64 {
        ((self.n + 1) as u64).pow(self.nd as u32)
    }
    /// Tips per delegate for assignment index `a` (`None` = the delegate has no such ref).
    fn tips(&self, mut a: u64) -> Vec<Option<usize>> {
        let base = (self.n + 1) as u64;
        let mut out = Vec::with_capacity(self.nd);
        for _ in 0..self.nd {
            let d = (a % base) as usize;
            a /= base;
            out.push(if d == self.n { None } else { Some(d) });
        }
        out
    }
    fn assignment_index(&self, tips: &[Option<usize>]) -> u64 {
        let base = (self.n + 1) as u64;
        let mut a = 0;
        for t in tips.iter().rev() {
            a = a * base + t.map(|c| c as u64).unwrap_or(self.n as u64);
        }
        a
    }
    fn tip_mask(tips: &[Option<usize>]) -> u32 {
        tips.iter().flatten().fold(0u32, |m, c| m | (1 << c))
    }
}

fn ancestors(parents: &[Vec<usize>]) -> Vec<u32> {
    let mut anc = vec![0u32; parents.len()];
    for i in 0..parents.len() {
        let mut m = 1u32 << i;
        for p in &parents[i] {
            assert!(*p < i, "parents must precede children");
            m |= anc[*p];
        }
        anc[i] = m;
    }
    anc
}

/// Build the block: enumerate assignments, search salts until every rank order of every tip set
/// of size <= nd has been realised, and write the used salted copies into `odb`.
fn build_block(shape: Shape, nd: usize, seed: u64, odb: &git2::Odb) -> Block {
    let n = shape.parents.len();
    let anc = ancestors(&shape.parents);
    let mut b = Block { ord: 0, shape, n, nd, anc, prefix: vec![], table: HashMap::new(), fams: vec![], salts_searched: 0, required: 0 };
    let na = b.n_assignments();
    let mut prefix = Vec::with_capacity(na as usize + 1);
    let mut acc = 0u64;
    for a in 0..na {
        prefix.push(acc);
        let j = Block::tip_mask(&b.tips(a)).count_ones() as usize;
        acc += factorial(j);
    }
    prefix.push(acc);
    b.prefix = prefix;

    let masks: Vec<u32> = (0u32..(1 << n)).filter(|m| (m.count_ones() as usize) <= nd).collect();
    b.required = masks.iter().map(|m| factorial(m.count_ones() as usize) as usize).sum();
    let mut salt = 0u64;
    while b.table.len() < b.required {
        if salt >= SALT_CAP {
            machinery(&format!("C03: salt search for {} did not realise every rank order within {SALT_CAP} salts", b.shape.name));
        }
        let mut oids: Vec<git2::Oid> = Vec::with_capacity(n);
        let mut bufs = Vec::with_capacity(n);
        for i in 0..n {
            let ps: Vec<git2::Oid> = b.shape.parents[i].iter().map(|p| oids[*p]).collect();
            let buf = commit_buf(&ps, &format!("{}/c{i} salt {salt} seed {seed}", b.shape.name));
            oids.push(git2::Oid::hash_object(git2::ObjectType::Commit, &buf).unwrap());
            bufs.push(buf);
        }
        let mut sorted: Vec<usize> = (0..n).collect();
        sorted.sort_by_key(|c| oids[*c]);
        let mut slot: Option<u32> = None;
        for &m in &masks {
            let members = bits(m);
            let induced: Vec<usize> = sorted.iter().filter(|c| m & (1 << **c) != 0).map(|c| members.iter().position(|x| x == c).unwrap()).collect();
            let key = (m, perm_rank(&induced));
            if !b.table.contains_key(&key) {
                let s = *slot.get_or_insert(b.fams.len() as u32);
                b.table.insert(key, s);
            }
        }
        if slot.is_some() {
            for (i, buf) in bufs.iter().enumerate() {
                let w = odb.write(git2::ObjectType::Commit, buf).unwrap();
                assert_eq!(w, oids[i]);
            }
            b.fams.push(Fam { salt, oids });
        }
        salt += 1;
    }
    b.salts_searched = salt;
    b
}

// ---------------------------------------------------------------------------------------------
// Environment and per-thread repositories

struct Env {
    root: PathBuf,
    shared_objects: PathBuf,
    rid: RepoId,
    /// Sorted by `Did` (the iteration order of `Canonical::tips`).
    signers: Vec<Device<MockSigner>>,
    dids: Vec<Did>,
    counter: AtomicUsize,
    blocks: Vec<Block>,
    offsets: Vec<u64>,
    quorum_calls: AtomicU64,
    /// cheapest witness per noteworthy non-violating outcome (reported as observations)
    notes: Mutex<BTreeMap<String, (u64, Value)>>,
}

impl Env {
    fn refname(&self, d: usize) -> String {
        format!("refs/namespaces/{}/refs/heads/master", self.dids[d].as_key())
    }
    fn delegates(&self, nd: usize) -> NonEmpty<Did> {
        NonEmpty::from_vec(self.dids[..nd].to_vec()).unwrap()
    }
}

fn link_alternates(repo_path: &Path, shared_objects: &Path) {
    let info = repo_path.join("objects").join("info");
    std::fs::create_dir_all(&info).unwrap();
    std::fs::write(info.join("alternates"), format!("{}\n", shared_objects.display())).unwrap();
}

struct Worker {
    repo: Repository,
    cur: Vec<Option<git2::Oid>>,
    /// e2e: one real project repository per threshold (index t-1), per number of delegates.
    projects: HashMap<usize, Vec<(Repository, Vec<Option<git2::Oid>>)>>,
    dir: PathBuf,
}

impl Worker {
    fn new(env: &Env) -> Worker {
        let k = env.counter.fetch_add(1, Ordering::Relaxed);
        let dir = env.root.join(format!("w{k}"));
        let path = dir.join("bare");
        std::fs::create_dir_all(&path).unwrap();
        let info = radicle::git::UserInfo { alias: Alias::new("chk"), key: *env.dids[0].as_key() };
        drop(Repository::create(&path, env.rid, &info).unwrap());
        link_alternates(&path, &env.shared_objects);
        let repo = Repository::open(&path, env.rid).unwrap();
        Worker { repo, cur: vec![None; env.dids.len()], projects: HashMap::new(), dir }
    }

    fn set_refs(repo: &Repository, cur: &mut [Option<git2::Oid>], env: &Env, want: &[Option<git2::Oid>]) {
        for d in 0..cur.len() {
            let w = want.get(d).copied().flatten();
            if cur[d] == w {
                continue;
            }
            let name = env.refname(d);
            match w {
                Some(oid) => {
                    repo.backend.reference(&name, oid, true, "chk").unwrap();
                }
                None => {
                    repo.backend.find_reference(&name).unwrap().delete().unwrap();
                }
            }
            cur[d] = w;
        }
    }

    /// Real project repositories (identity document with `nd` delegates and threshold t) for e2e.
    fn projects(&mut self, env: &Env, nd: usize) -> &mut Vec<(Repository, Vec<Option<git2::Oid>>)> {
        if !self.projects.contains_key(&nd) {
            let storage = Storage::open(
                self.dir.join(format!("storage{nd}")),
                radicle::git::UserInfo { alias: Alias::new("chk"), key: *env.dids[0].as_key() },
            )
            .unwrap();
            let mut v = vec![];
            for t in 1..=nd {
                let project = Project::new(format!("c03-n{nd}-t{t}").try_into().unwrap(), String::new(), radicle::git::refname!("master")).unwrap();
                let doc = RawDoc::new(project, env.dids[..nd].to_vec(), t, Visibility::Public).verified().unwrap();
                let (repo, identity) = Repository::init(&doc, &storage, &env.signers[0]).unwrap();
                repo.set_remote_identity_root_to(env.dids[0].as_key(), identity).unwrap();
                repo.set_identity_head_to(identity).unwrap();
                let (path, rid) = (repo.path().to_path_buf(), repo.id);
                drop(repo);
                link_alternates(&path, &env.shared_objects);
                let repo = Repository::open(&path, rid).unwrap();
                assert_eq!(repo.identity_doc().unwrap().doc.threshold(), t);
                v.push((repo, vec![None; env.dids.len()]));
            }
            self.projects.insert(nd, v);
        }
        self.projects.get_mut(&nd).unwrap()
    }
}

thread_local! {
    static WORKER: RefCell<Option<Worker>> = const { RefCell::new(None) };
}

fn with_worker<T>(env: &Env, f: impl FnOnce(&mut Worker) -> T) -> T {
    WORKER.with(|w| {
        let mut w = w.borrow_mut();
        f(w.get_or_insert_with(|| Worker::new(env)))
    })
}

// ---------------------------------------------------------------------------------------------
// Oracle

/// What the real code answered, mapped back to commit indexes of the harness DAG.
#[derive(Debug, Clone, PartialEq)]
enum Answer {
    Head(Option<usize>, String),
    NoCandidates,
    Diverging,
    Git(String),
}

impl Answer {
    fn label(&self) -> String {
        match self {
            Answer::Head(..) => "ok".into(),
            Answer::NoCandidates => "no-candidates".into(),
            Answer::Diverging => "diverging".into(),
            Answer::Git(e) => format!("git-error({e})"),
        }
    }
}

fn answer(r: Result<radicle::git::Oid, QuorumError>, fam: &Fam) -> Answer {
    match r {
        Ok(oid) => Answer::Head(fam.oids.iter().position(|o| *o == *oid), oid.to_string()),
        Err(QuorumError::NoCandidates(_)) => Answer::NoCandidates,
        Err(QuorumError::Diverging(_)) => Answer::Diverging,
        Err(QuorumError::Git(e)) => Answer::Git(format!("{:?}/{:?}", e.class(), e.code())),
    }
}

struct Item<'a> {
    block: &'a Block,
    tips: Vec<Option<usize>>,
    /// distinct tips from smallest to largest object id
    order: Vec<usize>,
    threshold: usize,
    fam: &'a Fam,
    seed: u64,
    /// position in the block (deterministic tie-break between equally small witnesses)
    index: u64,
}

impl Item<'_> {
    fn witness(&self, path: &str) -> Value {
        let used = Block::tip_mask(&self.tips);
        let closure = bits(used).iter().fold(0u32, |m, c| m | self.block.anc[*c]);
        json!({
            "shape": self.block.shape.name,
            "parents": self.block.shape.parents,
            "n_delegates": self.block.nd,
            "tips": self.tips,
            "tips_named": self.tips.iter().enumerate().map(|(d, t)| format!("d{d}:{}", t.map(|c| format!("c{c}")).unwrap_or("-".into()))).collect::<Vec<_>>(),
            "oid_order": self.order,
            "threshold": self.threshold,
            "path": path,
            "salt": self.fam.salt,
            "seed": self.seed,
            "oids": bits(closure).iter().map(|c| (format!("c{c}"), Value::String(self.fam.oids[*c].to_string()))).collect::<serde_json::Map<String, Value>>(),
        })
    }
    fn cost(&self) -> u64 {
        let used = Block::tip_mask(&self.tips);
        let closure = bits(used).iter().fold(0u32, |m, c| m | self.block.anc[*c]);
        let size = 100 * self.tips.iter().flatten().count() as u64 + 10 * closure.count_ones() as u64 + self.block.nd as u64 * 3 + self.threshold as u64;
        (size << 40) | (self.block.ord as u64 & 0xff) << 32 | (self.index & 0xffff_ffff)
    }
}

/// Evaluate the property's text on one answer. Returns (violations, model label).
fn judge(it: &Item, ans: &Answer, path: &str) -> (Vec<Violation>, &'static str) {
    let anc = &it.block.anc;
    let t = it.threshold;
    let support = |c: usize| it.tips.iter().flatten().filter(|tip| anc[**tip] & (1 << c) != 0).count();
    let tipset = bits(Block::tip_mask(&it.tips));
    let s: Vec<usize> = tipset.iter().copied().filter(|c| support(*c) >= t).collect();
    let max = s.iter().copied().find(|m| s.iter().all(|x| anc[*m] & (1 << x) != 0));
    let model = if s.is_empty() {
        "S-empty"
    } else if max.is_some() {
        "S-has-max"
    } else {
        "S-divergent"
    };
    let mut vs = vec![];
    let names = |v: &[usize]| v.iter().map(|c| format!("c{c}")).collect::<Vec<_>>().join(",");
    if let Answer::Head(h, hex) = ans {
        let describe = format!(
            "{} tips [{}] threshold {t} (oid order {})",
            it.block.shape.name,
            it.tips.iter().enumerate().map(|(d, t)| format!("d{d}:{}", t.map(|c| format!("c{c}")).unwrap_or("-".into()))).collect::<Vec<_>>().join(" "),
            names(&it.order)
        );
        match h {
            Some(h) if tipset.contains(h) => {
                let h = *h;
                let sup = support(h);
                if sup < t {
                    // Does "every (delegate on h, delegate on a descendant) pair votes once" explain it?
                    let k = it.tips.iter().flatten().filter(|c| **c == h).count();
                    let d = sup - k;
                    let why = if k >= 2 && d >= 1 && t <= k + k * d { "shared-tip-votes-multiplied-by-descendants" } else { "unexplained" };
                    vs.push(
                        Violation::new(
                            format!("C03/head-below-threshold/{why}"),
                            format!("quorum returned c{h} which is backed by {sup} distinct delegate(s) < threshold {t}: {describe}"),
                            it.witness(path),
                        )
                        .cost(it.cost()),
                    );
                }
                // The clauses that relate the head to S are reported on their own only when the head
                // itself is sufficiently supported; otherwise the line above already covers the item.
                if sup < t {
                } else if let Some(x) = s.iter().copied().find(|x| *x != h && anc[*x] & (1 << h) != 0) {
                    vs.push(
                        Violation::new(
                            "C03/supported-descendant-ignored",
                            format!("quorum returned c{h} although the sufficiently supported tip c{x} descends from it: {describe}"),
                            it.witness(path),
                        )
                        .cost(it.cost()),
                    );
                } else if !s.is_empty() && max.is_none() {
                    vs.push(
                        Violation::new(
                            "C03/head-despite-divergent-supported-tips",
                            format!("quorum returned c{h} although the sufficiently supported tips {{{}}} are divergent and none descends from all: {describe}", names(&s)),
                            it.witness(path),
                        )
                        .cost(it.cost()),
                    );
                }
            }
            _ => {
                vs.push(
                    Violation::new(
                        "C03/head-not-a-tip",
                        format!("quorum returned {hex} ({}) which is not a delegate tip: {describe}", h.map(|c| format!("c{c}")).unwrap_or("unknown object".into())),
                        it.witness(path),
                    )
                    .cost(it.cost()),
                );
            }
        }
    }
    (vs, model)
}

// ---------------------------------------------------------------------------------------------
// Main sweep item

fn decode<'a>(env: &'a Env, block: &'a Block, li: u64) -> Item<'a> {
    let nd = block.nd as u64;
    let threshold = (li % nd) as usize + 1;
    let q = li / nd;
    // assignment a with prefix[a] <= q < prefix[a+1]
    let a = block.prefix.partition_point(|p| *p <= q) as u64 - 1;
    let p = (q - block.prefix[a as usize]) as u32;
    let tips = block.tips(a);
    let mask = Block::tip_mask(&tips);
    let members = bits(mask);
    let order: Vec<usize> = perm_unrank(members.len(), p).into_iter().map(|i| members[i]).collect();
    let fam = &block.fams[block.table[&(mask, p)] as usize];
    // sanity: the family really has this order
    debug_assert!(order.windows(2).all(|w| fam.oids[w[0]] < fam.oids[w[1]]));
    let _ = env;
    Item { block, tips, order, threshold, fam, seed: 0, index: li }
}

fn run_paths(env: &Env, it: &Item) -> (Answer, Answer, Vec<Violation>) {
    let nd = it.block.nd;
    let want: Vec<Option<git2::Oid>> = it.tips.iter().map(|t| t.map(|c| it.fam.oids[c])).collect();
    let delegates = env.delegates(nd);
    let branch = radicle::git::qualified!("refs/heads/master");
    let absent = radicle::git::qualified!("refs/heads/absent");
    with_worker(env, |w| {
        let mut vs = vec![];
        Worker::set_refs(&w.repo, &mut w.cur, env, &want);
        // Path 1: tips read from the delegates' namespaces.
        let canonical = Canonical::reference(&w.repo, &branch, &delegates, it.threshold).unwrap_or_else(|e| machinery(&format!("C03: Canonical::reference failed: {e}")));
        let seen: Vec<(Did, git2::Oid)> = canonical.tips().map(|(d, o)| (*d, **o)).collect();
        let expect: Vec<(Did, git2::Oid)> = (0..nd).filter_map(|d| want[d].map(|o| (env.dids[d], o))).collect();
        if seen != expect {
            vs.push(Violation::new("C03/reference-tips", format!("Canonical::reference did not collect exactly one tip per delegate ref: got {seen:?}, refs hold {expect:?}"), it.witness("refs")).cost(it.cost()));
        }
        env.quorum_calls.fetch_add(2, Ordering::Relaxed);
        let a1 = answer(canonical.quorum(w.repo.raw()), it.fam);
        // Path 2: the same votes presented through `modify_vote` on an empty tip set.
        let mut canonical = Canonical::reference(&w.repo, &absent, &NonEmpty::new(env.dids[0]), it.threshold).unwrap_or_else(|e| machinery(&format!("C03: Canonical::reference failed: {e}")));
        if !canonical.is_empty() {
            machinery("C03: refs/heads/absent exists");
        }
        for (d, o) in &expect {
            canonical.modify_vote(*d, (*o).into());
        }
        let a2 = answer(canonical.quorum(w.repo.raw()), it.fam);
        (a1, a2, vs)
    })
}

fn eval_item(env: &Env, block: &Block, li: u64, seed: u64) -> ItemOut {
    let mut it = decode(env, block, li);
    it.seed = seed;
    let (a1, a2, mut vs) = run_paths(env, &it);
    let (v1, model) = judge(&it, &a1, "refs");
    vs.extend(v1);
    if a2 != a1 {
        // Same tips, same threshold: judged on its own (its witness names the path).
        let (v2, _) = judge(&it, &a2, "modify_vote");
        vs.extend(v2);
    }
    let present = it.tips.iter().flatten().count();
    let class = if present >= 2 { mcx::fnv64(format!("{}/{:?}/{:?}/{}", block.shape.name, it.tips, it.order, it.threshold).as_bytes()) | 1 } else { 0 };
    let agree = if a1 == a2 { "" } else { "|modify_vote-differs" };
    // Allowed by the statement but worth showing: an error although S has a maximum (the answer
    // then depends on the rank order of the object ids).
    if model == "S-has-max" && !matches!(a1, Answer::Head(..)) {
        let key = format!("{}-although-S-has-max", a1.label());
        let mut notes = env.notes.lock().unwrap();
        let e = notes.entry(key).or_insert((u64::MAX, Value::Null));
        if it.cost() < e.0 {
            *e = (it.cost(), it.witness("refs"));
        }
    }
    ItemOut::new(class, format!("{}|{model}{agree}", a1.label())).with(vs)
}

// ---------------------------------------------------------------------------------------------
// e2e: canonical_head / set_head on real project repositories

/// Items: (assignment, threshold) with the first rank order only.
fn eval_e2e(env: &Env, block: &Block, li: u64, seed: u64) -> ItemOut {
    let nd = block.nd;
    let threshold = (li % nd as u64) as usize + 1;
    let a = li / nd as u64;
    let q = block.prefix[a as usize];
    let mut it = decode(env, block, q * nd as u64 + (threshold as u64 - 1));
    it.seed = seed;
    let want: Vec<Option<git2::Oid>> = it.tips.iter().map(|t| t.map(|c| it.fam.oids[c])).collect();
    let branch = radicle::git::qualified!("refs/heads/master");
    with_worker(env, |w| {
        let (repo, cur) = &mut w.projects(env, nd)[threshold - 1];
        Worker::set_refs(repo, cur, env, &want);
        let mut vs = vec![];
        let head = match repo.canonical_head() {
            Ok((name, oid)) => {
                if name != branch {
                    machinery(&format!("C03 e2e: canonical_head names {name}"));
                }
                Ok(oid)
            }
            Err(radicle::storage::RepositoryError::Quorum(e)) => Err(e),
            Err(e) => machinery(&format!("C03 e2e: canonical_head failed: {e}")),
        };
        let a1 = answer(head, it.fam);
        let (v, model) = judge(&it, &a1, "canonical_head");
        vs.extend(v);
        // set_head must publish exactly a head that satisfies the statement.
        let mut label = a1.label();
        match repo.set_head() {
            Ok(sh) => {
                let published = repo.raw().refname_to_id("HEAD").ok();
                let a2 = Answer::Head(it.fam.oids.iter().position(|o| *o == *sh.new), sh.new.to_string());
                if published != Some(*sh.new) {
                    vs.push(Violation::new("C03/set-head-publishes-other-commit", format!("set_head reported {} but HEAD resolves to {published:?}", sh.new), it.witness("set_head")).cost(it.cost()));
                }
                if a2 != a1 {
                    let (v, _) = judge(&it, &a2, "set_head");
                    vs.extend(v);
                    label.push_str("|set_head-differs");
                }
            }
            Err(radicle::storage::RepositoryError::Quorum(_)) => {
                if matches!(a1, Answer::Head(..)) {
                    label.push_str("|set_head-refused");
                }
            }
            Err(e) => machinery(&format!("C03 e2e: set_head failed: {e}")),
        }
        let present = it.tips.iter().flatten().count();
        let class = if present >= 2 { mcx::fnv64(format!("e2e/{}/{:?}/{}", block.shape.name, it.tips, it.threshold).as_bytes()) | 1 } else { 0 };
        ItemOut::new(class, format!("e2e:{label}|{model}")).with(vs)
    })
}

// ---------------------------------------------------------------------------------------------

fn make_env(root: &Path, blocks_spec: Vec<(Shape, usize)>, seed: u64) -> Env {
    let shared = root.join("shared");
    let shared_repo = git2::Repository::init_bare(&shared).unwrap();
    let tree = shared_repo.treebuilder(None).unwrap().write().unwrap();
    assert_eq!(tree.to_string(), EMPTY_TREE);
    let odb = shared_repo.odb().unwrap();
    let max_nd = blocks_spec.iter().map(|b| b.1).max().unwrap_or(1);
    let mut signers: Vec<Device<MockSigner>> = (0..max_nd).map(|k| Device::mock_from_seed([(seed as u8).wrapping_mul(31).wrapping_add(k as u8 + 1); 32])).collect();
    signers.sort_by_key(|s| Did::from(s.public_key()));
    let dids: Vec<Did> = signers.iter().map(|s| Did::from(s.public_key())).collect();
    // Blocks are independent: build them on scoped threads, each with its own odb handle.
    let blocks: Vec<Block> = std::thread::scope(|s| {
        let handles: Vec<_> = blocks_spec
            .into_iter()
            .map(|(shape, nd)| {
                let shared = shared.clone();
                s.spawn(move || {
                    let repo = git2::Repository::open_bare(&shared).unwrap();
                    let odb = repo.odb().unwrap();
                    build_block(shape, nd, seed, &odb)
                })
            })
            .collect();
        handles.into_iter().map(|h| h.join().unwrap()).collect()
    });
    let blocks: Vec<Block> = blocks.into_iter().enumerate().map(|(i, b)| Block { ord: i, ..b }).collect();
    drop(odb);
    let mut offsets = vec![0u64];
    for b in &blocks {
        offsets.push(offsets.last().unwrap() + b.size());
    }
    Env {
        root: root.to_path_buf(),
        shared_objects: shared.join("objects"),
        rid: RepoId::from(git2::Oid::hash_object(git2::ObjectType::Blob, b"C03").unwrap()),
        signers,
        dids,
        counter: AtomicUsize::new(0),
        blocks,
        offsets,
        quorum_calls: AtomicU64::new(0),
        notes: Mutex::new(BTreeMap::new()),
    }
}

fn scratch_root() -> tempfile::TempDir {
    // Ref files are rewritten millions of times: prefer a memory file system when there is one.
    let shm = Path::new("/dev/shm");
    if shm.is_dir() {
        if let Ok(d) = tempfile::Builder::new().prefix("chk-c03-").tempdir_in(shm) {
            return d;
        }
    }
    tempfile::Builder::new().prefix("chk-c03-").tempdir().unwrap()
}

fn on_panic(what: &'static str) -> impl Fn(u64, &mcx::panics::Caught) -> Violation + Sync {
    move |i, c| Violation::new(format!("C03/panic/{}", c.site()), format!("panic in {what} item {i}: {}", c.message), json!({"stage": what, "index": i}))
}

fn replay(ctx: &Ctx, w: &Value) -> Vec<Violation> {
    let name = w["shape"].as_str().unwrap_or_else(|| machinery("replay: no shape")).to_string();
    let parents: Vec<Vec<usize>> = serde_json::from_value(w["parents"].clone()).unwrap_or_else(|e| machinery(&format!("replay: parents: {e}")));
    let nd = w["n_delegates"].as_u64().unwrap_or_else(|| machinery("replay: n_delegates")) as usize;
    let tips: Vec<Option<usize>> = serde_json::from_value(w["tips"].clone()).unwrap_or_else(|e| machinery(&format!("replay: tips: {e}")));
    let order: Vec<usize> = serde_json::from_value(w["oid_order"].clone()).unwrap_or_else(|e| machinery(&format!("replay: oid_order: {e}")));
    let threshold = w["threshold"].as_u64().unwrap_or_else(|| machinery("replay: threshold")) as usize;
    let seed = w["seed"].as_u64().unwrap_or(ctx.seed);
    let path = w["path"].as_str().unwrap_or("refs").to_string();
    let root = scratch_root();
    let vs = {
        let env = make_env(root.path(), vec![(Shape { name, parents }, nd)], seed);
        let block = &env.blocks[0];
        let a = block.assignment_index(&tips);
        let members = bits(Block::tip_mask(&tips));
        let p = perm_rank(&order.iter().map(|c| members.iter().position(|x| x == c).unwrap_or_else(|| machinery("replay: oid_order names a commit that is not a tip"))).collect::<Vec<_>>());
        let li = (block.prefix[a as usize] + p as u64) * nd as u64 + (threshold as u64 - 1);
        let out = if path == "canonical_head" || path == "set_head" {
            eval_e2e(&env, block, a * nd as u64 + (threshold as u64 - 1), seed)
        } else {
            eval_item(&env, block, li, seed)
        };
        WORKER.with(|w| w.borrow_mut().take());
        out.violations
    };
    drop(root);
    vs
}

fn main() {
    let ctx = Ctx::from_env("C03", "exploration");
    if let Some(w) = ctx.replay_witness() {
        let vs = replay(&ctx, &w);
        ctx.finish_replay(vs);
    }
    let thorough = ctx.tier == mcx::Tier::Thorough;
    let seed = ctx.seed;
    let root = scratch_root();
    let env = make_env(root.path(), family(thorough), seed);
    let total = *env.offsets.last().unwrap();

    // Stage 1: reference + quorum and modify_vote + quorum, every rank order.
    let mut st = sweep::threads(
        total,
        |i| {
            let b = env.offsets.partition_point(|o| *o <= i) - 1;
            eval_item(&env, &env.blocks[b], i - env.offsets[b], seed)
        },
        Some(on_panic("quorum")),
    );

    // Stage 2: canonical_head / set_head on real project repositories (first rank order).
    let e2e_blocks: Vec<usize> = (0..env.blocks.len()).filter(|b| thorough || env.blocks[*b].n <= 5).collect();
    let mut e2e_offsets = vec![0u64];
    for b in &e2e_blocks {
        e2e_offsets.push(e2e_offsets.last().unwrap() + env.blocks[*b].n_assignments() * env.blocks[*b].nd as u64);
    }
    let e2e = sweep::threads(
        *e2e_offsets.last().unwrap(),
        |i| {
            let k = e2e_offsets.partition_point(|o| *o <= i) - 1;
            eval_e2e(&env, &env.blocks[e2e_blocks[k]], i - e2e_offsets[k], seed)
        },
        Some(on_panic("canonical_head")),
    );
    let e2e_evals = e2e.evaluations;
    st.merge(e2e);

    // Vacuity: every branch of the decision must have been taken.
    let count = |prefix: &str| st.outcomes.iter().filter(|(k, _)| k.starts_with(prefix)).map(|(_, v)| *v).sum::<u64>();
    let vacuous: Vec<&str> = ["ok|S-has-max", "no-candidates|S-empty", "diverging|S-divergent", "e2e:ok|S-has-max"].into_iter().filter(|must| count(must) == 0).collect();

    let sample = |i: u64| {
        let b = env.offsets.partition_point(|o| *o <= i) - 1;
        let it = decode(&env, &env.blocks[b], i - env.offsets[b]);
        it.witness("refs")
    };
    let samples: Vec<Value> = sweep::sample_indexes(total).into_iter().map(sample).collect();
    let mut cov = st.coverage(
        "items = (shape, assignment of N Did-sorted delegates to {no ref, c0..}, rank order of the distinct tips' object ids, threshold 1..N), each evaluated through \
         Canonical::reference+quorum on an on-disk storage repository and through modify_vote+quorum; plus (shape, assignment, threshold) through canonical_head/set_head on real project \
         repositories with the first rank order; an item is non-trivial when at least two delegates have a tip; distinct = distinct (shape, assignment, order, threshold)",
        samples,
    );
    let perm: Vec<Value> = env
        .blocks
        .iter()
        .map(|b| {
            json!({
                "shape": b.shape.name, "commits": b.n, "delegates": b.nd,
                "rank_orders_required": b.required, "rank_orders_realised": b.table.len(),
                "salts_searched": b.salts_searched, "salted_copies_materialised": b.fams.len(),
                "assignments": b.n_assignments(), "items": b.size(),
            })
        })
        .collect();
    cov.insert("permutation_coverage".into(), json!(perm));
    cov.insert("permutation_coverage_complete".into(), json!(env.blocks.iter().all(|b| b.table.len() == b.required)));
    cov.insert("quorum_calls_stage1".into(), json!(env.quorum_calls.load(Ordering::Relaxed)));
    cov.insert("e2e_evaluations".into(), json!(e2e_evals));
    cov.insert(
        "observations_not_violations".into(),
        json!(env.notes.lock().unwrap().iter().map(|(k, (_, w))| json!({"outcome": k, "smallest_example": w})).collect::<Vec<_>>()),
    );
    cov.insert("shapes".into(), json!(env.blocks.iter().map(|b| json!({"name": b.shape.name, "parents": b.shape.parents})).collect::<Vec<_>>()));
    let violations = std::mem::take(&mut st.violations);
    WORKER.with(|w| w.borrow_mut().take());
    drop(env);
    drop(root);
    // A missing branch is a machinery alarm only when nothing was found (a defect may itself be
    // the reason a branch is never taken; then the violations are the verdict).
    if violations.is_empty() && !vacuous.is_empty() {
        machinery(&format!("C03: vacuity alarm: outcome(s) {vacuous:?} never observed"));
    }
    ctx.finish(
        cov,
        &[
            "trusted: libgit2 merge_base / reference lookup; SHA-1 object ids of harness-built commits",
            "an Err from quorum is never counted as a violation (the statement only restricts returned heads)",
            "commit DAGs outside the listed family and more than 5 delegates are not covered",
            "canonical_head/set_head stage uses only the first object-id rank order of each assignment",
        ],
        violations,
    );
}
