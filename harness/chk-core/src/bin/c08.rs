//! C08 — A patch is merged only by a threshold of agreeing delegates.
//!
//! Engine A over the real `Patch::op` (see C07 for the seam): delegates d1..d3, a non-delegate
//! patch author `a`, identity v1 = {d1,d2,d3; threshold t} and v2 = {d1,d2; threshold min(t,2)}
//! (the document change that drops a delegate); every operation names the version it refers to.
//! Commits: b0 ← c1 ← c2 and b0 ← cx. The first event also fixes, per delegate, the head of its default
//! branch in the evaluating repository: c1, c2, or *no ref at all* (never pushed / not fetched); cx is
//! on nobody's branch, and a delegate without a ref has no commit on its branch.
//!
//! Oracle (permissive "have recorded" reading — never more than the text): whenever
//! `state = Merged{rev, commit}`, the number of distinct delegates (of the document their own
//! merge operation referred to) that have, anywhere in the history so far, issued a merge of
//! exactly (rev, commit) with the commit on their default branch is ≥ the threshold of the
//! document referred to by the operation that made the patch merged. Once `Merged`, a
//! `Lifecycle` step leaves `state` unchanged.

#[path = "../cobops.rs"]
mod cobops;

use cobops::*;
use mcx::explore::{self, Bounds, StepOut, System};
use mcx::report::{machinery, Ctx, Violation};
use nonempty::NonEmpty;
use radicle::cob::store::Cob;
use radicle::cob::{self, patch, Manifest, ObjectId, Op, Timestamp};
use radicle::crypto::test::signer::MockSigner;
use radicle::crypto::PublicKey;
use radicle::git::Oid;
use radicle::identity::RepoId;
use radicle::node::device::Device;
use radicle::storage::git::Repository;
use radicle::storage::ReadRepository as _;
use serde::{Deserialize, Serialize};
use serde_json::{json, Value};
use std::cell::RefCell;
use std::collections::{BTreeMap, BTreeSet};
use std::path::PathBuf;
use std::sync::atomic::{AtomicUsize, Ordering};
use std::sync::{Mutex, OnceLock};

const ACTORS: [&str; 4] = ["d1", "d2", "d3", "a"];
const AUTHOR: u8 = 3;
const COMMITS: [&str; 3] = ["c1", "c2", "cx"];

#[derive(Clone, Debug, PartialEq, Eq, PartialOrd, Ord, Serialize, Deserialize)]
enum Ev {
    /// First event: identity threshold `t` and the default-branch head of d1, d2, d3 in the
    /// evaluating repository (0 = c1, 1 = c2, 2 = the delegate has no default-branch ref at all).
    Cfg { t: u8, heads: [u8; 3] },
    Merge { by: u8, idv: u8, rev: u8, commit: u8 },
    /// `a` proposes a second revision (r1).
    Revision,
    /// `a` redacts revision `rev`.
    Redact { rev: u8 },
    /// `by`: 3 = the author `a`, 0 = delegate d1. `to`: 0 open, 1 draft, 2 archived.
    Lifecycle { by: u8, to: u8 },
}

struct Cfg {
    idc: [Oid; 2],
    thresholds: [usize; 2],
    env: EnvRepo,
}

struct Fix {
    base: PathBuf,
    actors: Vec<Device<MockSigner>>,
    keys: Vec<PublicKey>,
    cfgs: BTreeMap<(u8, [u8; 3]), Cfg>,
    /// Path and id of the base repository per threshold (branch refs are set per head table).
    bases: BTreeMap<u8, (PathBuf, RepoId)>,
    b0: Oid,
    commits: [Oid; 3],
    pool: Vec<PublicKey>,
    stride: u64,
}

static FIX: OnceLock<Fix> = OnceLock::new();
fn fix() -> &'static Fix {
    FIX.get().expect("fixture")
}
thread_local! {
    static WREPO: RefCell<BTreeMap<(u8, [u8; 3]), Repository>> = const { RefCell::new(BTreeMap::new()) };
}
static WCOUNT: AtomicUsize = AtomicUsize::new(0);
static STRIDE_SET: Mutex<BTreeSet<String>> = Mutex::new(BTreeSet::new());

fn with_wrepo<T>(key: (u8, [u8; 3]), f: impl FnOnce(&Repository) -> T) -> T {
    WREPO.with(|c| {
        let mut c = c.borrow_mut();
        let r = c.entry(key).or_insert_with(|| {
            let (path, rid) = &fix().bases[&key.0];
            let n = WCOUNT.fetch_add(1, Ordering::Relaxed);
            let dst = fix().base.join(format!("w{n}"));
            copy_dir(path, &dst);
            let repo = Repository::open(&dst, *rid).expect("open repository copy");
            apply_heads(&repo, &fix().keys, &fix().commits, key.1);
            repo
        });
        f(r)
    })
}

/// Point (or delete) `refs/namespaces/<d>/refs/heads/master` of the three delegates.
fn apply_heads(repo: &Repository, keys: &[PublicKey], commits: &[Oid; 3], heads: [u8; 3]) {
    for (d, h) in heads.iter().enumerate() {
        match h {
            0 | 1 => set_branch_head(repo, &keys[d], commits[*h as usize]),
            _ => {
                let name = format!("refs/namespaces/{}/refs/heads/master", keys[d]);
                if let Ok(mut r) = repo.backend.find_reference(&name) {
                    r.delete().expect("delete branch ref");
                }
            }
        }
    }
}

fn cleanup() {
    if let Some(f) = FIX.get() {
        let _ = std::fs::remove_dir_all(&f.base);
    }
}

fn die(msg: &str) -> ! {
    cleanup();
    machinery(msg)
}

/// Is commit `c` (0 = c1, 1 = c2, 2 = cx) on the default branch of a delegate whose head is `head`
/// (0 = c1, 1 = c2, 2 = no ref), by construction b0 ← c1 ← c2, b0 ← cx: a delegate without a
/// default-branch ref has nothing on its branch.
fn on_branch(head: u8, c: u8) -> bool {
    match (head, c) {
        (0, 0) => true,
        (1, 0 | 1) => true,
        _ => false,
    }
}

fn is_delegate(by: u8, idv: u8) -> bool {
    by < 3 && (idv == 0 || by < 2)
}

fn build_fixture(tables: &[[u8; 3]], stride: u64) -> Fix {
    let base = tempfile::Builder::new().prefix("verif-c08-").tempdir().expect("tempdir").into_path();
    let actors: Vec<Device<MockSigner>> = (0..4u8).map(|i| dev(21 + i)).collect();
    let keys: Vec<PublicKey> = actors.iter().map(|a| *a.public_key()).collect();
    let mut cfgs = BTreeMap::new();
    let mut bases = BTreeMap::new();
    let mut b0 = None;
    let mut commits = None;
    for t in 1..=3u8 {
        let dir = base.join(format!("t{t}"));
        let storage = storage_at(&dir, keys[0]);
        let t1 = t as usize;
        let t2 = t1.min(2);
        let v1 = project_doc(&keys[0..3], t1);
        let v2 = project_doc(&keys[0..2], t2);
        let (repo, c_v1) = init_repo(&storage, &v1, &actors[0]);
        let c_v2 = {
            let mut id = radicle::cob::identity::Identity::get_mut(&ObjectId::from(c_v1), &repo).expect("load identity");
            let r = id.update("drop d3", "", &v2, &actors[0]).expect("identity update");
            // d2's accept is written as a raw change (d2 has no namespace of its own in this fixture).
            let sig = id.revision(&r).expect("revision").sign(&actors[1]).expect("sign");
            let accept = radicle::cob::identity::Action::RevisionAccept { revision: r, signature: sig };
            let entry = radicle::cob::change::Storage::store(
                &repo,
                None,
                vec![],
                &actors[1],
                cob::change::Template { type_name: radicle::cob::identity::TYPENAME.clone(), tips: vec![r], message: "accept".to_string(), embeds: vec![], contents: NonEmpty::new(encode_action(&accept)) },
            )
            .expect("store accept");
            cob::object::Storage::update(&repo, &keys[1], &radicle::cob::identity::TYPENAME, &ObjectId::from(c_v1), &entry.id).expect("update ref");
            let now = radicle::cob::identity::Identity::get(&ObjectId::from(c_v1), &repo).expect("Identity::get");
            assert_eq!(now.current, r, "v2 must be adopted by d1+d2");
            r
        };
        let cb0 = plain_commit(&repo, "b0", &[]);
        let c1 = plain_commit(&repo, "c1", &[cb0]);
        let c2 = plain_commit(&repo, "c2", &[c1]);
        let cx = plain_commit(&repo, "cx", &[cb0]);
        assert_eq!(repo.identity_doc_at(c_v1).expect("v1").doc.threshold(), t1);
        assert_eq!(repo.identity_doc_at(c_v2).expect("v2").doc.threshold(), t2);
        if let Some(prev) = commits {
            assert_eq!(prev, [c1, c2, cx], "plain commits must be identical in every configuration");
        }
        b0 = Some(cb0);
        commits = Some([c1, c2, cx]);
        let rid = repo.id;
        bases.insert(t, (repo_path(&storage, &rid), rid));
        for heads in tables {
            apply_heads(&repo, &keys, &[c1, c2, cx], *heads);
            let env = snapshot(&repo, &[c_v1, c_v2], &keys, &[cb0, c1, c2, cx]);
            // The harness's own table must describe what the real repository answers.
            for by in 0..3usize {
                for (ci, c) in [c1, c2, cx].iter().enumerate() {
                    let real = match env.heads.get(&keys[by]) {
                        Some(head) => *c == *head || env.ancestry.contains(&(*c, *head)),
                        None => false,
                    };
                    assert_eq!(real, on_branch(heads[by], ci as u8), "branch table mismatch for {by}/{ci}");
                    assert_eq!(env.heads.contains_key(&keys[by]), heads[by] != 2);
                }
            }
            cfgs.insert((t, *heads), Cfg { idc: [c_v1, c_v2], thresholds: [t1, t2], env });
        }
    }
    let pool: Vec<PublicKey> = (0..16u8).map(|i| *dev(200 + i).public_key()).collect();
    Fix { base, actors, keys, cfgs, bases, b0: b0.unwrap(), commits: commits.unwrap(), pool, stride }
}

#[derive(Clone, Debug)]
struct LogEntry {
    by: u8,
    idv: u8,
    action: Abstract,
    ok: bool,
    made: bool,
}

/// An action with revisions named by index (0 = r0, 1 = r1).
#[derive(Clone, Copy, Debug)]
enum Abstract {
    Merge { rev: u8, commit: u8 },
    Revision,
    Redact { rev: u8 },
    Lifecycle { to: u8 },
}

#[derive(Clone)]
struct Sys {
    t: u8,
    heads: [u8; 3],
    patch: Option<patch::Patch>,
    /// ids of r0, r1 (in-memory)
    revs: Vec<Oid>,
    /// Model: (delegate, rev, commit) merges issued by a delegate with the commit on its branch.
    recorded: BTreeSet<(u8, u8, u8)>,
    /// Model: threshold in force when the patch entered its present `Merged` state.
    merged_threshold: Option<usize>,
    log: Vec<LogEntry>,
    hist: Vec<Ev>,
    view: String,
}

fn root_actions() -> Vec<patch::Action> {
    let f = fix();
    vec![
        patch::Action::Revision { description: "r0".into(), base: f.b0, oid: f.commits[0], resolves: Default::default() },
        patch::Action::Edit { title: "t0".into(), target: patch::MergeTarget::Delegates },
    ]
}

fn concrete(a: Abstract, rev_id: &dyn Fn(u8) -> Oid) -> patch::Action {
    let f = fix();
    match a {
        Abstract::Merge { rev, commit } => patch::Action::Merge { revision: rev_id(rev).into(), commit: f.commits[commit as usize] },
        Abstract::Revision => patch::Action::Revision { description: "r1".into(), base: f.b0, oid: f.commits[1], resolves: Default::default() },
        Abstract::Redact { rev } => patch::Action::RevisionRedact { revision: rev_id(rev).into() },
        Abstract::Lifecycle { to } => patch::Action::Lifecycle { state: match to { 0 => patch::Lifecycle::Open, 1 => patch::Lifecycle::Draft, _ => patch::Lifecycle::Archived } },
    }
}

fn state_kind(s: &patch::State) -> &'static str {
    match s {
        patch::State::Draft => "draft",
        patch::State::Archived => "archived",
        patch::State::Merged { .. } => "merged",
        patch::State::Open { conflicts } if conflicts.is_empty() => "open",
        patch::State::Open { .. } => "open+conflicts",
    }
}

impl Sys {
    fn new() -> Sys {
        Sys { t: 0, heads: [0; 3], patch: None, revs: vec![], recorded: BTreeSet::new(), merged_threshold: None, log: vec![], hist: vec![], view: String::new() }
    }

    fn names(&self) -> Vec<(String, String)> {
        self.revs.iter().enumerate().map(|(i, o)| (hex(o), format!("#r{i}"))).collect()
    }

    fn render(&self) -> String {
        match &self.patch {
            None => String::new(),
            Some(p) => fast_view(p, &self.names()),
        }
    }

    fn normal_form(&self) -> Value {
        match &self.patch {
            None => Value::Null,
            Some(p) => canon_json(p, &self.names(), &["timeline"], &["conflicts", "resolves"]),
        }
    }

    fn start(&mut self, t: u8, heads: [u8; 3]) {
        let f = fix();
        let cfg = f.cfgs.get(&(t, heads)).unwrap_or_else(|| die(&format!("configuration t={t} heads={heads:?} is not part of this run")));
        let root = syn_oid(0);
        let op = Op::new(root, NonEmpty::from_vec(root_actions()).unwrap(), f.keys[AUTHOR as usize], Timestamp::from_secs(T0), Some(cfg.idc[0]), Manifest::new(patch::TYPENAME.clone(), cob::Version::default()));
        self.t = t;
        self.heads = heads;
        self.patch = Some(patch::Patch::from_root(op, &cfg.env).expect("patch root"));
        self.revs = vec![root];
        self.view = self.render();
    }

    fn apply(&mut self, by: u8, idv: u8, action: Abstract) -> Result<(), String> {
        let f = fix();
        let cfg = &f.cfgs[&(self.t, self.heads)];
        let op_id = syn_oid(self.log.len() as u32 + 1);
        let act = concrete(action, &|r| self.revs[r as usize]);
        let op = Op::new(op_id, NonEmpty::new(act), f.keys[by as usize], Timestamp::from_secs(T0), Some(cfg.idc[idv as usize]), Manifest::new(patch::TYPENAME.clone(), cob::Version::default()));
        let p = self.patch.as_mut().expect("started");
        let res = p.op(op, std::iter::empty::<&cob::Entry>(), &cfg.env).map_err(|e| patch_err(&e));
        let mut made = false;
        if matches!(action, Abstract::Revision) && p.revision(&patch::RevisionId::from(op_id)).is_some() {
            self.revs.push(op_id);
            made = true;
        }
        self.log.push(LogEntry { by, idv, action, ok: res.is_ok(), made });
        self.view = self.render();
        res
    }

    fn decode(ev: &Ev) -> Option<(u8, u8, Abstract)> {
        match ev {
            Ev::Cfg { .. } => None,
            Ev::Merge { by, idv, rev, commit } => Some((*by, *idv, Abstract::Merge { rev: *rev, commit: *commit })),
            Ev::Revision => Some((AUTHOR, 0, Abstract::Revision)),
            Ev::Redact { rev } => Some((AUTHOR, 0, Abstract::Redact { rev: *rev })),
            Ev::Lifecycle { by, to } => Some((*by, 0, Abstract::Lifecycle { to: *to })),
        }
    }

    fn conformance(hist: &[Ev]) -> Result<(), String> {
        let f = fix();
        let Some(Ev::Cfg { t, heads }) = hist.first().cloned() else {
            return Ok(());
        };
        let mut mem = Sys::new();
        for ev in hist {
            let _ = mem.step(ev);
        }
        let want = mem.normal_form();
        let cfg = &f.cfgs[&(t, heads)];
        with_wrepo((t, heads), |repo| {
            let type_name = patch::TYPENAME.clone();
            let root = Comb::write_root(repo, &type_name, Some(cfg.idc[0]), &f.actors[AUTHOR as usize], root_actions().iter().map(encode_action).collect(), vec![]);
            let mut comb = Comb::new(repo, type_name.clone(), root);
            let mut real = vec![root];
            for e in &mem.log {
                let act = concrete(e.action, &|r| real[r as usize]);
                let id = comb.push(Some(cfg.idc[e.idv as usize]), &f.actors[e.by as usize], vec![encode_action(&act)], vec![], e.ok);
                if e.made {
                    real.push(id);
                }
            }
            let names: Vec<(String, String)> = real.iter().enumerate().map(|(i, o)| (hex(o), format!("#r{i}"))).collect();
            let object = ObjectId::from(root);
            let got = comb.with_published(&object, &f.pool, None, || cob::get::<patch::Patch, _>(repo, &type_name, &object));
            let got = got.map_err(|e| format!("cob::get failed: {e}"))?.ok_or("cob::get returned None")?;
            let got = canon_json(&got.object, &names, &["timeline"], &["conflicts", "resolves"]);
            if got != want {
                return Err(format!("in-memory application and cob::get disagree\n in-memory: {want}\n real:      {got}"));
            }
            Ok(())
        })
    }
}

fn patch_err(e: &patch::Error) -> String {
    use patch::Error::*;
    match e {
        NotAuthorized(..) => "NotAuthorized",
        NotAllowed(_) => "NotAllowed",
        Missing(_) => "Missing",
        Doc(_) => "Doc",
        Payload(_) => "Payload",
        Git(_) => "Git",
        _ => "other",
    }
    .to_string()
}

impl System for Sys {
    type Ev = Ev;

    fn enabled(&self) -> Vec<Ev> {
        if self.patch.is_none() {
            return fix().cfgs.keys().map(|(t, heads)| Ev::Cfg { t: *t, heads: *heads }).collect();
        }
        let mut out = vec![];
        for by in 0..3u8 {
            for idv in 0..2u8 {
                for rev in 0..self.revs.len() as u8 {
                    for commit in 0..3u8 {
                        out.push(Ev::Merge { by, idv, rev, commit });
                    }
                }
            }
        }
        if self.revs.len() < 2 {
            out.push(Ev::Revision);
        }
        for rev in 0..self.revs.len() as u8 {
            out.push(Ev::Redact { rev });
        }
        for by in [AUTHOR, 0] {
            for to in 0..3u8 {
                out.push(Ev::Lifecycle { by, to });
            }
        }
        out
    }

    fn step(&mut self, ev: &Ev) -> StepOut {
        let out = match Sys::decode(ev) {
            None => {
                let Ev::Cfg { t, heads } = ev else { unreachable!() };
                self.start(*t, *heads);
                StepOut::ok(format!("cfg:threshold={t}"))
            }
            Some((by, idv, action)) => {
                let f = fix();
                let cfg = &f.cfgs[&(self.t, self.heads)];
                let pre = self.patch.as_ref().expect("started").state().clone();
                // Model: what this operation records, by the harness's own tables.
                if let Abstract::Merge { rev, commit } = action {
                    if is_delegate(by, idv) && on_branch(self.heads[by as usize], commit) {
                        self.recorded.insert((by, rev, commit));
                    }
                }
                let res = self.apply(by, idv, action);
                let post = self.patch.as_ref().unwrap().state().clone();
                let mut vs = vec![];
                if let patch::State::Merged { revision, commit } = &post {
                    if pre != post {
                        self.merged_threshold = Some(cfg.thresholds[idv as usize]);
                    }
                    let thr = self.merged_threshold.unwrap_or(cfg.thresholds[idv as usize]);
                    let rev_ix = self.revs.iter().position(|r| patch::RevisionId::from(*r) == *revision).map(|i| i as u8);
                    let c_ix = f.commits.iter().position(|c| c == commit).map(|i| i as u8);
                    let backers: Vec<u8> = match (rev_ix, c_ix) {
                        (Some(r), Some(c)) => (0..3u8).filter(|d| self.recorded.contains(&(*d, r, c))).collect(),
                        _ => vec![],
                    };
                    // Judged when the patch enters this Merged value (afterwards neither the set of
                    // recorded merges can shrink nor the threshold in force change).
                    if pre != post && backers.len() < thr {
                        let how = match action {
                            Abstract::Merge { .. } => "merge",
                            Abstract::Revision => "revision",
                            Abstract::Redact { .. } => "redact",
                            Abstract::Lifecycle { .. } => "lifecycle",
                        };
                        vs.push(Violation::new(
                            format!("C08/merged-below-threshold/entered-by-{how}"),
                            format!(
                                "patch reported Merged at (rev {:?}, commit {}) but only {} distinct delegate(s) [{}] have recorded a merge of exactly that pair with the commit on their default branch; threshold is {thr}",
                                rev_ix,
                                c_ix.map(|c| COMMITS[c as usize]).unwrap_or("?"),
                                backers.len(),
                                backers.iter().map(|b| ACTORS[*b as usize]).collect::<Vec<_>>().join(",")
                            ),
                            json!({"patch": self.view, "recorded": self.recorded, "threshold": thr}),
                        ));
                    }
                } else {
                    self.merged_threshold = None;
                }
                if matches!(pre, patch::State::Merged { .. }) && matches!(action, Abstract::Lifecycle { .. }) && pre != post {
                    vs.push(Violation::new(
                        "C08/lifecycle-moved-merged-patch".to_string(),
                        format!("a lifecycle action by {} moved a merged patch to {}", ACTORS[by as usize], state_kind(&post)),
                        json!({"patch": self.view}),
                    ));
                }
                let kind = match action {
                    Abstract::Merge { commit, .. } => format!(
                        "merge[{}{}{}]",
                        if is_delegate(by, idv) { "delegate" } else { "ex-delegate" },
                        match (self.heads[by as usize], on_branch(self.heads[by as usize], commit)) { (2, _) => ",no-branch-ref", (_, true) => ",on-branch", (_, false) => ",off-branch" },
                        if self.patch.as_ref().unwrap().revision(&self.revs[match action { Abstract::Merge { rev, .. } => rev as usize, _ => 0 }].into()).is_none() { ",redacted-rev" } else { "" }
                    ),
                    Abstract::Revision => "revision".to_string(),
                    Abstract::Redact { .. } => "redact".to_string(),
                    Abstract::Lifecycle { .. } => "lifecycle".to_string(),
                };
                let r = match &res {
                    Ok(()) => "ok".to_string(),
                    Err(e) => format!("err:{e}"),
                };
                StepOut { violations: vs, outcome: format!("t{}:{kind}:{r}:{}->{}", self.t, state_kind(&pre), state_kind(&post)), dead: false }
            }
        };
        self.hist.push(ev.clone());
        if fix().stride > 0 {
            let key = serde_json::to_string(&self.hist).expect("hist");
            if mcx::fnv64(key.as_bytes()) % fix().stride == 0 {
                STRIDE_SET.lock().unwrap().insert(key);
            }
        }
        out
    }

    fn canon(&self) -> Vec<u8> {
        format!("{}{:?}|{}|{:?}|{:?}|{}", self.t, self.heads, self.view, self.recorded, self.merged_threshold, self.revs.len()).into_bytes()
    }

    fn fork(&self) -> Option<Self> {
        Some(self.clone())
    }
}

fn main() {
    init_env();
    let ctx = Ctx::from_env("C08", "model_checking");
    let thorough = ctx.tier == mcx::Tier::Thorough;
    // Depth counts the Cfg event: quick D=6 operations, thorough D=8 (the design asked for 4 / 6).
    let (depth, stride) = if thorough { (9usize, 2000u64) } else { (7, 0) };
    // Branch-head tables (d1, d2, d3; 0 = c1, 1 = c2, 2 = no default-branch ref). quick: four tables in
    // which every delegate takes every value; thorough and --replay: all 27.
    let all: Vec<[u8; 3]> = (0..27u8).map(|i| [i / 9, (i / 3) % 3, i % 3]).collect();
    let tables: Vec<[u8; 3]> = if thorough || ctx.replay.is_some() { all } else { vec![[1, 1, 0], [2, 0, 1], [0, 2, 2], [2, 2, 2]] };
    if FIX.set(build_fixture(&tables, stride)).is_err() {
        unreachable!();
    }

    if let Some(w) = ctx.replay_witness() {
        let vs = explore::replay("C08", Sys::new, &w);
        let hist: Vec<Ev> = serde_json::from_value(w.get("history").cloned().unwrap_or(Value::Null)).unwrap_or_default();
        match Sys::conformance(&hist) {
            Ok(()) => println!("REPLAY conformance: cob::get over the same history as real commits agrees with the in-memory application"),
            Err(e) => die(&format!("conformance: {e}")),
        }
        cleanup();
        ctx.finish_replay(vs);
    }

    let mut res = explore::explore("C08", Sys::new, Bounds::new(depth, depth).wall_secs(if thorough { 900 } else { 120 }));

    let mut todo: BTreeSet<String> = std::mem::take(&mut *STRIDE_SET.lock().unwrap());
    let stride_n = todo.len();
    for (_, (ws, _)) in res.violations.by_fp.iter() {
        for w in ws {
            if let Some(h) = w.witness.get("history") {
                todo.insert(h.to_string());
            }
        }
    }
    for s in &res.samples {
        todo.insert(serde_json::to_string(s).unwrap());
    }
    // A fixed family that exercises threshold agreement, disagreement and a pruned merge.
    for (t, heads) in fix().cfgs.keys() {
        todo.insert(
            serde_json::to_string(&vec![
                Ev::Cfg { t: *t, heads: *heads },
                Ev::Merge { by: 0, idv: 0, rev: 0, commit: 0 },
                Ev::Merge { by: 2, idv: 1, rev: 0, commit: 0 },
                Ev::Merge { by: 1, idv: 0, rev: 0, commit: 0 },
                Ev::Merge { by: 2, idv: 0, rev: 0, commit: 0 },
            ])
            .unwrap(),
        );
    }
    let todo: Vec<String> = todo.into_iter().collect();
    let st = mcx::sweep::threads(
        todo.len() as u64,
        |i| {
            let hist: Vec<Ev> = serde_json::from_str(&todo[i as usize]).expect("history");
            match Sys::conformance(&hist) {
                Ok(()) => mcx::sweep::ItemOut::new(mcx::fnv64(todo[i as usize].as_bytes()) | 1, "agree"),
                Err(e) => die(&format!("conformance replay of {} failed: {e}", todo[i as usize])),
            }
        },
        // A panic of the code under test while the real evaluation runs is a violation with the same
        // fingerprint the exploration gives it (a harness panic stays a machinery error).
        Some(|i: u64, c: &mcx::panics::Caught| {
            Violation::new(
                format!("C08/panic@{}", c.site()),
                format!("panic while the history is applied / evaluated from real commits: {} ({}:{})", c.message, c.file, c.line),
                json!({"history": serde_json::from_str::<Value>(&todo[i as usize]).unwrap_or(Value::Null), "detail": {"panic": c.message, "file": c.file, "where": "conformance replay"}}),
            )
        }),
    );

    let mut cov = res.coverage(
        "BFS over histories on one patch by non-delegate `a`: first event picks the identity threshold t in 1..3 and the default-branch head of each delegate (c1 | c2 | no ref); then Merge(d1|d2|d3, refers to v1|v2, rev r0|r1, commit c1|c2|cx), Revision (r1), RevisionRedact(r0|r1), \
         Lifecycle(open|draft|archived) by the author or d1; v2 drops d3 and has threshold min(t,2); cx on no branch. Real Patch::op, failing op pruned with the object left as is. \
         A state = canonical JSON of the patch + the model's recorded-merge set; distinct = distinct canonical states",
    );
    cov.insert("conformance_replays".into(), json!(st.evaluations));
    cov.insert("conformance_outcomes".into(), json!(st.outcomes));
    cov.insert("conformance_stride".into(), json!(if stride > 0 { format!("1 in {stride} of all executed histories (by hash): {stride_n}; plus violating witnesses, samples and a fixed family") } else { "violating witnesses, deepest samples and a fixed family".to_string() }));
    let merged: u64 = res.outcomes.iter().filter(|(k, _)| k.ends_with("->merged")).map(|(_, v)| *v).sum();
    let conflicts: u64 = res.outcomes.iter().filter(|(k, _)| k.ends_with("->open+conflicts")).map(|(_, v)| *v).sum();
    cov.insert("steps_ending_merged".into(), json!(merged));
    cov.insert("steps_ending_in_conflict".into(), json!(conflicts));
    cov.insert("config".into(), json!({"depth_including_cfg": depth, "thresholds": [1, 2, 3], "branch_head_tables": tables, "configurations": fix().cfgs.len()}));
    let mut violations = std::mem::take(&mut res.violations);
    violations.merge(st.violations.clone());
    cleanup();
    ctx.finish(
        cov,
        &[
            "permissive reading: a delegate counts once it has ever issued a matching merge with the commit on its branch, and the threshold is the one of the document referred to by the operation that made the patch merged",
            "operations are single-action; repository = table-driven ReadRepository snapshotted from a real repository",
            "branch heads are fixed for a run (the statement's 'at evaluation time')",
        ],
        violations,
    );
}
