//! C19 — Identity documents are always valid and bound to the repository id.
//!
//! Engine B (threads). Three sub-spaces:
//!
//! * `json`  — every combination of delegates list (length × duplicate pattern, plus malformed
//!             lists) × threshold × version × visibility × payload × unknown top-level field, as
//!             JSON text, offered to the three acceptance paths `serde_json::from_slice::<Doc>`,
//!             `RawDoc::from_json(..).verified()` and `Doc::from_blob` (a real git blob).
//!             Accepted ⇒ 1 ≤ #distinct delegates ≤ 255, 1 ≤ threshold ≤ #delegates, supported
//!             version — judged both on the accepted `Doc` (accessors) and on the offered JSON
//!             (plain reference model). Every accepted document, and every `with_edits`
//!             neighbour of it that verifies, is then encoded and decoded (must be equal) and its
//!             oid compared with the id git gives the encoded bytes.
//! * `init`  — a dozen real `Repository::init` calls in an on-disk storage: the repository id
//!             must be the git blob hash (`git hash-object`) of the canonical encoding.
//!
//! Payloads whose strings are not NFC, whose objects have keys that become equal under NFC, or
//! that contain floats are *in* the alphabet; their round-trip failures carry their own
//! fingerprints (DESIGN §6, S18).

use mcx::panics::Caught;
use mcx::report::{Ctx, Violation};
use mcx::sweep::{self, ItemOut, Radix};
use radicle::crypto::test::signer::MockSigner;
use radicle::crypto::Signer as _;
use radicle::crypto::PublicKey;
use radicle::identity::doc::{Doc, PayloadId, RawDoc, Visibility, IDENTITY_VERSION, MAX_DELEGATES};
use radicle::identity::{Did, Project, RepoId};
use radicle::node::device::Device;
use radicle::storage::git::Repository;
use radicle::storage::ReadRepository;
use radicle::Storage;
use serde_json::{json, Value};
use std::cell::RefCell;
use std::io::Write;
use std::path::PathBuf;
use std::str::FromStr;
use std::sync::OnceLock;
use unicode_normalization::{is_nfc, UnicodeNormalization};

fn did(i: usize) -> Did {
    let mut b = [0x42u8; 32];
    b[0] = (i & 0xff) as u8;
    b[1] = (i >> 8) as u8;
    Did::from(PublicKey::from(b))
}

// ---------------------------------------------------------------------------------------------
// alphabets (JSON text fragments + their plain model)

#[derive(Clone, Debug)]
struct Delegates {
    name: String,
    json: String,
    /// number of distinct valid DIDs in the list, None when the field is malformed / absent
    distinct: Option<usize>,
    len: usize,
}

fn delegates_alphabet(thorough: bool) -> Vec<Delegates> {
    let lens: &[usize] = if thorough { &[0, 1, 2, 3, 255, 256, 257] } else { &[0, 1, 2, 255, 256] };
    let mut v = vec![];
    for &len in lens {
        for mode in ["none", "adjacent", "last-is-first", "all"] {
            let mut list: Vec<Did> = (0..len).map(did).collect();
            match mode {
                "adjacent" if len >= 2 => list[1] = list[0],
                "last-is-first" if len >= 2 => list[len - 1] = list[0],
                "all" => list.iter_mut().for_each(|d| *d = did(0)),
                _ => {}
            }
            let mut distinct: Vec<Did> = vec![];
            for d in &list {
                if !distinct.contains(d) {
                    distinct.push(*d);
                }
            }
            let json = format!("[{}]", list.iter().map(|d| format!("\"{d}\"")).collect::<Vec<_>>().join(","));
            v.push(Delegates { name: format!("{len}/{mode}"), json, distinct: Some(distinct.len()), len });
        }
    }
    v.push(Delegates { name: "garbage-entry".into(), json: format!("[\"{}\",\"not-a-did\"]", did(0)), distinct: None, len: 2 });
    v.push(Delegates { name: "not-an-array".into(), json: "\"x\"".into(), distinct: None, len: 0 });
    v.push(Delegates { name: "absent".into(), json: String::new(), distinct: None, len: 0 });
    v
}

/// Threshold fragments for a delegates spec with `n` distinct delegates: (json text or "" for absent, integer model).
fn thresholds(n: usize) -> Vec<(String, Option<i128>)> {
    let n = n as i128;
    let mut v: Vec<(String, Option<i128>)> = [0, 1, 2, n - 1, n, n + 1, 255, 256, 300, -1, u64::MAX as i128].iter().map(|t| (t.to_string(), Some(*t))).collect();
    v.push(("1.5".into(), None));
    v.push(("\"1\"".into(), None));
    v.push((String::new(), None));
    v
}
const N_THRESHOLDS: u64 = 14;

fn versions(thorough: bool) -> Vec<(&'static str, Option<i128>)> {
    // (fragment, integer model); "" = absent (defaults to 1)
    let mut v = vec![("", Some(1)), ("0", Some(0)), ("1", Some(1)), ("2", Some(2)), ("\"1\"", None)];
    if thorough {
        v.extend([("4294967296", Some(4294967296)), ("-1", Some(-1)), ("null", None)]);
    }
    v
}

fn visibilities(thorough: bool) -> Vec<String> {
    let d0 = did(0);
    let d9 = did(9);
    let mut v = vec![
        String::new(),
        r#"{"type":"public"}"#.to_string(),
        r#"{"type":"private"}"#.to_string(),
        r#"{"type":"private","allow":[]}"#.to_string(),
        format!(r#"{{"type":"private","allow":["{d9}"]}}"#),
    ];
    if thorough {
        v.push(format!(r#"{{"type":"private","allow":["{d0}","{d0}"]}}"#));
        v.push(r#"{"type":"secret"}"#.to_string());
        v.push(r#""public""#.to_string());
    }
    v
}

const PROJECT: &str = r#""xyz.radicle.project":{"name":"acme","description":"d","defaultBranch":"master"}"#;

fn payloads(thorough: bool) -> Vec<(&'static str, String)> {
    let mut v = vec![
        ("project", format!("{{{PROJECT}}}")),
        ("project+extra", format!(r#"{{{PROJECT},"xyz.radicle.extra":{{"z":"\u0000","nested":{{"a":[1,{{"b":null}}]}},"n":18446744073709551615}}}}"#)),
        ("absent", String::new()),
        ("non-nfc", format!("{{\"xyz.radicle.project\":{{\"name\":\"acme\",\"description\":\"Cafe\u{301}\",\"defaultBranch\":\"master\"}},\"xyz.radicle.extra\":{{\"k\":\"\u{1100}\u{1161}\"}}}}")),
        ("float", format!(r#"{{{PROJECT},"xyz.radicle.extra":{{"f":1.5}}}}"#)),
    ];
    if thorough {
        v.push(("empty", "{}".to_string()));
        v.push(("bad-id", r#"{"not a typename!":{}}"#.to_string()));
        v.push(("keys-equal-after-nfc", format!("{{{PROJECT},\"xyz.radicle.extra\":{{\"e\u{301}\":1,\"é\":2}}}}")));
        v.push(("non-nfc-key", format!("{{{PROJECT},\"xyz.radicle.extra\":{{\"e\u{301}\":1}}}}")));
        v.push(("invalid-project", r#"{"xyz.radicle.project":{"name":"","description":"d"}}"#.to_string()));
    }
    v
}

const UNKNOWN: [&str; 2] = ["", r#""foo":{"bar":[1,2]}"#];

struct Space {
    delegates: Vec<Delegates>,
    versions: Vec<(&'static str, Option<i128>)>,
    visibilities: Vec<String>,
    payloads: Vec<(&'static str, String)>,
    radix: Radix,
    thorough: bool,
}

struct Item {
    text: String,
    delegates: usize,
    threshold: Option<i128>,
    threshold_text: String,
    version: Option<i128>,
    payload: &'static str,
    duplicate_of_other_item: bool,
}

impl Space {
    fn new(thorough: bool) -> Space {
        let delegates = delegates_alphabet(thorough);
        let versions = versions(thorough);
        let visibilities = visibilities(thorough);
        let payloads = payloads(thorough);
        let radix = Radix::new(&[delegates.len() as u64, N_THRESHOLDS, versions.len() as u64, visibilities.len() as u64, payloads.len() as u64, UNKNOWN.len() as u64]);
        Space { delegates, versions, visibilities, payloads, radix, thorough }
    }
    fn item(&self, i: u64) -> Item {
        let d = self.radix.decode(i);
        let dl = &self.delegates[d[0] as usize];
        let ths = thresholds(dl.distinct.unwrap_or(dl.len));
        let (tt, tm) = ths[d[1] as usize].clone();
        let dup = ths[..d[1] as usize].iter().any(|(x, _)| *x == tt);
        let (vt, vm) = self.versions[d[2] as usize];
        let vis = &self.visibilities[d[3] as usize];
        let (pn, pt) = &self.payloads[d[4] as usize];
        let unk = UNKNOWN[d[5] as usize];
        let mut fields: Vec<String> = vec![];
        if !pt.is_empty() {
            fields.push(format!("\"payload\":{pt}"));
        }
        if !dl.json.is_empty() {
            fields.push(format!("\"delegates\":{}", dl.json));
        }
        if !tt.is_empty() {
            fields.push(format!("\"threshold\":{tt}"));
        }
        if !vt.is_empty() {
            fields.push(format!("\"version\":{vt}"));
        }
        if !vis.is_empty() {
            fields.push(format!("\"visibility\":{vis}"));
        }
        if !unk.is_empty() {
            fields.push(unk.to_string());
        }
        Item { text: format!("{{{}}}", fields.join(",")), delegates: d[0] as usize, threshold: tm, threshold_text: tt, version: vm, payload: pn, duplicate_of_other_item: dup }
    }
}

// ---------------------------------------------------------------------------------------------
// real git blobs (in-memory object database per worker thread)

static SCRATCH: OnceLock<PathBuf> = OnceLock::new();

struct Blobs {
    repo: &'static git2::Repository,
    pack: git2::Mempack<'static>,
}

thread_local! {
    static BLOBS: RefCell<Option<Blobs>> = const { RefCell::new(None) };
}

fn with_blobs<T>(f: impl FnOnce(&Blobs) -> T) -> T {
    BLOBS.with(|b| {
        let mut b = b.borrow_mut();
        if b.is_none() {
            let base = SCRATCH.get().expect("scratch dir");
            let dir = base.join(format!("blobs-{:?}", std::thread::current().id()).replace(['(', ')'], "_"));
            let repo: &'static git2::Repository = Box::leak(Box::new(git2::Repository::init_bare(&dir).expect("init bare repo")));
            let odb: &'static git2::Odb<'static> = Box::leak(Box::new(repo.odb().expect("odb")));
            let pack = odb.add_new_mempack_backend(1000).expect("mempack");
            *b = Some(Blobs { repo, pack });
        }
        f(b.as_ref().expect("blobs"))
    })
}


// ---------------------------------------------------------------------------------------------
// observations: behaviours outside the statement's clauses — counted and reported in the coverage
// map with their minimal witness, never a Violation.

struct Observation {
    instances: u64,
    best: Option<(u64, String, Value)>,
}

static OBSERVATIONS: std::sync::Mutex<std::collections::BTreeMap<&'static str, Observation>> = std::sync::Mutex::new(std::collections::BTreeMap::new());

fn observe(name: &'static str, cost: u64, what: String, witness: Value) {
    let mut g = OBSERVATIONS.lock().unwrap_or_else(|e| e.into_inner());
    let o = g.entry(name).or_insert(Observation { instances: 0, best: None });
    o.instances += 1;
    let better = match &o.best {
        None => true,
        Some((c, w, _)) => (cost, &what) < (*c, w),
    };
    if better {
        o.best = Some((cost, what, witness));
    }
}

fn observations_json(notes: &[(&str, &str)]) -> Value {
    let g = OBSERVATIONS.lock().unwrap_or_else(|e| e.into_inner());
    let mut m = serde_json::Map::new();
    for (name, note) in notes {
        let (instances, what, witness) = match g.get(name) {
            Some(o) => (o.instances, o.best.as_ref().map(|b| b.1.clone()).unwrap_or_default(), o.best.as_ref().map(|b| b.2.clone()).unwrap_or(Value::Null)),
            None => (0, String::new(), Value::Null),
        };
        m.insert(name.to_string(), json!({"instances": instances, "what": what, "witness": witness, "note": note}));
    }
    Value::Object(m)
}

// ---------------------------------------------------------------------------------------------
// oracle pieces

fn err_label<E: std::fmt::Display>(e: &E) -> String {
    let s = e.to_string();
    let s = s.split(" at line").next().unwrap_or("").to_string();
    let mut out = String::new();
    let mut hash = false;
    let mut quoted = false;
    for c in s.chars() {
        if c == '`' {
            quoted = !quoted;
            continue;
        }
        if quoted {
            continue;
        }
        if c == '"' || out.len() >= 64 {
            break;
        }
        if c.is_ascii_digit() {
            if !hash {
                out.push('#');
            }
            hash = true;
        } else {
            hash = false;
            out.push(c);
        }
    }
    out.trim().to_string()
}

/// Invariants of an accepted document, read through its accessors.
fn invariants(doc: &Doc, clause: &str, wit: &Value, vs: &mut Vec<Violation>) {
    let ds: Vec<&Did> = doc.delegates().iter().collect();
    let mut distinct: Vec<&Did> = vec![];
    for d in &ds {
        if !distinct.contains(d) {
            distinct.push(d);
        }
    }
    if distinct.len() != ds.len() {
        vs.push(Violation::new(format!("C19/{clause}/delegates-not-distinct"), format!("accepted document lists {} delegates, only {} distinct", ds.len(), distinct.len()), wit.clone()));
    }
    if distinct.is_empty() || distinct.len() > 255 || doc.delegates().len() != ds.len() {
        vs.push(Violation::new(format!("C19/{clause}/delegate-count"), format!("accepted document has {} distinct delegates (len() = {})", distinct.len(), doc.delegates().len()), wit.clone()));
    }
    let t = doc.threshold();
    if t < 1 || t > distinct.len() {
        vs.push(Violation::new(format!("C19/{clause}/threshold-range"), format!("accepted document has threshold {t} with {} distinct delegates", distinct.len()), wit.clone()));
    }
    let v = u32::from(*doc.version());
    if v < 1 || v > u32::from(IDENTITY_VERSION) {
        vs.push(Violation::new(format!("C19/{clause}/version"), format!("accepted document has unsupported version {v}"), wit.clone()));
    }
}

fn payload_kind(doc: &Doc) -> &'static str {
    fn walk(v: &Value, non_nfc: &mut bool, float: &mut bool, collide: &mut bool) {
        match v {
            Value::String(s) => *non_nfc |= !is_nfc(s),
            Value::Number(n) => *float |= n.is_f64(),
            Value::Array(a) => a.iter().for_each(|x| walk(x, non_nfc, float, collide)),
            Value::Object(o) => {
                let mut seen: Vec<String> = vec![];
                for (k, x) in o {
                    *non_nfc |= !is_nfc(k);
                    let n: String = k.nfc().collect();
                    if seen.contains(&n) {
                        *collide = true;
                    }
                    seen.push(n);
                    walk(x, non_nfc, float, collide);
                }
            }
            _ => {}
        }
    }
    let (mut n, mut f, mut c) = (false, false, false);
    for p in doc.payload().values() {
        walk(p, &mut n, &mut f, &mut c);
    }
    if f {
        "float-in-payload"
    } else if c {
        "payload-keys-equal-after-nfc"
    } else if n {
        "non-nfc-payload-string"
    } else {
        "plain"
    }
}

/// encode → decode → equal; oid == id git gives the bytes. Returns a label.
fn roundtrip(doc: &Doc, wit: &Value, vs: &mut Vec<Violation>) -> String {
    let kind = payload_kind(doc);
    let (oid, bytes) = match doc.encode() {
        Ok(x) => x,
        Err(e) => {
            let fp = if kind == "float-in-payload" { "C19/encode/float-in-payload".to_string() } else { format!("C19/encode/failed/{kind}") };
            vs.push(Violation::new(fp, format!("a valid document cannot be encoded: {e}"), wit.clone()));
            return format!("encode-fails({kind})");
        }
    };
    let git_oid = with_blobs(|b| {
        let o = b.repo.blob(&bytes).expect("blob write");
        let _ = b.pack.reset();
        o
    });
    if git_oid != *oid {
        vs.push(Violation::new("C19/blob-hash", format!("Doc::encode reports oid {oid}, git stores the bytes as {git_oid}"), wit.clone()));
    }
    match serde_json::from_slice::<Doc>(&bytes) {
        Ok(back) if &back == doc => format!("roundtrip-equal({kind})"),
        Ok(back) if kind == "payload-keys-equal-after-nfc" && back.payload() != doc.payload() => {
            let text = wit.get("doc").and_then(Value::as_str).unwrap_or("");
            observe("keys_equal_after_nfc", ((text.len() as u64) << 20) | (wit.get("index").and_then(Value::as_u64).unwrap_or(0) & 0xfffff) | if wit.get("edit").is_some() { 1 << 40 } else { 0 }, format!("decode(encode(doc)) != doc (payload differs); encoded: {}", String::from_utf8_lossy(&bytes).chars().take(300).collect::<String>()), wit.clone());
            format!("roundtrip-differs({kind}:observation)")
        }
        Ok(back) => {
            let fp = if kind == "plain" { "C19/encode-decode/differs".to_string() } else { format!("C19/encode-decode/{kind}") };
            let what = if back.payload() != doc.payload() { "payload" } else { "non-payload fields" };
            vs.push(Violation::new(fp, format!("decode(encode(doc)) != doc ({what} differ; payload kind: {kind}); encoded: {}", String::from_utf8_lossy(&bytes).chars().take(300).collect::<String>()), wit.clone()));
            format!("roundtrip-differs({kind})")
        }
        Err(e) => {
            vs.push(Violation::new(format!("C19/encode-decode/rejected/{kind}"), format!("the encoding of a valid document is rejected: {e}"), wit.clone()));
            format!("roundtrip-rejected({kind})")
        }
    }
}

const EDITS: [&str; 10] = ["push-existing", "push-new", "rescind-first", "threshold+1", "threshold-1", "threshold=0", "clear-delegates", "private", "push-250-new", "threshold=256"];

fn apply_edit(raw: &mut RawDoc, e: &str) {
    match e {
        "push-existing" => {
            if let Some(d) = raw.delegates.first().copied() {
                raw.delegates.push(d)
            }
        }
        "push-new" => raw.delegates.push(did(1000)),
        "rescind-first" => {
            if let Some(d) = raw.delegates.first().copied() {
                let _ = raw.rescind(&d);
            }
        }
        "threshold+1" => raw.threshold += 1,
        "threshold-1" => raw.threshold = raw.threshold.saturating_sub(1),
        "threshold=0" => raw.threshold = 0,
        "clear-delegates" => raw.delegates.clear(),
        "private" => raw.visibility = Visibility::private([did(2000)]),
        "push-250-new" => raw.delegates.extend((0..250).map(|i| did(3000 + i))),
        "threshold=256" => raw.threshold = 256,
        _ => unreachable!(),
    }
}

fn neighbours(doc: &Doc, wit: &Value, vs: &mut Vec<Violation>) -> (u32, u32) {
    let (mut ok, mut rejected) = (0, 0);
    for e in EDITS {
        let mut model: Option<(usize, usize)> = None;
        let res = doc.clone().with_edits(|raw| {
            apply_edit(raw, e);
            let mut distinct: Vec<Did> = vec![];
            for d in &raw.delegates {
                if !distinct.contains(d) {
                    distinct.push(*d);
                }
            }
            model = Some((distinct.len(), raw.threshold));
        });
        let (c, t) = model.expect("edit ran");
        let mut w = wit.clone();
        w["edit"] = json!(e);
        match res {
            Ok(d2) => {
                ok += 1;
                if !(1..=255).contains(&c) || t < 1 || t > c {
                    vs.push(Violation::new(format!("C19/with_edits/accepted-invalid/{}", if !(1..=255).contains(&c) { "delegate-count" } else { "threshold" }), format!("edit {e} yields {c} distinct delegates and threshold {t}, yet verifies"), w.clone()));
                }
                invariants(&d2, "with_edits", &w, vs);
                roundtrip(&d2, &w, vs);
            }
            Err(_) => rejected += 1,
        }
    }
    (ok, rejected)
}

fn check_json(space: &Space, i: u64) -> ItemOut {
    let it = space.item(i);
    let dl = &space.delegates[it.delegates];
    let wit = json!({"kind": "json", "doc": it.text, "delegates": dl.name, "threshold": it.threshold_text, "thorough_space": space.thorough, "index": i});
    let bytes = it.text.as_bytes();
    let mut vs = vec![];
    let a = serde_json::from_slice::<Doc>(bytes).map_err(|e| err_label(&e));
    let b = RawDoc::from_json(bytes).and_then(RawDoc::verified).map_err(|e| err_label(&e));
    let c = with_blobs(|bl| {
        let oid = bl.repo.blob(bytes).expect("blob write");
        let r = {
            let blob = bl.repo.find_blob(oid).expect("find blob");
            Doc::from_blob(&blob).map_err(|e| err_label(&e))
        };
        let _ = bl.pack.reset();
        r
    });
    let mut accepted: Vec<(&str, Doc)> = vec![];
    let mut reason = String::new();
    for (name, r) in [("from_slice", a), ("raw.verified", b), ("from_blob", c)] {
        match r {
            Ok(d) => accepted.push((name, d)),
            Err(e) => reason = e,
        }
    }
    let outcome = if accepted.is_empty() {
        format!("rejected:{reason}")
    } else {
        // model of the offered JSON
        for (path, doc) in &accepted {
            let clause = format!("accepted-invalid/{path}");
            match dl.distinct {
                Some(n) if (1..=255).contains(&n) => {}
                other => vs.push(Violation::new(format!("C19/{clause}/json-delegates"), format!("{path} accepts a document whose delegates are {} ({:?} distinct)", dl.name, other), wit.clone()).cost(it.text.len() as u64)),
            }
            if let (Some(t), Some(n)) = (it.threshold, dl.distinct) {
                if t < 1 || t > n as i128 {
                    vs.push(Violation::new(format!("C19/{clause}/json-threshold"), format!("{path} accepts threshold {t} with {n} distinct delegates"), wit.clone()).cost(it.text.len() as u64));
                }
            }
            if let Some(v) = it.version {
                if v < 1 || v > u32::from(IDENTITY_VERSION) as i128 {
                    vs.push(Violation::new(format!("C19/{clause}/json-version"), format!("{path} accepts version {v}"), wit.clone()).cost(it.text.len() as u64));
                }
            }
            invariants(doc, &clause, &wit, &mut vs);
        }
        let agree = accepted.len() == 3 && accepted.iter().all(|(_, d)| d == &accepted[0].1);
        let doc = &accepted[0].1;
        let rt = roundtrip(doc, &wit, &mut vs);
        let (ok, rej) = neighbours(doc, &wit, &mut vs);
        format!("accepted{}:{rt}:edits-verified={ok}/{}", if agree { "" } else { "(paths-disagree)" }, ok + rej)
    };
    for v in vs.iter_mut() {
        v.cost = ((it.text.len() as u64) << 20) | (i & 0xfffff);
    }
    let class = if it.duplicate_of_other_item { 0 } else { mcx::fnv64(format!("json/{i}").as_bytes()) | 1 };
    let _ = it.payload;
    ItemOut::new(class, outcome).with(vs)
}

// ---------------------------------------------------------------------------------------------
// real inits

fn git_hash_object(bytes: &[u8]) -> String {
    let mut child = std::process::Command::new("git")
        .args(["hash-object", "--stdin"])
        .env_clear()
        .env("PATH", std::env::var("PATH").unwrap_or_default())
        .stdin(std::process::Stdio::piped())
        .stdout(std::process::Stdio::piped())
        .spawn()
        .unwrap_or_else(|e| mcx::report::machinery(&format!("cannot run git hash-object: {e}")));
    child.stdin.take().expect("stdin").write_all(bytes).expect("write to git");
    let out = child.wait_with_output().expect("git output");
    String::from_utf8_lossy(&out.stdout).trim().to_string()
}

fn init_docs() -> Vec<(String, Doc)> {
    let signer = Did::from(*MockSigner::from_seed([7u8; 32]).public_key());
    let project = |name: &str, desc: &str| Project::new(name.try_into().expect("name"), desc.to_string(), radicle::git::refname!("master")).expect("project");
    let mut v: Vec<(String, Doc)> = vec![];
    v.push(("initial-public".into(), Doc::initial(project("acme", "Acme"), signer, Visibility::Public)));
    v.push(("initial-private".into(), Doc::initial(project("acme", "Acme"), signer, Visibility::private([]))));
    v.push(("initial-private-allow".into(), Doc::initial(project("acme", "Acme"), signer, Visibility::private([did(5), did(6)]))));
    v.push(("unicode-nfc".into(), Doc::initial(project("caf\u{e9}", "Caf\u{e9} \u{1d11e} \"quoted\" \\ \u{1}\n"), signer, Visibility::Public)));
    v.push(("description-nfd".into(), Doc::initial(project("acme", "Cafe\u{301}"), signer, Visibility::Public)));
    v.push(("name-hangul-jamo".into(), Doc::initial(project("\u{1100}\u{1161}", "d"), signer, Visibility::Public)));
    for (n, t) in [(2usize, 1usize), (2, 2), (3, 2), (255, 1), (255, 255)] {
        let mut ds = vec![signer];
        ds.extend((1..n).map(did));
        v.push((format!("delegates-{n}-threshold-{t}"), RawDoc::new(project("acme", "Acme"), ds, t, Visibility::Public).verified().expect("valid doc")));
    }
    let mut raw = RawDoc::new(project("acme", "Acme"), vec![signer, did(1)], 2, Visibility::private([did(3)]));
    raw.payload.insert(PayloadId::from_str("xyz.radicle.extra").expect("id"), json!({"z": [1, {"y": null, "a": "\t"}], "": u64::MAX}).into());
    v.push(("extra-payload".into(), raw.verified().expect("valid doc")));
    v
}

fn check_init(docs: &[(String, Doc)], i: u64) -> ItemOut {
    let (name, doc) = &docs[i as usize];
    let wit = json!({"kind": "init", "name": name});
    let mut vs = vec![];
    let dir = SCRATCH.get().expect("scratch").join(format!("init-{i}"));
    let signer = Device::mock_from_seed([7u8; 32]);
    let storage = Storage::open(dir.join("storage"), radicle::git::UserInfo { alias: radicle::node::Alias::new("codec"), key: *signer.public_key() }).expect("open storage");
    let bytes = match doc.encode() {
        Ok((_, b)) => b,
        Err(e) => return ItemOut::new(1, format!("init:encode-fails:{}", err_label(&e))),
    };
    let want = git_hash_object(&bytes);
    let outcome = match Repository::init(doc, &storage, &signer) {
        Err(e) => format!("init:failed:{}", err_label(&e)),
        Ok((repo, commit)) => {
            if repo.id.to_string() != RepoId::from(git2::Oid::from_str(&want).expect("oid from git")).to_string() || **repo.id != git2::Oid::from_str(&want).expect("oid") {
                vs.push(Violation::new("C19/init/repo-id", format!("Repository::init gives id {} ({}), git hash-object of the canonical encoding is {want}", repo.id, *repo.id), wit.clone()));
            }
            // the blob stored at the root commit is the canonical encoding and carries that id
            match repo.identity_doc_at(commit) {
                Ok(at) => {
                    if at.blob.to_string() != want {
                        vs.push(Violation::new("C19/init/stored-blob", format!("identity blob at the root commit is {}, expected {want}", at.blob), wit.clone()));
                    }
                    invariants(&at.doc, "init", &wit, &mut vs);
                    if &at.doc != doc {
                        let kind = payload_kind(doc);
                        let fp = if kind == "plain" { "C19/encode-decode/differs".to_string() } else { format!("C19/encode-decode/{kind}") };
                        vs.push(Violation::new(fp, format!("document read back from the initialised repository differs from the document it was initialised with (payload kind {kind}, init case {name})"), wit.clone()));
                        format!("init:ok:stored-doc-differs({kind})")
                    } else {
                        "init:ok:stored-doc-equal".to_string()
                    }
                }
                Err(e) => {
                    vs.push(Violation::new("C19/init/stored-doc-unreadable", format!("identity document of the fresh repository cannot be loaded: {e}"), wit.clone()));
                    "init:ok:stored-doc-unreadable".to_string()
                }
            }
        }
    };
    let _ = std::fs::remove_dir_all(&dir);
    ItemOut::new(mcx::fnv64(name.as_bytes()) | 1, outcome).with(vs)
}

fn main() {
    let ctx = Ctx::from_env("C19", "exploration");
    std::env::set_var("GIT_COMMITTER_DATE", "1514817556");
    let tmp = tempfile::Builder::new().prefix("c19-").tempdir().unwrap_or_else(|e| mcx::report::machinery(&format!("tempdir: {e}")));
    SCRATCH.set(tmp.path().to_path_buf()).expect("scratch once");
    let thorough = ctx.tier == mcx::Tier::Thorough;
    let docs = init_docs();

    if let Some(w) = ctx.replay_witness() {
        let vs = match w.get("kind").and_then(Value::as_str) {
            Some("init") => {
                let name = w["name"].as_str().unwrap_or("");
                match docs.iter().position(|(n, _)| n == name) {
                    Some(i) => check_init(&docs, i as u64).violations,
                    None => mcx::report::machinery("replay: unknown init case"),
                }
            }
            _ => {
                // locate the item: by (space, index) when recorded, else by its text
                let text = w["doc"].as_str().unwrap_or("").to_string();
                let mut found = None;
                if let (Some(t), Some(i)) = (w.get("thorough_space").and_then(Value::as_bool), w.get("index").and_then(Value::as_u64)) {
                    let sp = Space::new(t);
                    if i < sp.radix.size() && sp.item(i).text == text {
                        found = Some(check_json(&sp, i).violations);
                    }
                }
                if found.is_none() {
                    for t in [false, true] {
                        let sp = Space::new(t);
                        if let Some(i) = (0..sp.radix.size()).find(|i| sp.item(*i).text == text) {
                            found = Some(check_json(&sp, i).violations);
                            break;
                        }
                    }
                }
                let found = found.unwrap_or_else(|| mcx::report::machinery("replay: document text not found in the space"));
                let edit = w.get("edit").and_then(Value::as_str);
                found.into_iter().filter(|v| v.witness.get("edit").and_then(Value::as_str) == edit).collect()
            }
        };
        drop(tmp);
        ctx.finish_replay(vs);
    }

    let space = Space::new(thorough);
    let n = space.radix.size();
    let mut st = sweep::threads(
        n,
        |i| check_json(&space, i),
        Some(|i: u64, c: &Caught| {
            let it = space.item(i);
            Violation::new(format!("C19/panic/{}", c.site()), format!("document handling panics: {} ({}:{})", c.message, c.file, c.line), json!({"kind": "json", "doc": it.text})).cost(it.text.len() as u64)
        }),
    );
    // Real inits: sequential-ish (each spawns git hash-object once); threads driver is fine, the
    // storages are separate directories.
    st.merge(sweep::threads(
        docs.len() as u64,
        |i| check_init(&docs, i),
        Some(|i: u64, c: &Caught| Violation::new(format!("C19/init/panic/{}", c.site()), format!("Repository::init panics: {}", c.message), json!({"kind": "init", "name": docs[i as usize].0}))),
    ));

    let samples = vec![
        json!({"kind": "json", "doc": space.item(0).text}),
        json!({"kind": "json", "doc": space.item(n / 3).text.chars().take(400).collect::<String>()}),
        json!({"kind": "json", "doc": space.item(n - 1).text}),
        json!({"kind": "init", "names": docs.iter().map(|(n, _)| n.clone()).collect::<Vec<_>>()}),
    ];
    let mut cov = st.coverage(
        "json: delegates list (length × duplicate pattern, plus garbage entry / not an array / absent) × 14 thresholds (0,1,2,n-1,n,n+1,255,256,300,-1,u64::MAX,1.5,\"1\",absent; n = distinct delegates) \
         × version × visibility × payload × unknown field; each text goes through from_slice::<Doc>, RawDoc::from_json+verified and Doc::from_blob; every accepted document and its 10 with_edits neighbours are encoded, hashed by git and decoded. \
         init: real Repository::init per listed document. Trivial = a threshold value that repeats an earlier one of the same delegates list; every other index is a distinct text",
        samples,
    );
    cov.insert("observations".into(), observations_json(&[("keys_equal_after_nfc", "payload object with two keys that become equal under NFC: the canonical encoder drops one member, so the decoded document differs; classified with C18's observation (outside C18's clauses), not a violation here")]));
    cov.insert("delegates_alphabet".into(), json!(space.delegates.iter().map(|d| d.name.clone()).collect::<Vec<_>>()));
    cov.insert("versions".into(), json!(space.versions.iter().map(|v| v.0).collect::<Vec<_>>()));
    cov.insert("visibilities".into(), json!(space.visibilities.len()));
    cov.insert("payloads".into(), json!(space.payloads.iter().map(|p| p.0).collect::<Vec<_>>()));
    cov.insert("with_edits".into(), json!(EDITS));
    cov.insert("max_delegates_const".into(), json!(MAX_DELEGATES));
    let violations = std::mem::take(&mut st.violations);
    drop(tmp);
    ctx.finish(
        cov,
        &[
            "trusted: git / libgit2 object hashing (git hash-object for the inits, an in-memory libgit2 object database for the sweep)",
            "PartialEq of Doc is the notion of 'equal document'",
            "DIDs are syntactically valid keys built from byte patterns (no curve check is part of DID parsing)",
            "non-NFC / NFC-colliding / float payloads are valid documents by the code's own acceptance; their round-trip results carry separate fingerprints",
        ],
        violations,
    );
}
