//! C01 — Replicated refs always match their owner's signed refs.
//!
//! Engine B (`sweep::threads`), fault enumeration over the content of the *serving* repository.
//! Every item runs one real `radicle_fetch::clone` / `pull` (real `Handle`, real fetcher
//! `Storage`) against `git upload-pack` spawned exactly as the node's upload-pack worker spawns
//! it, in a serving repository whose namespaces carry one tamper each (see `fetchfix.rs`).
//!
//! Space: `Π_ns tamper(ns)` × (clone | pull-from-v1 | pull-from-v2) × announced `refs_at`
//! (absent | honest tips of all / one / no namespace | stale generation-1 / generation-2 oids | oids unknown to
//! the server; pulls only) × scope (All | Followed) × serving peer (delegate | non-delegate owner |
//! not an owner). The fetcher's prior state is the product of real honest fetches.
//!
//! Oracle (the statement): snapshot all refs of the repository the fetch wrote to, before and
//! after. For every namespace whose ref set changed: (a) its refs without `rad/sigrefs` equal,
//! name for name and oid for oid, the parsed `refs` blob of the commit now at `rad/sigrefs`;
//! (b) the `signature` blob verifies for the namespace key over the canonical text (independent
//! `PublicKey::verify`); (c) a signed `refs/rad/root` resolves to an identity document whose blob
//! id is this repository's id. For every namespace the harness built as invalid — taking the
//! offered `rad/sigrefs` and the refs it lists could not yield a namespace satisfying (a)–(c): no
//! `rad/sigrefs`, broken or foreign-key signature, foreign identity root, a blob that lists
//! `rad/sigrefs` itself, a listed object that the server cannot deliver — pre and post are equal.
//!
//! Not demanded: that a valid namespace is updated; anything about `FetchResult.applied`;
//! that a server refdb which merely deviates from an intact signed-refs commit (unsigned extra
//! ref, moved ref, missing ref) is refused — data refs are never advertised to the fetcher, it
//! fetches the signed oids, and the resulting namespace is judged by (a)–(c). A clone that
//! returns `Err` is discarded by the node's worker (the temporary repository is dropped), so it
//! counts as "nothing changed".

#[path = "../fetchfix.rs"]
mod fetchfix;

use std::collections::BTreeMap;
use std::sync::Mutex;

use fetchfix::*;
use mcx::report::{machinery, Ctx, Violation};
use mcx::sweep::{self, ItemOut, NoPanic, Radix};
use radicle::crypto::{PublicKey, Signature};
use radicle::identity::{Doc, RepoId};
use radicle::storage::git::Repository;
use radicle::storage::refs::RefsAt;
use radicle_fetch::Allowed;
use serde_json::{json, Value};

#[derive(Clone, Copy, Debug, PartialEq, Eq)]
enum RefsAtKind {
    /// `refs_at = None`
    None,
    /// the current `rad/sigrefs` oid the server holds for every namespace that has one
    Tips,
    /// … for one namespace only (position in the fixture's owner list)
    TipsOnly(usize),
    /// `Some(vec![])`
    Empty,
    /// the generation-1 oid of every namespace (an announcement that is older than the server)
    Stale,
    /// the generation-2 oid of every namespace (older than the server for the hand-written tips)
    StaleV2,
    /// an oid that exists nowhere, for every namespace
    Unknown,
}

impl RefsAtKind {
    fn name(&self) -> String {
        match self {
            RefsAtKind::None => "none".into(),
            RefsAtKind::Tips => "tips".into(),
            RefsAtKind::TipsOnly(k) => format!("tips-only-{k}"),
            RefsAtKind::Empty => "empty".into(),
            RefsAtKind::Stale => "stale-v1".into(),
            RefsAtKind::StaleV2 => "stale-v2".into(),
            RefsAtKind::Unknown => "unknown-oid".into(),
        }
    }
    fn parse(s: &str) -> RefsAtKind {
        match s {
            "none" => RefsAtKind::None,
            "tips" => RefsAtKind::Tips,
            "empty" => RefsAtKind::Empty,
            "stale-v1" => RefsAtKind::Stale,
            "stale-v2" => RefsAtKind::StaleV2,
            "unknown-oid" => RefsAtKind::Unknown,
            o => match o.strip_prefix("tips-only-").and_then(|k| k.parse().ok()) {
                Some(k) => RefsAtKind::TipsOnly(k),
                None => machinery(&format!("replay: refs_at {o}")),
            },
        }
    }
}

#[derive(Clone, Copy, Debug, PartialEq, Eq)]
enum Scope {
    All,
    /// `Allowed::Followed` naming the non-delegate owners
    FollowedOthers,
    /// `Allowed::Followed` with an empty set (delegates only)
    FollowedNone,
}

impl Scope {
    fn name(&self) -> &'static str {
        match self {
            Scope::All => "all",
            Scope::FollowedOthers => "followed-non-delegates",
            Scope::FollowedNone => "followed-nobody",
        }
    }
    fn parse(s: &str) -> Scope {
        match s {
            "all" => Scope::All,
            "followed-non-delegates" => Scope::FollowedOthers,
            "followed-nobody" => Scope::FollowedNone,
            o => machinery(&format!("replay: scope {o}")),
        }
    }
}

#[derive(Clone, Debug)]
struct Item {
    /// one tamper per fixture owner, in owner order
    tampers: Vec<Tamper>,
    mode: Mode,
    refs_at: RefsAtKind,
    scope: Scope,
    /// key slot of the peer the fetch is made from
    serving: usize,
}

struct Family {
    alphabets: Vec<Vec<Tamper>>,
    combos: Vec<(Mode, RefsAtKind)>,
    scopes: Vec<Scope>,
    servings: Vec<usize>,
    radix: Radix,
}

impl Family {
    fn new(alphabets: Vec<Vec<Tamper>>, combos: Vec<(Mode, RefsAtKind)>, scopes: Vec<Scope>, servings: Vec<usize>) -> Family {
        let mut dims: Vec<u64> = alphabets.iter().map(|a| a.len() as u64).collect();
        dims.extend([combos.len() as u64, scopes.len() as u64, servings.len() as u64]);
        Family { alphabets, combos, scopes, servings, radix: Radix::new(&dims) }
    }
    fn decode(&self, i: u64) -> Item {
        let d = self.radix.decode(i);
        let n = self.alphabets.len();
        let (mode, refs_at) = self.combos[d[n] as usize];
        Item { tampers: (0..n).map(|k| self.alphabets[k][d[k] as usize]).collect(), mode, refs_at, scope: self.scopes[d[n + 1] as usize], serving: self.servings[d[n + 2] as usize] }
    }
}

struct Space {
    families: Vec<Family>,
}

impl Space {
    fn size(&self) -> u64 {
        self.families.iter().map(|f| f.radix.size()).sum()
    }
    fn decode(&self, mut i: u64) -> Item {
        for f in &self.families {
            if i < f.radix.size() {
                return f.decode(i);
            }
            i -= f.radix.size();
        }
        machinery("index outside the space")
    }
}

/// The 15 offered states of the property's quantifier (the design's 12 plus a signed object the
/// server cannot deliver and two honest updates beyond what the fetcher holds: a new commit, and a
/// data ref rolled back to an ancestor).
const ALPHABET: [Tamper; 15] = [
    Tamper::Honest,
    Tamper::ExtraUnsignedRef,
    Tamper::RefMoved,
    Tamper::SignedRefMissing,
    Tamper::SigrefsMissing,
    Tamper::BadSignature,
    Tamper::ReKeyed,
    Tamper::ForeignRid,
    Tamper::ListsSigrefsItself,
    Tamper::OddCategory,
    Tamper::Rewound,
    Tamper::Diverged,
    Tamper::SignedObjectMissing,
    Tamper::AheadV3,
    Tamper::AheadRollback,
];

/// Harness knowledge: the offered namespace cannot be replicated into one that satisfies (a)–(c).
fn built_invalid(t: Tamper) -> bool {
    matches!(t, Tamper::SigrefsMissing | Tamper::BadSignature | Tamper::ReKeyed | Tamper::ForeignRid | Tamper::ListsSigrefsItself | Tamper::SignedObjectMissing)
}

fn pulls(kinds: &[RefsAtKind]) -> Vec<(Mode, RefsAtKind)> {
    let mut v = vec![(Mode::Clone, RefsAtKind::None)];
    for m in [Mode::PullV1, Mode::PullV2] {
        for k in kinds {
            v.push((m, *k));
        }
    }
    v
}

fn config(thorough: bool) -> FixCfg {
    if thorough {
        FixCfg { delegates: vec![D1, D2], threshold: 1, others: vec![N1], local_is_delegate: false }
    } else {
        FixCfg { delegates: vec![D1], threshold: 1, others: vec![N1], local_is_delegate: false }
    }
}

fn space(thorough: bool) -> Space {
    let full = ALPHABET.to_vec();
    if !thorough {
        // d1 (delegate) × n1 (non-delegate). Every offered state on one namespace while the other is
        // honest, plus every state of d1 against a forged n1; the full 13 × 13 product is part of
        // the thorough tier (each fetch spawns ~9 git processes: ≈1.5 CPU-s per item).
        let kinds = [RefsAtKind::None, RefsAtKind::Tips, RefsAtKind::Stale, RefsAtKind::StaleV2];
        return Space {
            families: vec![
                Family::new(vec![full.clone(), vec![Tamper::Honest, Tamper::BadSignature]], pulls(&kinds), vec![Scope::All], vec![D1]),
                Family::new(vec![vec![Tamper::Honest], full.iter().copied().filter(|t| !matches!(t, Tamper::Honest | Tamper::BadSignature)).collect()], pulls(&kinds), vec![Scope::All], vec![D1]),
            ],
        };
    }
    // owners: d1, d2 (delegates, threshold 1), n1
    // (announcing d2 only is symmetric to announcing d1 only and is omitted)
    let kinds = [RefsAtKind::None, RefsAtKind::Tips, RefsAtKind::TipsOnly(0), RefsAtKind::TipsOnly(2), RefsAtKind::Empty, RefsAtKind::Stale, RefsAtKind::StaleV2, RefsAtKind::Unknown];
    // d2 skips the three refdb-only deviations (they are enumerated on d1 and n1)
    let second: Vec<Tamper> = full.iter().copied().filter(|t| !matches!(t, Tamper::ExtraUnsignedRef | Tamper::RefMoved | Tamper::SignedRefMissing)).collect();
    let some = vec![Tamper::Honest, Tamper::SigrefsMissing, Tamper::BadSignature, Tamper::OddCategory, Tamper::Diverged];
    let few = vec![(Mode::Clone, RefsAtKind::None), (Mode::PullV1, RefsAtKind::None), (Mode::PullV2, RefsAtKind::None), (Mode::PullV2, RefsAtKind::Tips)];
    Space {
        families: vec![
            Family::new(vec![full.clone(), second.clone(), full.clone()], pulls(&kinds), vec![Scope::All], vec![D1]),
            Family::new(vec![full.clone(), full.clone(), some], vec![(Mode::Clone, RefsAtKind::None), (Mode::PullV1, RefsAtKind::None), (Mode::PullV2, RefsAtKind::None)], vec![Scope::FollowedOthers], vec![D1]),
            Family::new(vec![full.clone(), full.clone(), vec![Tamper::Honest, Tamper::ExtraUnsignedRef, Tamper::BadSignature]], few.clone(), vec![Scope::FollowedNone], vec![D1]),
            Family::new(vec![full.clone(), vec![Tamper::Honest], full.clone()], few, vec![Scope::All], vec![N1, OUTSIDER]),
        ],
    }
}

fn refs_at_of(fx: &Fixture, item: &Item) -> Option<Vec<RefsAt>> {
    let tip = |k: usize| -> Option<RefsAt> {
        let o = &fx.owners[k];
        o.offered_tip(item.tampers[k]).map(|at| RefsAt { remote: o.key, at: at.into() })
    };
    match item.refs_at {
        RefsAtKind::None => None,
        RefsAtKind::Tips => Some((0..fx.owners.len()).filter_map(tip).collect()),
        RefsAtKind::TipsOnly(k) => Some(tip(k).into_iter().collect()),
        RefsAtKind::Empty => Some(vec![]),
        RefsAtKind::Stale => Some(fx.owners.iter().map(|o| RefsAt { remote: o.key, at: o.s1.into() }).collect()),
        RefsAtKind::StaleV2 => Some(fx.owners.iter().map(|o| RefsAt { remote: o.key, at: o.s2.into() }).collect()),
        RefsAtKind::Unknown => Some(fx.owners.iter().map(|o| RefsAt { remote: o.key, at: o.nowhere.into() }).collect()),
    }
}

fn item_json(fx: &Fixture, item: &Item, seed: u64) -> Value {
    json!({
        "cfg": fx.cfg.describe(),
        "tampers": fx.owners.iter().zip(&item.tampers).map(|(o, t)| (o.name().to_string(), Value::String(t.name().into()))).collect::<serde_json::Map<String, Value>>(),
        "mode": item.mode.name(),
        "refs_at": item.refs_at.name(),
        "scope": item.scope.name(),
        "serving_peer": KEY_NAMES[item.serving],
        "seed": seed,
    })
}

fn item_from_json(w: &Value) -> (FixCfg, Item) {
    let cfg = FixCfg::from_json(&w["cfg"]);
    let mut slots: Vec<usize> = cfg.delegates.clone();
    slots.extend(&cfg.others);
    let tampers = slots.iter().map(|s| Tamper::parse(w["tampers"][KEY_NAMES[*s]].as_str().unwrap_or("honest"))).collect();
    let item = Item {
        tampers,
        mode: Mode::parse(w["mode"].as_str().unwrap_or("clone")),
        refs_at: RefsAtKind::parse(w["refs_at"].as_str().unwrap_or("none")),
        scope: Scope::parse(w["scope"].as_str().unwrap_or("all")),
        serving: key_index(w["serving_peer"].as_str().unwrap_or("d1")),
    };
    (cfg, item)
}

fn cost(item: &Item) -> u64 {
    item.tampers.iter().filter(|t| **t != Tamper::Honest).count() as u64 * 10
        + item.tampers.len() as u64 * 5
        + match item.mode {
            Mode::Clone => 0,
            _ => 3,
        }
        + (item.refs_at != RefsAtKind::None) as u64 * 2
        + (item.scope != Scope::All) as u64
        + (item.serving != D1) as u64
}

struct Judged {
    violations: Vec<Violation>,
    outcome: String,
    /// (role, tamper, changed?)
    effects: Vec<(String, &'static str, bool)>,
}

fn run_item(fx: &Fixture, item: &Item, seed: u64) -> Judged {
    let work = tempfile::Builder::new().prefix("c01-").tempdir().unwrap();
    let tampers: BTreeMap<usize, Tamper> = fx.owners.iter().zip(&item.tampers).map(|(o, t)| (o.slot, *t)).collect();
    let server_git = fx.serve(&work.path().join("srv"), &tampers);
    let others: Vec<PublicKey> = fx.owners.iter().filter(|o| !o.is_delegate).map(|o| o.key).collect();
    let allowed = match item.scope {
        Scope::All => Allowed::All,
        Scope::FollowedOthers => followed(&others),
        Scope::FollowedNone => followed(&[]),
    };
    let prior = match item.mode {
        Mode::Clone => None,
        Mode::PullV1 => Some(fx.fetcher_v1.as_path()),
        Mode::PullV2 => Some(fx.fetcher_v2.as_path()),
    };
    let fetcher_root = work.path().join("fetcher");
    let run = fetch(fx, &FetchSpec { mode: item.mode, prior, refs_at: refs_at_of(fx, item), allowed, serving: fx.keys.pk(item.serving), server_git: &server_git, fetcher_root: &fetcher_root, keep_discarded_clone: false });

    let wit = || item_json(fx, item, seed);
    let ctx = if item.mode == Mode::Clone { "clone" } else { "pull" };
    // An announcement of the honest generation-1 / generation-2 commit offers the fetcher a valid,
    // deliverable rad/sigrefs next to whatever the refdb advertises: nothing is "built invalid" then.
    let valid_alternative_announced = matches!(item.refs_at, RefsAtKind::Stale | RefsAtKind::StaleV2);
    let announced = refs_at_of(fx, item).unwrap_or_default();
    let mut vs = vec![];
    let mut effects = vec![];
    let empty = BTreeMap::new();
    let mut changed_count = 0;
    let namespaces: std::collections::BTreeSet<&String> = run.pre.keys().chain(run.post.keys()).filter(|k| !k.is_empty()).collect();
    let raw = git2::Repository::open_bare(&run.git_dir).unwrap();
    for ns in namespaces {
        let (pre, post) = (run.pre.get(ns).unwrap_or(&empty), run.post.get(ns).unwrap_or(&empty));
        let owner = fx.owner_by_ns(ns);
        let (role, tamper) = match owner {
            Some(o) => (if o.is_delegate { "delegate" } else { "non-delegate" }, item.tampers[fx.owners.iter().position(|x| x.slot == o.slot).unwrap()].name()),
            None => ("unknown-namespace", "none"),
        };
        if pre == post {
            continue;
        }
        changed_count += 1;
        let who = owner.map(|o| o.name()).unwrap_or("?");
        let describe = |what: String| format!("{what} [namespace of {who} ({role}), offered as {tamper}; {} with refs_at {}; fetch returned {}]", item.mode.name(), item.refs_at.name(), run.result.label());
        let mk = |clause: &str, what: String| Violation::new(format!("C01/{clause}/{ctx}"), describe(what), wit()).cost(cost(item));
        let by_tamper = format!("{role}/{tamper}");
        // (a)–(c) on the namespace as it now is
        let Some(sig_oid) = post.get(SIGREFS) else {
            let created: Vec<&String> = post.keys().filter(|k| pre.get(*k) != post.get(*k)).collect();
            vs.push(mk(&format!("changed-namespace-has-no-sigrefs/{by_tamper}"), format!("the fetch changed refs {created:?} of a namespace that has no rad/sigrefs afterwards")));
            continue;
        };
        let blobs = (|| -> Result<(Vec<u8>, Vec<u8>), String> {
            let commit = raw.find_commit(oid_of(sig_oid)).map_err(|e| e.to_string())?;
            let tree = commit.tree().map_err(|e| e.to_string())?;
            let get = |name: &str| -> Result<Vec<u8>, String> {
                let e = tree.get_name(name).ok_or_else(|| format!("no blob {name}"))?;
                Ok(raw.find_blob(e.id()).map_err(|e| e.to_string())?.content().to_vec())
            };
            Ok((get("refs")?, get("signature")?))
        })();
        let (refs_blob, sig_blob) = match blobs {
            Ok(b) => b,
            Err(e) => {
                vs.push(mk(&format!("sigrefs-unreadable/{by_tamper}"), format!("rad/sigrefs {sig_oid} of a changed namespace cannot be read: {e}")));
                continue;
            }
        };
        let signed = match parse_refs_blob(&refs_blob) {
            Ok(s) => s,
            Err(e) => {
                vs.push(mk(&format!("sigrefs-unreadable/{by_tamper}"), format!("refs blob of rad/sigrefs {sig_oid} does not parse: {e}")));
                continue;
            }
        };
        // (a)
        let have: BTreeMap<String, String> = post.iter().filter(|(k, _)| k.as_str() != SIGREFS).map(|(k, v)| (k.clone(), v.clone())).collect();
        let want: BTreeMap<String, String> = signed.iter().map(|(k, v)| (k.clone(), v.to_string())).collect();
        if have != want {
            let extra: Vec<&String> = have.keys().filter(|k| !want.contains_key(*k)).collect();
            let missing: Vec<&String> = want.keys().filter(|k| !have.contains_key(*k)).collect();
            let moved: Vec<&String> = have.keys().filter(|k| want.get(*k).is_some_and(|w| w != &have[*k])).collect();
            // Abstract shape of the inconsistency: where does the rad/sigrefs now in place come
            // from, and which signed-refs commit do the data refs now in place correspond to?
            let offered_tip = owner.and_then(|o| o.offered_tip(item.tampers[fx.owners.iter().position(|x| x.slot == o.slot).unwrap()])).map(|o| o.to_string());
            let announced_oid = owner.and_then(|o| announced.iter().find(|r| r.remote == o.key)).map(|r| r.at.to_string());
            let pre_sig = pre.get(SIGREFS).cloned();
            let content_of = |oid: &Option<String>| -> Option<BTreeMap<String, String>> {
                let c = raw.find_commit(oid_of(oid.as_ref()?)).ok()?;
                let e = c.tree().ok()?;
                let b = raw.find_blob(e.get_name("refs")?.id()).ok()?;
                Some(parse_refs_blob(b.content()).ok()?.into_iter().map(|(k, v)| (k, v.to_string())).collect())
            };
            let sig_src = if Some(sig_oid) == offered_tip.as_ref() {
                "offered-tip"
            } else if Some(sig_oid) == announced_oid.as_ref() {
                "announced-oid"
            } else if Some(sig_oid) == pre_sig.as_ref() {
                "kept"
            } else {
                "other"
            };
            let data_src = if content_of(&offered_tip).as_ref() == Some(&have) {
                "of-offered-tip"
            } else if content_of(&announced_oid).as_ref() == Some(&have) {
                "of-announced-oid"
            } else if content_of(&pre_sig).as_ref() == Some(&have) {
                "kept"
            } else {
                "mixed"
            };
            let ann = match (&announced_oid, &offered_tip) {
                (None, _) => "none",
                (Some(a), Some(o)) if a == o => "offered-tip",
                _ => "other-than-offered-tip",
            };
            vs.push(Violation::new(format!("C01/refs-differ-from-signed/{role}/announced-{ann}/sigrefs-{sig_src}/data-refs-{data_src}"), describe(format!("after the fetch the namespace differs from its signed refs at {sig_oid}: not signed {extra:?}, signed but absent {missing:?}, pointing elsewhere {moved:?}")), wit()).cost(cost(item)));
        }
        // (b)
        let verified = match (pk_of(ns), Signature::try_from(sig_blob.as_slice())) {
            (Some(pk), Ok(sig)) => pk.verify(canonical_text(&signed), &sig).is_ok(),
            _ => false,
        };
        if !verified {
            vs.push(mk(&format!("signature-does-not-verify/{by_tamper}"), format!("the signature blob of rad/sigrefs {sig_oid} does not verify for the namespace key")));
        }
        // (c)
        if let Some(root) = signed.get("refs/rad/root") {
            let repo = Repository::open(&run.git_dir, fx.rid).unwrap();
            let named: Option<RepoId> = Doc::load_at((*root).into(), &repo).ok().map(|d| RepoId::from(d.blob));
            if named != Some(fx.rid) || *root != fx.identity_root {
                vs.push(mk(&format!("signed-root-names-other-repository/{by_tamper}"), format!("signed refs/rad/root {root} names {named:?}, this repository is {}", fx.rid)));
            }
        }
    }
    for (k, o) in fx.owners.iter().enumerate() {
        let ns = o.key.to_string();
        let (pre, post) = (run.pre.get(&ns).unwrap_or(&empty), run.post.get(&ns).unwrap_or(&empty));
        let role = if o.is_delegate { "delegate" } else { "non-delegate" };
        let t = item.tampers[k];
        effects.push((role.to_string(), t.name(), pre != post));
        if built_invalid(t) && !valid_alternative_announced && pre != post {
            let diff: Vec<String> = pre.keys().chain(post.keys()).filter(|r| pre.get(*r) != post.get(*r)).map(|r| format!("{r}: {:?} -> {:?}", pre.get(r), post.get(r))).collect::<std::collections::BTreeSet<_>>().into_iter().collect();
            vs.push(
                Violation::new(
                    format!("C01/invalid-namespace-changed/{role}/{}/{ctx}", t.name()),
                    format!("namespace of {} ({role}) was offered as {} yet the fetch changed it: {diff:?} [{} with refs_at {}; fetch returned {}]", o.name(), t.name(), item.mode.name(), item.refs_at.name(), run.result.label()),
                    wit(),
                )
                .cost(cost(item)),
            );
        }
    }
    let partial = run.discarded.as_ref().is_some_and(|d| d.keys().any(|k| !k.is_empty()));
    let outcome = format!("{}:{}:{}", item.mode.name(), run.result.label(), if partial { "discarded-clone-had-refs".to_string() } else { format!("{changed_count}-ns-changed") });
    Judged { violations: vs, outcome, effects }
}

fn main() {
    fix_process_env();
    let ctx = Ctx::from_env("C01", "fault_enumeration");
    let thorough = ctx.tier == mcx::Tier::Thorough;

    if let Some(w) = ctx.replay_witness() {
        let (cfg, item) = item_from_json(&w);
        let seed = w["seed"].as_u64().unwrap_or(ctx.seed);
        let fx = Fixture::build(&cfg, seed);
        let t0 = std::time::Instant::now();
        let j = run_item(&fx, &item, seed);
        eprintln!("replay outcome: {} ({:.0} ms for the item)", j.outcome, t0.elapsed().as_secs_f64() * 1e3);
        ctx.finish_replay(j.violations);
    }

    let t_fix = std::time::Instant::now();
    let fx = Fixture::build(&config(thorough), ctx.seed);
    let fixture_s = t_fix.elapsed().as_secs_f64();
    let sp = space(thorough);
    let n = sp.size();
    let effects: Mutex<BTreeMap<String, u64>> = Mutex::new(BTreeMap::new());
    let t_sweep = std::time::Instant::now();
    let busy_ns = std::sync::atomic::AtomicU64::new(0);
    let mut st = sweep::threads(
        n,
        |i| {
            let t0 = std::time::Instant::now();
            let item = sp.decode(i);
            let j = run_item(&fx, &item, ctx.seed);
            {
                let mut g = effects.lock().unwrap();
                for (role, t, changed) in &j.effects {
                    *g.entry(format!("{role}:{t}:{}", if *changed { "changed" } else { "unchanged" })).or_insert(0) += 1;
                }
            }
            busy_ns.fetch_add(t0.elapsed().as_nanos() as u64, std::sync::atomic::Ordering::Relaxed);
            let trivial = item.tampers.iter().all(|t| *t == Tamper::Honest);
            let class = if trivial { 0 } else { mcx::fnv64(item_json(&fx, &item, 0).to_string().as_bytes()) | 1 };
            ItemOut::new(class, j.outcome).with(j.violations)
        },
        None::<NoPanic>,
    );
    let sweep_s = t_sweep.elapsed().as_secs_f64();
    let samples = sweep::sample_indexes(n).into_iter().map(|i| item_json(&fx, &sp.decode(i), ctx.seed)).collect();
    let mut cov = st.coverage(
        "one real radicle_fetch::clone/pull per item; item = (tamper per namespace of the serving repository) x (clone | pull from a fetcher that honestly fetched generation 1 | 2) x announced refs_at x scope x serving peer, \
         enumerated as a mixed-radix product per family; trivial = every namespace honest; distinct = distinct item",
        samples,
    );
    cov.insert("fixture".into(), fx.cfg.describe());
    cov.insert("tamper_alphabet".into(), json!(ALPHABET.iter().map(|t| t.name()).collect::<Vec<_>>()));
    cov.insert("built_invalid".into(), json!(ALPHABET.iter().filter(|t| built_invalid(**t)).map(|t| t.name()).collect::<Vec<_>>()));
    cov.insert("families".into(), json!(sp.families.iter().map(|f| json!({"size": f.radix.size(), "dims": f.radix.dims, "scopes": f.scopes.iter().map(|s| s.name()).collect::<Vec<_>>(), "serving": f.servings.iter().map(|s| KEY_NAMES[*s]).collect::<Vec<_>>(), "mode_x_refs_at": f.combos.iter().map(|(m, r)| format!("{}/{}", m.name(), r.name())).collect::<Vec<_>>()})).collect::<Vec<_>>()));
    cov.insert("namespace_effects".into(), json!(*effects.lock().unwrap()));
    cov.insert("fetches".into(), json!(n));
    cov.insert("ms_per_fetch_cpu".into(), json!(((busy_ns.load(std::sync::atomic::Ordering::Relaxed) as f64 / 1e6 / n.max(1) as f64) * 10.0).round() / 10.0));
    cov.insert("fixture_build_s".into(), json!((fixture_s * 100.0).round() / 100.0));
    cov.insert("sweep_wall_s".into(), json!((sweep_s * 100.0).round() / 100.0));
    // `finish` exits the process without running destructors: remove the fixture explicitly.
    let _ = std::fs::remove_dir_all(fx.root.path());
    ctx.finish(
        cov,
        &[
            "trusted: git upload-pack (spawned with the worker's exact command line), libgit2, the file system",
            "the git-daemon request line is stripped by the harness as the worker does; timeouts and the wire framing of radicle-node are not part of this check",
            "a clone that returns Err counts as unchanged because the node's worker drops the temporary repository (worker/fetch.rs: `clone(..)?` precedes `mv`)",
            "a serving refdb that deviates from an intact signed-refs commit (extra / moved / missing data ref) is not counted as invalid offered data: data refs are never advertised to the fetcher",
            "thorough tier omits refs_at naming exactly two of three namespaces and naming d2 alone (symmetric to d1 alone); in the main family d2 ranges over 10 of the 13 states (not the three refdb-only deviations); under scope Followed{n1} n1 ranges over 5 of the 13 states; the serving-peer family keeps d2 honest",
        ],
        std::mem::take(&mut st.violations),
    );
}
