//! C02 — Fetches respect the delegate threshold and never rewind delegate sigrefs.
//!
//! Engine B (`sweep::threads`), fault enumeration. Every item is one real `radicle_fetch::pull`
//! (real `Handle`, real fetcher `Storage`, `git upload-pack` spawned as the node's worker spawns
//! it) by a fetcher that holds generation 2 of every delegate (state produced by real honest
//! fetches), from a serving repository in which every remote delegate is in one offered state.
//!
//! Space: identity documents with k remote delegates (+ the local node as a further delegate or
//! not), every threshold 1..=n; per remote delegate a sigrefs state ∈ {missing, behind, equal,
//! ahead, diverged (from a common ancestor), diverged-unrelated (no common commit), invalid-signature, invalid-content}; announced `refs_at` absent | the tips the
//! server holds. ("invalid" of the property is split in two so that both the loader's rejection
//! and the validation/threshold arithmetic are reached.)
//!
//! Oracle (the statement): (1) every delegate's `rad/sigrefs` after the fetch equals or descends
//! from the one before. (2) valid = remote delegates offered {equal, ahead} with a verifying
//! signature, plus remote delegates the fetcher already holds that were not offered invalid data;
//! need = threshold, minus one if the local node is a delegate. If |valid| < need the call
//! returns `FetchResult::Failed` or `Err` and the complete ref snapshot is unchanged.
//! Not demanded: that a fetch with enough valid delegates succeeds or changes anything.
//!
//! Second pass: clones (empty fetcher storage) through the node's worker — see
//! `chk-node/src/bin/c02w.rs`, run as a sub-process and merged into this check's evidence.

#[path = "../fetchfix.rs"]
mod fetchfix;

use std::collections::BTreeMap;

use fetchfix::*;
use mcx::report::{machinery, Ctx, Violation};
use mcx::sweep::{self, ItemOut, NoPanic, Radix};
use radicle::storage::refs::RefsAt;
use radicle_fetch::Allowed;
use serde_json::{json, Value};

#[derive(Clone, Copy, Debug, PartialEq, Eq)]
enum DState {
    Missing,
    Behind,
    Equal,
    Ahead,
    Diverged,
    Unrelated,
    InvalidSignature,
    InvalidContent,
}

const STATES: [DState; 8] = [DState::Missing, DState::Behind, DState::Equal, DState::Ahead, DState::Diverged, DState::Unrelated, DState::InvalidSignature, DState::InvalidContent];
const FOURTH: [DState; 4] = [DState::Equal, DState::Ahead, DState::InvalidSignature, DState::InvalidContent];

impl DState {
    fn name(&self) -> &'static str {
        match self {
            DState::Missing => "missing",
            DState::Behind => "behind",
            DState::Equal => "equal",
            DState::Ahead => "ahead",
            DState::Diverged => "diverged",
            DState::Unrelated => "diverged-unrelated",
            DState::InvalidSignature => "invalid-signature",
            DState::InvalidContent => "invalid-content",
        }
    }
    fn parse(s: &str) -> DState {
        STATES.iter().copied().find(|d| d.name() == s).unwrap_or_else(|| machinery(&format!("replay: state {s}")))
    }
    /// what the serving repository holds for a delegate in this state
    fn tamper(&self) -> Tamper {
        match self {
            DState::Missing => Tamper::Absent,
            DState::Behind => Tamper::Rewound,
            DState::Equal => Tamper::Honest,
            DState::Ahead => Tamper::AheadV3,
            DState::Diverged => Tamper::Diverged,
            DState::Unrelated => Tamper::Unrelated,
            DState::InvalidSignature => Tamper::BadSignature,
            DState::InvalidContent => Tamper::ListsSigrefsItself,
        }
    }
    fn invalid(&self) -> bool {
        matches!(self, DState::InvalidSignature | DState::InvalidContent)
    }
}

#[derive(Clone, Debug)]
struct Item {
    fixture: usize,
    states: Vec<DState>,
    announce_tips: bool,
}

struct Family {
    fixture: usize,
    alphabets: Vec<Vec<DState>>,
    radix: Radix,
}

struct Space {
    families: Vec<Family>,
}

impl Space {
    fn size(&self) -> u64 {
        self.families.iter().map(|f| f.radix.size()).sum()
    }
    fn decode(&self, mut i: u64) -> Item {
        for f in &self.families {
            if i < f.radix.size() {
                let d = f.radix.decode(i);
                let k = f.alphabets.len();
                return Item { fixture: f.fixture, states: (0..k).map(|j| f.alphabets[j][d[j] as usize]).collect(), announce_tips: d[k] == 1 };
            }
            i -= f.radix.size();
        }
        machinery("index outside the space")
    }
}

const SLOTS: [usize; 4] = [D1, D2, D3, D4];

/// All identity documents of the tier: k remote delegates, local delegate or not, n = k + local
/// ≤ n_max, every threshold.
fn configs(thorough: bool) -> Vec<FixCfg> {
    let (k_max, n_max) = if thorough { (4, 4) } else { (2, 3) };
    let mut out = vec![];
    for k in 1..=k_max {
        for ld in [false, true] {
            let n = k + ld as usize;
            if n > n_max {
                continue;
            }
            for t in 1..=n {
                out.push(FixCfg { delegates: SLOTS[..k].to_vec(), threshold: t, others: vec![], local_is_delegate: ld });
            }
        }
    }
    out
}

fn space(cfgs: &[FixCfg], thorough: bool) -> Space {
    // quick: the second remote delegate skips `behind` and `invalid-content` (both are enumerated on
    // d1, and on every delegate in the thorough tier).
    let second: Vec<DState> = STATES.iter().copied().filter(|s| thorough || !matches!(s, DState::Behind | DState::InvalidContent)).collect();
    let families = cfgs
        .iter()
        .enumerate()
        .map(|(fi, c)| {
            let k = c.delegates.len();
            let alphabets: Vec<Vec<DState>> = (0..k).map(|j| if j == 3 { FOURTH.to_vec() } else if j == 1 { second.clone() } else { STATES.to_vec() }).collect();
            let mut dims: Vec<u64> = alphabets.iter().map(|a| a.len() as u64).collect();
            dims.push(2);
            Family { fixture: fi, alphabets, radix: Radix::new(&dims) }
        })
        .collect();
    Space { families }
}

fn item_json(fx: &Fixture, item: &Item, seed: u64) -> Value {
    json!({
        "cfg": fx.cfg.describe(),
        "states": fx.cfg.delegates.iter().zip(&item.states).map(|(s, d)| (KEY_NAMES[*s].to_string(), Value::String(d.name().into()))).collect::<serde_json::Map<String, Value>>(),
        "refs_at": if item.announce_tips { "tips" } else { "none" },
        "seed": seed,
    })
}

fn cost(fx: &Fixture, item: &Item) -> u64 {
    item.states.iter().filter(|s| **s != DState::Equal).count() as u64 * 10 + item.states.len() as u64 * 20 + fx.cfg.threshold as u64 * 3 + fx.cfg.local_is_delegate as u64 * 5 + item.announce_tips as u64
}

fn run_item(fx: &Fixture, item: &Item, seed: u64) -> (Vec<Violation>, String) {
    let work = tempfile::Builder::new().prefix("c02-").tempdir().unwrap();
    let tampers: BTreeMap<usize, Tamper> = fx.cfg.delegates.iter().zip(&item.states).map(|(s, d)| (*s, d.tamper())).collect();
    let server_git = fx.serve(&work.path().join("srv"), &tampers);
    let refs_at: Option<Vec<RefsAt>> = item.announce_tips.then(|| fx.cfg.delegates.iter().zip(&item.states).filter_map(|(s, d)| fx.owner(*s).offered_tip(d.tamper()).map(|at| RefsAt { remote: fx.keys.pk(*s), at: at.into() })).collect());
    let fetcher_root = work.path().join("fetcher");
    let run = fetch(fx, &FetchSpec { mode: Mode::PullV2, prior: Some(fx.fetcher_v2.as_path()), refs_at, allowed: Allowed::All, serving: fx.keys.pk(D1), server_git: &server_git, fetcher_root: &fetcher_root, keep_discarded_clone: false });

    let wit = || item_json(fx, item, seed);
    let mut vs = vec![];
    let raw = git2::Repository::open_bare(&run.git_dir).unwrap();
    let ra = if item.announce_tips { "refs_at-tips" } else { "refs_at-none" };
    let ld = if fx.cfg.local_is_delegate { "local-is-delegate" } else { "local-not-delegate" };
    let summary = format!("{} delegates {:?}, threshold {}, {ld}, {ra}; pull returned {}", item.states.len() + fx.cfg.local_is_delegate as usize, item.states.iter().map(|s| s.name()).collect::<Vec<_>>(), fx.cfg.threshold, run.result.label());

    // (1) no delegate's rad/sigrefs moves backwards or sideways
    for o in fx.owners.iter().filter(|o| o.is_delegate) {
        let ns = o.key.to_string();
        let pre = run.pre.get(&ns).and_then(|m| m.get(SIGREFS));
        let post = run.post.get(&ns).and_then(|m| m.get(SIGREFS));
        let state = fx.cfg.delegates.iter().position(|s| *s == o.slot).map(|j| item.states[j].name()).unwrap_or("local");
        match (pre, post) {
            (Some(a), Some(b)) if a == b => {}
            (Some(a), Some(b)) => {
                let forward = raw.graph_descendant_of(oid_of(b), oid_of(a)).unwrap_or(false);
                if !forward {
                    vs.push(Violation::new(format!("C02/delegate-sigrefs-not-forward/{state}/{ra}"), format!("rad/sigrefs of delegate {} moved {a} -> {b}, which is not a descendant [{summary}]", o.name()), wit()).cost(cost(fx, item)));
                }
            }
            (Some(a), None) => vs.push(Violation::new(format!("C02/delegate-sigrefs-removed/{state}/{ra}"), format!("rad/sigrefs of delegate {} ({a}) was removed [{summary}]", o.name()), wit()).cost(cost(fx, item))),
            (None, _) => {}
        }
    }

    // (2) threshold, counted as the statement counts
    let valid = item.states.iter().filter(|s| !s.invalid()).count();
    let need = fx.cfg.threshold.saturating_sub(fx.cfg.local_is_delegate as usize);
    let below = valid < need;
    let changed = run.pre != run.post;
    if below {
        if run.result.is_success() {
            vs.push(Violation::new(format!("C02/below-threshold-reported-success/{ld}/{ra}"), format!("only {valid} remote delegate(s) have valid signed refs, {need} needed, yet the pull reported success [{summary}]"), wit()).cost(cost(fx, item)));
        }
        if changed {
            let diff: Vec<String> = run
                .pre
                .keys()
                .chain(run.post.keys())
                .collect::<std::collections::BTreeSet<_>>()
                .into_iter()
                .filter(|ns| run.pre.get(*ns) != run.post.get(*ns))
                .map(|ns| fx.owner_by_ns(ns).map(|o| o.name().to_string()).unwrap_or_else(|| ns.clone()))
                .collect();
            vs.push(Violation::new(format!("C02/below-threshold-storage-changed/{ld}/{ra}/{}", run.result.label()), format!("only {valid} remote delegate(s) have valid signed refs, {need} needed, yet the pull changed namespaces {diff:?} [{summary}]"), wit()).cost(cost(fx, item)));
        }
    }
    let outcome = format!("{}:{}:{}", run.result.label(), if changed { "changed" } else { "unchanged" }, if below { "below-threshold" } else { "threshold-met" });
    (vs, outcome)
}

fn main() {
    fix_process_env();
    let ctx = Ctx::from_env("C02", "fault_enumeration");
    let thorough = ctx.tier == mcx::Tier::Thorough;

    // Second pass (clones through the node's worker) lives in chk-node (`c02w`, it needs the
    // radicle-node hooks); it is built next to this binary and run as a sub-process.
    let c02w = std::env::current_exe().ok().and_then(|p| p.parent().map(|d| d.join("c02w"))).filter(|p| p.exists()).unwrap_or_else(|| machinery("c02w (worker-clone pass) is not built next to c02"));
    if let Some(w) = ctx.replay_witness() {
        if w["pass"].as_str() == Some("worker-clone") {
            let status = std::process::Command::new(&c02w).args(std::env::args().skip(1)).status().unwrap_or_else(|e| machinery(&format!("cannot run c02w: {e}")));
            std::process::exit(status.code().unwrap_or(2));
        }
        let cfg = FixCfg::from_json(&w["cfg"]);
        let seed = w["seed"].as_u64().unwrap_or(ctx.seed);
        let states = cfg.delegates.iter().map(|s| DState::parse(w["states"][KEY_NAMES[*s]].as_str().unwrap_or("equal"))).collect();
        let item = Item { fixture: 0, states, announce_tips: w["refs_at"].as_str() == Some("tips") };
        let fx = Fixture::build(&cfg, seed);
        let (vs, outcome) = run_item(&fx, &item, seed);
        eprintln!("replay outcome: {outcome}");
        ctx.finish_replay(vs);
    }

    let worker_pass = std::process::Command::new(&c02w)
        .args(["--tier", if thorough { "thorough" } else { "quick" }])
        .env("C02W_SUBPASS", "1")
        .env("VERIF_SEED", ctx.seed.to_string())
        .stdout(std::process::Stdio::piped())
        .spawn()
        .unwrap_or_else(|e| machinery(&format!("cannot start c02w: {e}")));

    let cfgs = configs(thorough);
    let t_fix = std::time::Instant::now();
    let fixtures: Vec<Fixture> = std::thread::scope(|s| {
        let hs: Vec<_> = cfgs.iter().map(|c| s.spawn(move || Fixture::build(c, ctx.seed))).collect();
        hs.into_iter().map(|h| h.join().unwrap_or_else(|_| machinery("fixture build panicked"))).collect()
    });
    let fixture_s = t_fix.elapsed().as_secs_f64();
    let sp = space(&cfgs, thorough);
    let n = sp.size();
    let busy_ns = std::sync::atomic::AtomicU64::new(0);
    let t_sweep = std::time::Instant::now();
    let mut st = sweep::threads(
        n,
        |i| {
            let t0 = std::time::Instant::now();
            let item = sp.decode(i);
            let fx = &fixtures[item.fixture];
            let (vs, outcome) = run_item(fx, &item, ctx.seed);
            busy_ns.fetch_add(t0.elapsed().as_nanos() as u64, std::sync::atomic::Ordering::Relaxed);
            let trivial = item.states.iter().all(|s| *s == DState::Equal);
            let class = if trivial { 0 } else { mcx::fnv64(item_json(fx, &item, 0).to_string().as_bytes()) | 1 };
            ItemOut::new(class, outcome).with(vs)
        },
        None::<NoPanic>,
    );
    let sweep_s = t_sweep.elapsed().as_secs_f64();
    let samples = sweep::sample_indexes(n)
        .into_iter()
        .map(|i| {
            let it = sp.decode(i);
            item_json(&fixtures[it.fixture], &it, ctx.seed)
        })
        .collect();
    let mut cov = st.coverage(
        "one real radicle_fetch::pull per item by a fetcher holding generation 2 of every delegate; item = (identity document: k remote delegates, local delegate or not, threshold) x (state per remote delegate) x (refs_at absent | tips); \
         trivial = every delegate offered equal; distinct = distinct item",
        samples,
    );
    cov.insert("documents".into(), json!(cfgs.iter().map(|c| c.describe()).collect::<Vec<_>>()));
    cov.insert("state_alphabet".into(), json!(STATES.iter().map(|s| s.name()).collect::<Vec<_>>()));
    cov.insert("fourth_delegate_alphabet".into(), json!(FOURTH.iter().map(|s| s.name()).collect::<Vec<_>>()));
    cov.insert("fetches".into(), json!(n));
    cov.insert("ms_per_fetch_cpu".into(), json!(((busy_ns.load(std::sync::atomic::Ordering::Relaxed) as f64 / 1e6 / n.max(1) as f64) * 10.0).round() / 10.0));
    cov.insert("fixture_build_s".into(), json!((fixture_s * 100.0).round() / 100.0));
    cov.insert("sweep_wall_s".into(), json!((sweep_s * 100.0).round() / 100.0));
    // `finish` exits the process without running destructors: remove the fixture explicitly.
    for fx in &fixtures {
        let _ = std::fs::remove_dir_all(fx.root.path());
    }
    // Collect the worker-clone pass.
    {
        let out = worker_pass.wait_with_output().unwrap_or_else(|e| machinery(&format!("c02w: {e}")));
        let text = String::from_utf8_lossy(&out.stdout);
        let line = text.lines().find_map(|l| l.strip_prefix("C02W-RESULT ")).unwrap_or_else(|| machinery(&format!("c02w ended ({}) without a result line", out.status)));
        let v: Value = serde_json::from_str(line).unwrap_or_else(|e| machinery(&format!("c02w result: {e}")));
        let sub: mcx::report::Violations = serde_json::from_value(v["violations"].clone()).unwrap_or_else(|e| machinery(&format!("c02w violations: {e}")));
        for (fp, (ws, n)) in sub.by_fp {
            let e = st.violations.by_fp.entry(fp).or_insert_with(|| (vec![], 0));
            e.0.extend(ws);
            e.1 += n;
        }
        cov.insert("worker_clone_pass".into(), v["coverage"].clone());
    }
    ctx.finish(
        cov,
        &[
            "second pass (worker_clone_pass): clones into an empty storage through the node's worker on both ends (hook H2 initiator + responder wired back to back); a clone also fetches the local node's own namespace, which therefore counts as a delegate with valid signed refs",
            "trusted: git upload-pack (spawned with the worker's exact command line), libgit2, the file system",
            "invalid-signature = honest child of the held sigrefs with one signature bit flipped; invalid-content = correctly signed blob that lists rad/sigrefs itself; missing = the namespace does not exist on the server",
            "the serving peer is d1; scope All; the local node's own namespace (when it is a delegate) is served honestly",
            "thorough: the fourth remote delegate ranges over {equal, ahead, invalid-signature, invalid-content} only; quick: the second remote delegate skips behind and invalid-content",
        ],
        std::mem::take(&mut st.violations),
    );
}
