//! C18 — Canonical JSON has a single byte representation: keys in byte order, no insignificant
//! whitespace, NFC strings, JSON escapes for control characters, floats rejected; decoding the
//! output and encoding it again reproduces it byte for byte.
//!
//! Engine B (threads). The literal space "all values of depth ≤ 3 with ≤ 3 members over 23 leaves"
//! has > 10^20 elements, so it is factorised into sub-spaces that are each enumerated completely:
//!
//! * `strings`  — every string of ≤ L atoms over 18 atoms (ASCII, combining marks in both orders,
//!                precomposed / decomposed / singleton / composition-excluded characters, Hangul
//!                jamo, control characters, quote, backslash, DEL, astral) in four contexts:
//!                top level, array element, object value, object key.
//! * `numbers`  — integers at the 64-bit bounds and floats, in the same four contexts.
//! * `objects`  — every *ordered* selection of ≤ 3 distinct keys out of 20 (insertion order is
//!                observable: serde_json is built with `preserve_order`) with every assignment of
//!                values from a small value set; encoded directly and as a payload of an identity
//!                document (`Doc::encode`).
//! * `trees`    — every tree of bounded depth / width over reduced leaf and key sets (members
//!                inserted in descending key order).
//! * `typed`    — a few non-`Value` `Serialize` types (u128 / i128 / f32 / integer map keys).
//!
//! Oracle on the output of `cob::store::encoding::encode` / `Doc::encode`: floats anywhere ⇒ `Err`;
//! otherwise `Ok`, the bytes parse as JSON, contain no space / tab / CR / LF outside strings and
//! no raw byte < 0x20 inside strings, every string is NFC, the keys of every object are strictly
//! ascending under at least one reading of "byte order" (emitted key token, emitted bytes between
//! the quotes, decoded UTF-8), `encode(parse(out)) == out`, and the output does not depend on the insertion order of object
//! members. Objects with two keys that become equal under NFC lose a member (survivor depends on
//! insertion order): outside the statement's clauses, reported as an observation in the coverage map.

use mcx::panics::Caught;
use mcx::report::{Ctx, Violation};
use mcx::sweep::{self, ItemOut, Stats};
use radicle::cob::store::encoding::encode;
use radicle::crypto::test::signer::MockSigner;
use radicle::crypto::Signer as _;
use radicle::identity::doc::{Payload, PayloadId, RawDoc, Visibility};
use radicle::identity::{Did, Project};
use serde_json::{json, Map, Value};
use std::collections::BTreeMap;
use std::str::FromStr;
use unicode_normalization::{is_nfc, UnicodeNormalization};

// ---------------------------------------------------------------------------------------------
// reference helpers (plain recursion over serde_json::Value)

fn has_float(v: &Value) -> bool {
    match v {
        Value::Number(n) => n.is_f64(),
        Value::Array(a) => a.iter().any(has_float),
        Value::Object(o) => o.values().any(has_float),
        _ => false,
    }
}

fn all_strings<'a>(v: &'a Value, out: &mut Vec<&'a str>) {
    match v {
        Value::String(s) => out.push(s),
        Value::Array(a) => a.iter().for_each(|x| all_strings(x, out)),
        Value::Object(o) => o.iter().for_each(|(k, x)| {
            out.push(k);
            all_strings(x, out)
        }),
        _ => {}
    }
}

/// Two keys of one object with the same NFC form.
fn has_nfc_collision(v: &Value) -> bool {
    match v {
        Value::Array(a) => a.iter().any(has_nfc_collision),
        Value::Object(o) => {
            let mut seen: Vec<String> = vec![];
            for k in o.keys() {
                let n: String = k.nfc().collect();
                if seen.contains(&n) {
                    return true;
                }
                seen.push(n);
            }
            o.values().any(has_nfc_collision)
        }
        _ => false,
    }
}

/// The same JSON value with the members of every object inserted in ascending key order.
fn sorted_insertion(v: &Value) -> Value {
    match v {
        Value::Array(a) => Value::Array(a.iter().map(sorted_insertion).collect()),
        Value::Object(o) => {
            let mut ms: Vec<(&String, &Value)> = o.iter().collect();
            ms.sort_by(|a, b| a.0.cmp(b.0));
            let mut m = Map::new();
            for (k, x) in ms {
                m.insert(k.clone(), sorted_insertion(x));
            }
            Value::Object(m)
        }
        other => other.clone(),
    }
}

/// Nesting structure and key sets of a value, leaves erased (class key of the `trees` sub-space).
fn skeleton(v: &Value) -> String {
    match v {
        Value::Array(a) => format!("[{}]", a.iter().map(skeleton).collect::<Vec<_>>().join(",")),
        Value::Object(o) => format!("{{{}}}", o.iter().map(|(k, x)| format!("{}:{}", k.escape_unicode(), skeleton(x))).collect::<Vec<_>>().join(",")),
        _ => "L".into(),
    }
}

fn has_container(v: &Value) -> bool {
    matches!(v, Value::Array(_) | Value::Object(_))
}

// ---------------------------------------------------------------------------------------------
// byte-level scanner of the emitted text (only run on text that serde_json already accepted)

#[derive(Default)]
struct Scan<'a> {
    b: &'a [u8],
    p: usize,
    objects: Vec<Vec<&'a [u8]>>,
    ws_outside: Option<usize>,
    raw_ctl: Option<usize>,
    del_raw: bool,
    escapes: bool,
}

impl<'a> Scan<'a> {
    fn ws(&mut self) {
        while let Some(c) = self.b.get(self.p) {
            if matches!(c, b' ' | b'\t' | b'\n' | b'\r') {
                self.ws_outside.get_or_insert(self.p);
                self.p += 1;
            } else {
                break;
            }
        }
    }
    fn string(&mut self) -> Result<&'a [u8], String> {
        let start = self.p;
        if self.b.get(self.p) != Some(&b'"') {
            return Err(format!("expected string at {}", self.p));
        }
        self.p += 1;
        loop {
            match self.b.get(self.p) {
                None => return Err("unterminated string".into()),
                Some(b'"') => {
                    self.p += 1;
                    return Ok(&self.b[start..self.p]);
                }
                Some(b'\\') => {
                    self.escapes = true;
                    self.p += 2;
                }
                Some(c) => {
                    if *c < 0x20 {
                        self.raw_ctl.get_or_insert(self.p);
                    }
                    if *c == 0x7f {
                        self.del_raw = true;
                    }
                    self.p += 1;
                }
            }
        }
    }
    fn value(&mut self) -> Result<(), String> {
        self.ws();
        match self.b.get(self.p) {
            None => Err("unexpected end".into()),
            Some(b'"') => self.string().map(|_| ()),
            Some(b'[') => {
                self.p += 1;
                self.ws();
                if self.b.get(self.p) == Some(&b']') {
                    self.p += 1;
                    return Ok(());
                }
                loop {
                    self.value()?;
                    self.ws();
                    match self.b.get(self.p) {
                        Some(b',') => self.p += 1,
                        Some(b']') => {
                            self.p += 1;
                            return Ok(());
                        }
                        _ => return Err(format!("bad array at {}", self.p)),
                    }
                }
            }
            Some(b'{') => {
                self.p += 1;
                let mut keys = vec![];
                self.ws();
                if self.b.get(self.p) == Some(&b'}') {
                    self.p += 1;
                    self.objects.push(keys);
                    return Ok(());
                }
                loop {
                    self.ws();
                    keys.push(self.string()?);
                    self.ws();
                    if self.b.get(self.p) != Some(&b':') {
                        return Err(format!("expected ':' at {}", self.p));
                    }
                    self.p += 1;
                    self.value()?;
                    self.ws();
                    match self.b.get(self.p) {
                        Some(b',') => self.p += 1,
                        Some(b'}') => {
                            self.p += 1;
                            self.objects.push(keys);
                            return Ok(());
                        }
                        _ => return Err(format!("bad object at {}", self.p)),
                    }
                }
            }
            Some(_) => {
                while let Some(c) = self.b.get(self.p) {
                    if matches!(c, b',' | b']' | b'}' | b' ' | b'\t' | b'\n' | b'\r') {
                        break;
                    }
                    self.p += 1;
                }
                Ok(())
            }
        }
    }
}

fn strictly_ascending<T: Ord>(xs: &[T]) -> bool {
    xs.windows(2).all(|w| w[0] < w[1])
}


// ---------------------------------------------------------------------------------------------
// observations: behaviours outside the statement's clauses — counted and reported in the coverage
// map with their minimal witness, never a Violation.

struct Observation {
    instances: u64,
    best: Option<(u64, String, Value)>,
}

static OBSERVATIONS: std::sync::Mutex<std::collections::BTreeMap<&'static str, Observation>> = std::sync::Mutex::new(std::collections::BTreeMap::new());

fn observe(name: &'static str, cost: u64, what: String, witness: Value) {
    let mut g = OBSERVATIONS.lock().unwrap_or_else(|e| e.into_inner());
    let o = g.entry(name).or_insert(Observation { instances: 0, best: None });
    o.instances += 1;
    let better = match &o.best {
        None => true,
        Some((c, w, _)) => (cost, &what) < (*c, w),
    };
    if better {
        o.best = Some((cost, what, witness));
    }
}

fn observations_json(notes: &[(&str, &str)]) -> Value {
    let g = OBSERVATIONS.lock().unwrap_or_else(|e| e.into_inner());
    let mut m = serde_json::Map::new();
    for (name, note) in notes {
        let (instances, what, witness) = match g.get(name) {
            Some(o) => (o.instances, o.best.as_ref().map(|b| b.1.clone()).unwrap_or_default(), o.best.as_ref().map(|b| b.2.clone()).unwrap_or(Value::Null)),
            None => (0, String::new(), Value::Null),
        };
        m.insert(name.to_string(), json!({"instances": instances, "what": what, "witness": witness, "note": note}));
    }
    Value::Object(m)
}

// ---------------------------------------------------------------------------------------------
// the oracle

#[derive(Clone, Copy, PartialEq, Eq, Debug)]
enum Via {
    Encode,
    Doc,
}

/// Printable form of emitted bytes: non-ASCII characters as \\u{…} so that NFC / NFD spellings differ visibly.
fn esc(bytes: &[u8]) -> String {
    String::from_utf8_lossy(bytes).chars().map(|c| if c.is_ascii() { c.to_string() } else { c.escape_unicode().to_string() }).collect()
}

fn base_doc() -> &'static RawDoc {
    static BASE: std::sync::OnceLock<RawDoc> = std::sync::OnceLock::new();
    BASE.get_or_init(|| {
        let did = Did::from(*MockSigner::from_seed([7u8; 32]).public_key());
        let project = Project::new("acme".try_into().expect("name"), "d".into(), radicle::git::refname!("master")).expect("project");
        RawDoc::new(project, vec![did], 1, Visibility::Public)
    })
}

/// Encode `v` with the seam under test. For `Via::Doc` the value is the payload `xyz.radicle.x`
/// of an otherwise fixed identity document and the whole document is the output.
fn run_encode(via: Via, v: &Value) -> Result<Vec<u8>, String> {
    match via {
        Via::Encode => encode(v).map_err(|e| e.to_string()),
        Via::Doc => {
            let mut raw = base_doc().clone();
            raw.payload.insert(PayloadId::from_str("xyz.radicle.x").expect("payload id"), Payload::from(v.clone()));
            let doc = raw.verified().map_err(|e| format!("harness: doc not valid: {e}"))?;
            doc.encode().map(|(_, b)| b).map_err(|e| e.to_string())
        }
    }
}

fn reencode(via: Via, back: &Value) -> Result<Vec<u8>, String> {
    // The decoded document is plain JSON again; for both seams re-encoding the decoded JSON with
    // the same canonical encoder must reproduce the bytes.
    let _ = via;
    encode(back).map_err(|e| e.to_string())
}

fn check(space: &str, via: Via, v: &Value) -> (String, Vec<Violation>) {
    let mut vs = vec![];
    let wit = || json!({"space": space, "via": format!("{via:?}"), "value": v});
    let cost = v.to_string().len() as u64;
    let res = run_encode(via, v);
    let float = has_float(v);
    let out = match (res, float) {
        (Err(e), true) => return (format!("rejected:float({})", if e.contains("floating point") { "float-message" } else { "other-message" }), vs),
        (Ok(out), true) => {
            vs.push(Violation::new(format!("C18/{via:?}/float-accepted"), format!("value with a floating-point number is encoded as {:?}", String::from_utf8_lossy(&out)), wit()).cost(cost));
            return ("float-accepted".into(), vs);
        }
        (Err(e), false) => {
            vs.push(Violation::new(format!("C18/{via:?}/encode-failed"), format!("float-free value is rejected: {e}"), wit()).cost(cost));
            return ("encode-failed".into(), vs);
        }
        (Ok(out), false) => out,
    };
    let text = esc(&out);
    let back: Value = match serde_json::from_slice(&out) {
        Ok(b) => b,
        Err(e) => {
            vs.push(Violation::new(format!("C18/{via:?}/output-unparseable"), format!("output {text:?} does not parse: {e}"), wit()).cost(cost));
            return ("unparseable".into(), vs);
        }
    };
    let mut sc = Scan { b: &out, ..Default::default() };
    if let Err(e) = sc.value() {
        mcx::report::machinery(&format!("scanner rejects text accepted by serde_json: {e}: {text:?}"));
    }
    if sc.p != out.len() {
        sc.ws();
        if sc.p != out.len() {
            mcx::report::machinery(&format!("scanner stopped early on {text:?}"));
        }
    }
    if let Some(p) = sc.ws_outside {
        vs.push(Violation::new(format!("C18/{via:?}/whitespace"), format!("insignificant whitespace at byte {p} of {text:?}"), wit()).cost(cost));
    }
    if let Some(p) = sc.raw_ctl {
        vs.push(Violation::new(format!("C18/{via:?}/raw-control-character"), format!("unescaped control byte at {p} of {text:?}"), wit()).cost(cost));
    }
    // NFC
    let mut strings = vec![];
    all_strings(&back, &mut strings);
    if let Some(s) = strings.iter().find(|s| !is_nfc(s)) {
        vs.push(Violation::new(format!("C18/{via:?}/not-nfc"), format!("output string {s:?} is not NFC (output {text:?})"), wit()).cost(cost));
    }
    // key order
    let mut tok = true;
    let mut raw = true;
    let mut dec = true;
    let mut multi = false;
    for keys in &sc.objects {
        if keys.len() > 1 {
            multi = true;
        }
        tok &= strictly_ascending(keys);
        let inner: Vec<&[u8]> = keys.iter().map(|k| &k[1..k.len() - 1]).collect();
        raw &= strictly_ascending(&inner);
        let decoded: Vec<Vec<u8>> = keys.iter().map(|k| serde_json::from_slice::<String>(k).map(String::into_bytes).unwrap_or_default()).collect();
        dec &= strictly_ascending(&decoded);
    }
    if !(tok || raw || dec) {
        vs.push(Violation::new(format!("C18/{via:?}/key-order"), format!("object keys are not strictly ascending under any reading of byte order: {text:?}"), wit()).cost(cost));
    }
    // re-encode
    match reencode(via, &back) {
        Ok(again) if again == out => {}
        Ok(again) => vs.push(Violation::new(format!("C18/{via:?}/reencode-differs"), format!("encode(decode(out)) = {:?} differs from out = {text:?}", esc(&again)), wit()).cost(cost)),
        Err(e) => vs.push(Violation::new(format!("C18/{via:?}/reencode-fails"), format!("encode(decode(out)) fails ({e}) for out = {text:?}"), wit()).cost(cost)),
    }
    // single representation: the same JSON value with another insertion order
    let collision = has_nfc_collision(v);
    let sorted = sorted_insertion(v);
    if &sorted != v {
        mcx::report::machinery("sorted_insertion changed the value");
    }
    match run_encode(via, &sorted) {
        Ok(o2) if o2 == out => {}
        Ok(o2) if collision => observe(
            if via == Via::Doc { "keys_equal_after_nfc/Doc::encode" } else { "keys_equal_after_nfc/encoding::encode" },
            cost,
            format!("one JSON value, two encodings depending on member insertion order: {text:?} vs {:?}", esc(&o2)),
            wit(),
        ),
        Ok(o2) => vs.push(Violation::new(format!("C18/{via:?}/single-representation/insertion-order"), format!("one JSON value, two encodings depending on member insertion order: {text:?} vs {:?}", esc(&o2)), wit()).cost(cost)),
        Err(e) => vs.push(Violation::new(format!("C18/{via:?}/single-representation/encode-failed"), format!("re-ordered value rejected: {e}"), wit()).cost(cost)),
    }
    // label
    let mut input_strings = vec![];
    all_strings(v, &mut input_strings);
    let mut label = String::from("ok");
    if multi {
        label.push_str(&format!(",order:{}{}{}", if tok { "T" } else { "-" }, if raw { "R" } else { "-" }, if dec { "D" } else { "-" }));
    }
    if input_strings.iter().any(|s| !is_nfc(s)) {
        label.push_str(",normalised");
    }
    if collision {
        label.push_str(",keys-equal-after-nfc");
    }
    if sc.escapes {
        label.push_str(",escapes");
    }
    if sc.del_raw {
        label.push_str(",del-raw");
    }
    (label, vs)
}

// ---------------------------------------------------------------------------------------------
// spaces

const ATOMS: [&str; 18] = ["a", "A", "e", "\u{301}", "\u{323}", "é", "\u{1}", "\n", "\"", "\\", "\u{7f}", " ", "𝄞", "ﬁ", "\u{1100}", "\u{1161}", "\u{212b}", "\u{958}"];

const KEYS: [&str; 20] = [
    "", "a", "b", "A", "é", "e\u{301}", "\u{1}", "\"", "\\", "\u{7f}", " ", "𝄞", "ﬁ", "a ", "a!", "ab", "\u{1100}\u{1161}", "가", "\u{212b}", "\u{ffff}",
];

fn n_strings(n: u64, max_len: usize) -> u64 {
    (0..=max_len as u32).map(|l| n.pow(l)).sum()
}

fn nth_string(max_len: usize, mut i: u64) -> String {
    let n = ATOMS.len() as u64;
    let mut l = 0usize;
    let mut count = 1u64;
    while l < max_len && i >= count {
        i -= count;
        count *= n;
        l += 1;
    }
    let mut out = String::new();
    for _ in 0..l {
        out.push_str(ATOMS[(i % n) as usize]);
        i /= n;
    }
    out
}

fn in_context(ctx: u64, leaf: Value) -> Value {
    match ctx {
        0 => leaf,
        1 => json!([leaf]),
        2 => json!({"k": leaf}),
        _ => {
            let mut m = Map::new();
            match leaf {
                Value::String(s) => {
                    m.insert(s, json!(0));
                }
                other => {
                    // numbers cannot be keys of a Value object; use the number as the value of a key that needs escaping
                    m.insert("\t".into(), other);
                }
            }
            Value::Object(m)
        }
    }
}

fn numbers() -> Vec<Value> {
    vec![
        json!(0),
        json!(-1),
        json!(i64::MIN),
        json!(i64::MAX),
        json!(u64::MAX),
        json!(1.5),
        json!(1e10),
        json!(-0.0),
        json!(f64::MAX),
        json!(5e-324),
        json!(1.0),
        json!(null),
        json!(true),
        json!(false),
    ]
}

/// Ordered selections of ≤ 3 distinct key indexes.
fn key_tuples(n: usize) -> Vec<Vec<usize>> {
    let mut v = vec![vec![]];
    for a in 0..n {
        v.push(vec![a]);
    }
    for a in 0..n {
        for b in 0..n {
            if a != b {
                v.push(vec![a, b]);
            }
        }
    }
    for a in 0..n {
        for b in 0..n {
            for c in 0..n {
                if a != b && b != c && a != c {
                    v.push(vec![a, b, c]);
                }
            }
        }
    }
    v
}

fn object_values(thorough: bool) -> Vec<Value> {
    let mut nested = Map::new();
    nested.insert("b".into(), json!(1));
    nested.insert("A".into(), json!("\u{1100}\u{1161}"));
    nested.insert("".into(), json!([]));
    let mut v = vec![json!(0), json!("e\u{301}"), Value::Object(nested)];
    if thorough {
        v.push(json!(1.5));
        v.push(json!([" ", {"\u{7f}": null}]));
    }
    v
}

struct Trees {
    leaves: Vec<Value>,
    keys: Vec<String>,
    /// width[d] = maximal number of members of a container whose members have depth ≤ d-1.
    width: Vec<usize>,
    counts: Vec<u64>,
    subsets: Vec<Vec<Vec<usize>>>, // by size
}

impl Trees {
    fn new(leaves: Vec<Value>, keys: Vec<String>, width: Vec<usize>) -> Trees {
        let m = keys.len();
        let maxw = width.iter().copied().max().unwrap_or(0);
        let mut subsets = vec![vec![]; maxw + 1];
        for mask in 0u32..(1 << m) {
            let s: Vec<usize> = (0..m).filter(|b| mask & (1 << b) != 0).collect();
            if s.len() <= maxw {
                subsets[s.len()].push(s);
            }
        }
        let mut t = Trees { leaves, keys, width, counts: vec![], subsets };
        t.counts.push(t.leaves.len() as u64);
        for d in 1..t.width.len() {
            let n = t.counts[d - 1];
            let mut c = t.leaves.len() as u64;
            for k in 0..=t.width[d] {
                c += n.pow(k as u32);
                c += t.subsets[k].len() as u64 * n.pow(k as u32);
            }
            t.counts.push(c);
        }
        t
    }
    fn size(&self) -> u64 {
        *self.counts.last().expect("depths")
    }
    fn decode(&self, d: usize, mut i: u64) -> Value {
        let l = self.leaves.len() as u64;
        if i < l {
            return self.leaves[i as usize].clone();
        }
        assert!(d > 0, "index out of range");
        i -= l;
        let n = self.counts[d - 1];
        for k in 0..=self.width[d] {
            let c = n.pow(k as u32);
            if i < c {
                let mut a = vec![];
                for _ in 0..k {
                    a.push(self.decode(d - 1, i % n));
                    i /= n;
                }
                return Value::Array(a);
            }
            i -= c;
        }
        for k in 0..=self.width[d] {
            let per = n.pow(k as u32);
            let c = self.subsets[k].len() as u64 * per;
            if i < c {
                let subset = &self.subsets[k][(i / per) as usize];
                let mut j = i % per;
                let mut m = Map::new();
                // descending key order of insertion
                let mut ks: Vec<&String> = subset.iter().map(|x| &self.keys[*x]).collect();
                ks.sort();
                ks.reverse();
                for key in ks {
                    m.insert(key.clone(), self.decode(d - 1, j % n));
                    j /= n;
                }
                return Value::Object(m);
            }
            i -= c;
        }
        unreachable!("index out of range")
    }
}

fn typed(name: &str) -> (String, Vec<Violation>) {
    let wit = || json!({"space": "typed", "typed": name});
    let mut vs = vec![];
    let mut expect = |res: Result<Vec<u8>, serde_json::Error>, want: Option<&str>| -> String {
        match (res, want) {
            (Ok(o), Some(w)) if o == w.as_bytes() => "typed:ok".into(),
            (Ok(o), Some(w)) => {
                vs.push(Violation::new(format!("C18/typed/{name}"), format!("{name}: encoded {:?}, expected {w:?}", String::from_utf8_lossy(&o)), wit()));
                "typed:wrong".into()
            }
            (Err(_), None) => "typed:rejected:float".into(),
            (Ok(o), None) => {
                vs.push(Violation::new(format!("C18/typed/{name}/float-accepted"), format!("{name}: float encoded as {:?}", String::from_utf8_lossy(&o)), wit()));
                "typed:float-accepted".into()
            }
            (Err(e), Some(_)) => {
                vs.push(Violation::new(format!("C18/typed/{name}/encode-failed"), format!("{name}: rejected: {e}"), wit()));
                "typed:encode-failed".into()
            }
        }
    };
    let out = match name {
        "u128-max" => expect(encode(u128::MAX), Some("340282366920938463463374607431768211455")),
        "i128-min" => expect(encode(i128::MIN), Some("-170141183460469231731687303715884105728")),
        "f32" => expect(encode(1.5f32), None),
        "f64-in-struct" => expect(encode(("a", 2.5f64)), None),
        "int-keys" => expect(encode(BTreeMap::from([(10u64, "x"), (9u64, "y")])), Some(r#"{"10":"x","9":"y"}"#)),
        "char-nfd" => expect(encode(('e', '\u{301}')), Some("[\"e\",\"\u{301}\"]")),
        "option-unit" => expect(encode((None::<u8>, (), Some(1u8))), Some("[null,null,1]")),
        _ => mcx::report::machinery("unknown typed item"),
    };
    (out, vs)
}
const TYPED: [&str; 7] = ["u128-max", "i128-min", "f32", "f64-in-struct", "int-keys", "char-nfd", "option-unit"];

fn replay_one(w: &Value) -> Vec<Violation> {
    if let Some(name) = w.get("typed").and_then(Value::as_str) {
        return typed(name).1;
    }
    let via = match w.get("via").and_then(Value::as_str) {
        Some("Doc") => Via::Doc,
        _ => Via::Encode,
    };
    let v = w.get("value").cloned().unwrap_or(Value::Null);
    let space = w.get("space").and_then(Value::as_str).unwrap_or("replay").to_string();
    match mcx::panics::catch(|| check(&space, via, &v).1) {
        Ok(vs) => vs,
        Err(c) => vec![Violation::new(format!("C18/{via:?}/panic/{}", c.site()), format!("encoding panics: {}", c.message), w.clone())],
    }
}

fn main() {
    let ctx = Ctx::from_env("C18", "exploration");
    if let Some(w) = ctx.replay_witness() {
        ctx.finish_replay(replay_one(&w));
    }
    let thorough = ctx.tier == mcx::Tier::Thorough;
    let mut st = Stats::default();
    let panic_of = |space: &'static str, via: Via, v: Value, c: &Caught| Violation::new(format!("C18/{via:?}/panic/{}", c.site()), format!("encoding panics: {} ({}:{})", c.message, c.file, c.line), json!({"space": space, "via": format!("{via:?}"), "value": v}));

    // strings ---------------------------------------------------------------------------------
    let max_atoms = ctx.pick(3usize, 4usize);
    let ns = n_strings(ATOMS.len() as u64, max_atoms);
    let string_item = |i: u64| in_context(i % 4, Value::String(nth_string(max_atoms, i / 4)));
    st.merge(sweep::threads(
        ns * 4,
        |i| {
            let v = string_item(i);
            let (out, vs) = check("strings", Via::Encode, &v);
            ItemOut::new(mcx::fnv64(format!("strings/{i}").as_bytes()) | 1, format!("strings:{out}")).with(vs)
        },
        Some(|i: u64, c: &Caught| panic_of("strings", Via::Encode, string_item(i), c)),
    ));

    // numbers ---------------------------------------------------------------------------------
    let nums = numbers();
    let number_item = |i: u64| in_context(i % 4, nums[(i / 4) as usize].clone());
    st.merge(sweep::threads(
        nums.len() as u64 * 4 * 2,
        |i| {
            let via = if i % 2 == 0 { Via::Encode } else { Via::Doc };
            let v = number_item(i / 2);
            let (out, vs) = check("numbers", via, &v);
            ItemOut::new(if has_container(&v) { mcx::fnv64(format!("numbers/{i}").as_bytes()) | 1 } else { 0 }, format!("numbers:{out}")).with(vs)
        },
        Some(|i: u64, c: &Caught| panic_of("numbers", if i % 2 == 0 { Via::Encode } else { Via::Doc }, number_item(i / 2), c)),
    ));

    // objects ---------------------------------------------------------------------------------
    let tuples = key_tuples(KEYS.len());
    let vals = object_values(thorough);
    let nv = vals.len() as u64;
    let object_item = |i: u64| -> (Via, Value, bool) {
        let via = if i % 2 == 0 { Via::Encode } else { Via::Doc };
        let i = i / 2;
        let t = &tuples[(i / (nv * nv * nv)) as usize];
        let mut j = i % (nv * nv * nv);
        let mut m = Map::new();
        for k in t {
            m.insert(KEYS[*k].to_string(), vals[(j % nv) as usize].clone());
            j /= nv;
        }
        // unused value digits must be zero, otherwise the item repeats another one
        (via, Value::Object(m), j == 0)
    };
    st.merge(sweep::threads(
        tuples.len() as u64 * nv * nv * nv * 2,
        |i| {
            let (via, v, fresh) = object_item(i);
            if !fresh {
                return ItemOut::new(0, "objects:repeat-skipped");
            }
            let (out, vs) = check("objects", via, &v);
            ItemOut::new(mcx::fnv64(format!("objects/{i}").as_bytes()) | 1, format!("objects/{via:?}:{out}")).with(vs)
        },
        Some(|i: u64, c: &Caught| {
            let (via, v, _) = object_item(i);
            panic_of("objects", via, v, c)
        }),
    ));

    // trees -----------------------------------------------------------------------------------
    let mut tree_spaces = vec![Trees::new(
        vec![json!(u64::MAX), json!("e\u{301}"), json!("\n\""), json!(1e10)],
        vec![" ".into(), "".into(), "e\u{301}".into()],
        vec![0, 3, 2],
    )];
    if thorough {
        tree_spaces.push(Trees::new(vec![json!(i64::MIN), json!("\u{1100}\u{1161}"), json!(1.5)], vec!["b".into(), "e\u{301}".into()], vec![0, 2, 2, 2]));
        tree_spaces.push(Trees::new(vec![json!(-1), json!("\u{212b}\u{1}"), json!(null), json!(0.5)], vec!["\u{1}".into(), "A".into(), "a".into(), "é".into()], vec![0, 3, 2]));
    }
    for (ti, t) in tree_spaces.iter().enumerate() {
        let depth = t.width.len() - 1;
        st.merge(sweep::threads(
            t.size(),
            |i| {
                let v = t.decode(depth, i);
                let (out, vs) = check("trees", Via::Encode, &v);
                let _ = i;
                ItemOut::new(if has_container(&v) { mcx::fnv64(format!("trees/{ti}/{}", skeleton(&v)).as_bytes()) | 1 } else { 0 }, format!("trees:{out}")).with(vs)
            },
            Some(|i: u64, c: &Caught| panic_of("trees", Via::Encode, t.decode(depth, i), c)),
        ));
    }

    // typed -----------------------------------------------------------------------------------
    st.merge(sweep::threads(
        TYPED.len() as u64,
        |i| {
            let (out, vs) = typed(TYPED[i as usize]);
            ItemOut::new(mcx::fnv64(TYPED[i as usize].as_bytes()) | 1, out).with(vs)
        },
        Some(|i: u64, c: &Caught| Violation::new(format!("C18/typed/panic/{}", c.site()), format!("typed item panics: {}", c.message), json!({"space": "typed", "typed": TYPED[i as usize]}))),
    ));

    let samples = vec![
        json!({"space": "strings", "value": string_item(ns * 4 - 1)}),
        json!({"space": "objects", "value": object_item(tuples.len() as u64 * nv * nv * nv).1}),
        json!({"space": "trees", "value": tree_spaces[0].decode(2, tree_spaces[0].size() - 1)}),
        json!({"space": "trees", "value": tree_spaces[0].decode(2, tree_spaces[0].size() / 2)}),
    ];
    let mut cov = st.coverage(
        "strings: every concatenation of ≤ L of 18 atoms × 4 contexts (top, array element, object value, object key); numbers: 14 scalars × 4 contexts × {encode, Doc::encode}; \
         objects: every ordered selection of ≤ 3 distinct keys of 20 × every value assignment × {encode, Doc::encode payload}; trees: every tree over the reduced leaf / key sets within depth and width bounds; \
         typed: 7 non-Value Serialize inputs. Trivial = scalar without container, or an index that repeats another item; distinct = distinct inputs, except trees: distinct container skeletons (nesting structure and key sets, leaves erased)",
        samples,
    );
    let note = "two keys of one object become equal under NFC: a member is silently dropped and the survivor depends on insertion order; outside the statement's clauses (keys in order, NFC, no whitespace, re-encode stable all hold)";
    cov.insert("observations".into(), observations_json(&[("keys_equal_after_nfc/encoding::encode", note), ("keys_equal_after_nfc/Doc::encode", note)]));
    cov.insert("atoms".into(), json!(ATOMS.iter().map(|a| a.escape_unicode().to_string()).collect::<Vec<_>>()));
    cov.insert("keys".into(), json!(KEYS.iter().map(|a| a.escape_unicode().to_string()).collect::<Vec<_>>()));
    cov.insert("max_atoms_per_string".into(), json!(max_atoms));
    cov.insert("object_value_set".into(), json!(vals));
    cov.insert("tree_spaces".into(), json!(tree_spaces.iter().map(|t| json!({"leaves": t.leaves, "keys": t.keys, "width_by_depth": t.width[1..], "size": t.size()})).collect::<Vec<_>>()));
    let violations = std::mem::take(&mut st.violations);
    ctx.finish(
        cov,
        &[
            "serde_json's parser and unicode-normalization's is_nfc / nfc are the reference for 'parses' and 'NFC'",
            "'control characters' is read as RFC 8259 §7 does (U+0000..U+001F); a raw U+007F is counted in the histogram (del-raw), not judged",
            "key order accepted under any of three readings: emitted key token, emitted bytes between the quotes, decoded UTF-8 bytes (histogram shows which hold: T/R/D)",
            "the literal depth-3 × 23-leaf space is factorised; interactions between distant subtrees beyond the stated tree bounds are not covered",
        ],
        violations,
    );
}
