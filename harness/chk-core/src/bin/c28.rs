//! C28 — Storage cleanup never deletes the local or delegate namespaces.
//!
//! Engine B (threads), fault enumeration over repository layouts. Every item builds a fresh real
//! `radicle::Storage` in a scratch directory, creates a real repository (`Repository::init` with a
//! signed identity COB, optionally followed by a real identity revision that changes the delegate
//! set), populates the namespaces of the local node, the possible delegates d1/d2, a followed peer
//! and strangers with branch/tag refs and — per peer — real signed refs (`sign_refs`), no signed
//! refs, or no namespace at all, then calls the real `WriteStorage::clean(rid)` and compares
//! complete ref snapshots before and after.
//!
//! Oracle (the statement, nothing more):
//!  * the repository directory disappears only if the local node had no `rad/sigrefs`;
//!  * while the repository exists, the ref snapshot of the local namespace and of every *current*
//!    delegate's namespace is identical before and after (so every namespace that lost a ref is
//!    neither), and refs outside `refs/namespaces/` are untouched ("removes only namespaces").
//! Not demanded: that any particular non-protected namespace *is* removed, nor the return value.

use std::collections::{BTreeMap, BTreeSet};
use std::path::Path;

use mcx::report::{machinery, Ctx, Violation};
use mcx::sweep::{self, ItemOut, Radix};
use radicle::cob::identity::Identity;
use radicle::crypto::test::signer::MockSigner;
use radicle::crypto::PublicKey;
use radicle::identity::doc::{RawDoc, Visibility};
use radicle::identity::{Did, Project};
use radicle::node::device::Device;
use radicle::node::Alias;
use radicle::storage::git::{Repository, Storage};
use radicle::storage::{ReadRepository, SignRepository, WriteRepository, WriteStorage};
use serde_json::{json, Value};

/// Peers, in this order: local, d1, d2 (possible delegates), followed, stranger 1, stranger 2.
const PEERS: [&str; 6] = ["local", "d1", "d2", "followed", "s1", "s2"];

#[derive(Clone, Copy, Debug, PartialEq, Eq)]
enum NsState {
    /// no ref under `refs/namespaces/<peer>/`
    Absent,
    /// branch + tag refs and valid `rad/sigrefs`
    Signed,
    /// branch + tag refs, no `rad/sigrefs`
    Unsigned,
    /// (local only) `rad/sigrefs` exists but does not contain signed refs
    Corrupt,
}

impl NsState {
    fn name(&self) -> &'static str {
        match self {
            NsState::Absent => "absent",
            NsState::Signed => "signed",
            NsState::Unsigned => "unsigned",
            NsState::Corrupt => "corrupt-sigrefs",
        }
    }
    fn parse(s: &str) -> NsState {
        match s {
            "absent" => NsState::Absent,
            "signed" => NsState::Signed,
            "unsigned" => NsState::Unsigned,
            "corrupt-sigrefs" => NsState::Corrupt,
            o => machinery(&format!("replay: unknown namespace state {o}")),
        }
    }
}

#[derive(Clone, Debug)]
struct Config {
    /// state per peer (length = number of peers in this tier)
    states: Vec<NsState>,
    /// current delegates: non-empty subset of {local, d1, d2} as a bit mask over peers 0..3
    delegates: u8,
    /// the delegate set was reached by an identity revision (root document names only the author)
    grown: bool,
    /// the canonical `refs/rad/id` of the repository is present
    canonical_id: bool,
}

impl Config {
    fn is_delegate(&self, p: usize) -> bool {
        p < 3 && self.delegates & (1 << p) != 0
    }
    /// first current delegate in peer order: creates the repository and its identity
    fn author(&self) -> usize {
        (0..3).find(|p| self.is_delegate(*p)).unwrap()
    }
    fn to_json(&self) -> Value {
        json!({
            "namespaces": self.states.iter().enumerate().map(|(p, s)| (PEERS[p].to_string(), Value::String(s.name().into()))).collect::<serde_json::Map<String, Value>>(),
            "delegates": (0..3).filter(|p| self.is_delegate(*p)).map(|p| PEERS[p]).collect::<Vec<_>>(),
            "delegates_added_by_revision": self.grown,
            "canonical_rad_id_present": self.canonical_id,
        })
    }
    fn from_json(w: &Value) -> Config {
        let ns = w["namespaces"].as_object().unwrap_or_else(|| machinery("replay: namespaces"));
        let n = ns.len();
        let states = (0..n).map(|p| NsState::parse(ns.get(PEERS[p]).and_then(Value::as_str).unwrap_or_else(|| machinery("replay: peer state")))).collect();
        let mut delegates = 0u8;
        for d in w["delegates"].as_array().unwrap_or_else(|| machinery("replay: delegates")) {
            let p = PEERS.iter().position(|x| Some(*x) == d.as_str()).unwrap_or_else(|| machinery("replay: delegate name"));
            delegates |= 1 << p;
        }
        Config { states, delegates, grown: w["delegates_added_by_revision"].as_bool().unwrap_or(false), canonical_id: w["canonical_rad_id_present"].as_bool().unwrap_or(true) }
    }
    fn cost(&self) -> u64 {
        let present = self.states.iter().filter(|s| **s != NsState::Absent).count() as u64;
        let signed = self.states.iter().filter(|s| **s == NsState::Signed).count() as u64;
        100 * present + 10 * signed + 20 * self.delegates.count_ones() as u64 + 5 * self.grown as u64 + 5 * (!self.canonical_id) as u64
    }
}

struct Space {
    peers: usize,
    local_states: Vec<NsState>,
    radix: Radix,
}

impl Space {
    fn new(peers: usize, corrupt: bool) -> Space {
        let mut local_states = vec![NsState::Absent, NsState::Signed, NsState::Unsigned];
        if corrupt {
            local_states.push(NsState::Corrupt);
        }
        // local state, one digit per other peer, delegate set (1..=7), grown, canonical id
        let mut dims = vec![local_states.len() as u64];
        dims.extend(std::iter::repeat(3).take(peers - 1));
        dims.extend([7, 2, 2]);
        Space { peers, local_states, radix: Radix::new(&dims) }
    }
    fn decode(&self, i: u64) -> Config {
        let d = self.radix.decode(i);
        let other = [NsState::Absent, NsState::Signed, NsState::Unsigned];
        let mut states = vec![self.local_states[d[0] as usize]];
        for p in 1..self.peers {
            states.push(other[d[p] as usize]);
        }
        Config { states, delegates: d[self.peers] as u8 + 1, grown: d[self.peers + 1] == 1, canonical_id: d[self.peers + 2] == 0 }
    }
}

type Snapshot = BTreeMap<String, BTreeMap<String, String>>;

/// Every reference of the repository grouped by namespace ("" = outside `refs/namespaces/`).
fn snapshot(repo: &git2::Repository) -> Snapshot {
    let mut out = Snapshot::new();
    for r in repo.references().unwrap() {
        let r = r.unwrap();
        let name = r.name().unwrap().to_string();
        let target = match r.symbolic_target() {
            Some(t) => format!("-> {t}"),
            None => r.target().map(|o| o.to_string()).unwrap_or_default(),
        };
        let (ns, rest) = match name.strip_prefix("refs/namespaces/") {
            Some(tail) => match tail.split_once('/') {
                Some((ns, rest)) => (ns.to_string(), rest.to_string()),
                None => (String::new(), name.clone()),
            },
            None => (String::new(), name.clone()),
        };
        out.entry(ns).or_default().insert(rest, target);
    }
    out
}

struct Keys {
    signers: Vec<Device<MockSigner>>,
}

impl Keys {
    fn new(seed: u64) -> Keys {
        Keys { signers: (0..PEERS.len()).map(|k| Device::mock_from_seed([(seed as u8).wrapping_mul(37).wrapping_add(0x40 + k as u8); 32])).collect() }
    }
    fn pk(&self, p: usize) -> PublicKey {
        *self.signers[p].public_key()
    }
    fn did(&self, p: usize) -> Did {
        Did::from(self.pk(p))
    }
}

fn plain_commit(repo: &git2::Repository, msg: &str) -> git2::Oid {
    let tree = repo.treebuilder(None).unwrap().write().unwrap();
    let tree = repo.find_tree(tree).unwrap();
    let sig = git2::Signature::new("chk", "chk@verif.invalid", &git2::Time::new(1514817556, 0)).unwrap();
    repo.commit(None, &sig, &sig, msg, &tree, &[]).unwrap()
}

/// Build the repository described by `cfg` inside `dir`, run `clean`, judge.
fn run(cfg: &Config, keys: &Keys, dir: &Path, seed: u64) -> (Vec<Violation>, String) {
    let local = keys.pk(0);
    let storage = Storage::open(dir.join("storage"), radicle::git::UserInfo { alias: Alias::new("local"), key: local }).unwrap();
    let author = cfg.author();
    let current: Vec<Did> = (0..3).filter(|p| cfg.is_delegate(*p)).map(|p| keys.did(p)).collect();
    let grown = cfg.grown && current.len() > 1;
    let project = Project::new("c28".try_into().unwrap(), String::new(), radicle::git::refname!("master")).unwrap();
    let root_delegates = if grown { vec![keys.did(author)] } else { current.clone() };
    let root_doc = RawDoc::new(project.clone(), root_delegates, 1, Visibility::Public).verified().unwrap();
    let (repo, identity) = Repository::init(&root_doc, &storage, &keys.signers[author]).unwrap();
    let rid = repo.id;
    repo.set_remote_identity_root_to(&keys.pk(author), identity).unwrap();
    repo.set_identity_head_to(identity).unwrap();
    if grown {
        let doc = RawDoc::new(project, current.clone(), 1, Visibility::Public).verified().unwrap();
        let mut id = Identity::load_mut(&repo).unwrap();
        id.update("add delegates", "", &doc, &keys.signers[author]).unwrap();
        let head = id.head();
        drop(id);
        repo.set_identity_head_to(head).unwrap();
    }
    // What the code must see as the delegate set: the current document.
    {
        let seen: BTreeSet<Did> = repo.delegates().unwrap().into_iter().collect();
        if seen != current.iter().copied().collect::<BTreeSet<_>>() {
            machinery(&format!("C28: harness built delegates {current:?} but the repository reports {seen:?}"));
        }
    }
    let head = plain_commit(repo.raw(), "head");
    for (p, st) in cfg.states.iter().enumerate() {
        let ns = format!("refs/namespaces/{}", keys.pk(p));
        match st {
            NsState::Absent => {
                // only the author has refs so far (identity COB + rad/id)
                let names: Vec<String> = repo.raw().references_glob(&format!("{ns}/*")).unwrap().map(|r| r.unwrap().name().unwrap().to_string()).collect();
                // symbolic refs first (rad/id -> cob ref)
                for pass in [true, false] {
                    for n in &names {
                        if let Ok(mut r) = repo.raw().find_reference(n) {
                            if (r.kind() == Some(git2::ReferenceType::Symbolic)) == pass {
                                r.delete().unwrap();
                            }
                        }
                    }
                }
            }
            _ => {
                repo.raw().reference(&format!("{ns}/refs/heads/master"), head, true, "chk").unwrap();
                repo.raw().reference(&format!("{ns}/refs/tags/v1"), head, true, "chk").unwrap();
                match st {
                    NsState::Signed => {
                        repo.sign_refs(&keys.signers[p]).unwrap();
                    }
                    NsState::Corrupt => {
                        repo.raw().reference(&format!("{ns}/refs/rad/sigrefs"), head, true, "chk").unwrap();
                    }
                    _ => {
                        // An identity revision signs the author's refs as a side effect.
                        if let Ok(mut r) = repo.raw().find_reference(&format!("{ns}/refs/rad/sigrefs")) {
                            r.delete().unwrap();
                        }
                    }
                }
            }
        }
    }
    if !cfg.canonical_id {
        repo.raw().find_reference("refs/rad/id").unwrap().delete().unwrap();
    }
    let path = repo.path().to_path_buf();
    let before = snapshot(repo.raw());
    drop(repo);
    // The layout really is the one the configuration names.
    for (p, st) in cfg.states.iter().enumerate() {
        let ns = before.get(&keys.pk(p).to_string());
        let ok = match st {
            NsState::Absent => ns.is_none(),
            NsState::Signed | NsState::Corrupt => ns.is_some_and(|m| m.contains_key("refs/rad/sigrefs") && m.contains_key("refs/heads/master")),
            NsState::Unsigned => ns.is_some_and(|m| !m.contains_key("refs/rad/sigrefs") && m.contains_key("refs/heads/master")),
        };
        if !ok {
            machinery(&format!("C28: harness did not build namespace {} as {}: {ns:?}", PEERS[p], st.name()));
        }
    }

    // The real entry point.
    let result = storage.clean(rid);

    let mut vs = vec![];
    let wit = || {
        let mut w = cfg.to_json();
        w["seed"] = json!(seed);
        w
    };
    let local_state = cfg.states[0];
    let protected: Vec<usize> = (0..cfg.states.len()).filter(|p| *p == 0 || cfg.is_delegate(*p)).collect();
    let outcome;
    if !path.exists() {
        outcome = "repository-removed".to_string();
        match local_state {
            NsState::Signed => vs.push(Violation::new("C28/repository-removed/local-has-sigrefs", format!("clean removed the whole repository although the local node has signed refs in it ({})", cfg.to_json()), wit()).cost(cfg.cost())),
            NsState::Corrupt => vs.push(Violation::new("C28/repository-removed/local-sigrefs-unverifiable", format!("clean removed the whole repository although the local node has a rad/sigrefs branch ({})", cfg.to_json()), wit()).cost(cfg.cost())),
            _ => {}
        }
    } else {
        let after = snapshot(&git2::Repository::open_bare(&path).unwrap());
        let empty = BTreeMap::new();
        let mut removed = 0;
        let mut touched: BTreeSet<String> = BTreeSet::new();
        for ns in before.keys().chain(after.keys()) {
            if before.get(ns) != after.get(ns) {
                touched.insert(ns.clone());
            }
        }
        for p in 0..cfg.states.len() {
            let ns = keys.pk(p).to_string();
            let (b, a) = (before.get(&ns).unwrap_or(&empty), after.get(&ns).unwrap_or(&empty));
            if !b.is_empty() && a.is_empty() {
                removed += 1;
            }
            if protected.contains(&p) && b != a {
                let role = match (p == 0, cfg.is_delegate(p)) {
                    (true, true) => "local-delegate",
                    (true, false) => "local",
                    _ => "delegate",
                };
                let lost: Vec<&String> = b.keys().filter(|k| a.get(*k) != b.get(*k)).collect();
                vs.push(
                    Violation::new(
                        format!("C28/protected-namespace-changed/{role}/{}", cfg.states[p].name()),
                        format!("clean changed the namespace of {} ({role}, {}): refs {lost:?} removed or moved ({})", PEERS[p], cfg.states[p].name(), cfg.to_json()),
                        wit(),
                    )
                    .cost(cfg.cost()),
                );
            }
        }
        if touched.contains("") {
            vs.push(Violation::new("C28/non-namespace-refs-changed", format!("clean changed refs outside refs/namespaces/: before {:?} after {:?} ({})", before.get(""), after.get(""), cfg.to_json()), wit()).cost(cfg.cost()));
        }
        outcome = match &result {
            Ok(list) => {
                let reported: BTreeSet<String> = list.iter().map(|k| k.to_string()).collect();
                let actually: BTreeSet<String> = touched.iter().filter(|n| !n.is_empty()).cloned().collect();
                format!("kept:removed-namespaces={removed}{}", if reported == actually { "" } else { "|report-differs" })
            }
            Err(e) => {
                let s = e.to_string();
                // message with ids / paths collapsed
                let kind: String = s.split_whitespace().map(|w| if w.len() > 20 || w.contains('/') { "#" } else { w }).collect::<Vec<_>>().join(" ").chars().take(60).collect();
                format!("err({kind}):removed-namespaces={removed}")
            }
        };
    }
    (vs, outcome)
}

fn scratch_root() -> tempfile::TempDir {
    let shm = Path::new("/dev/shm");
    if shm.is_dir() {
        if let Ok(d) = tempfile::Builder::new().prefix("chk-c28-").tempdir_in(shm) {
            return d;
        }
    }
    tempfile::Builder::new().prefix("chk-c28-").tempdir().unwrap()
}

fn main() {
    let ctx = Ctx::from_env("C28", "fault_enumeration");
    // Fixed commit times (set before any thread exists).
    std::env::set_var("RAD_COMMIT_TIME", "1514817556");
    std::env::set_var("RAD_LOCAL_TIME", "1514817556");
    std::env::set_var("GIT_COMMITTER_DATE", "1514817556");
    let root = scratch_root();

    if let Some(w) = ctx.replay_witness() {
        let cfg = Config::from_json(&w);
        let seed = w["seed"].as_u64().unwrap_or(ctx.seed);
        let dir = tempfile::tempdir_in(root.path()).unwrap();
        let (vs, _) = run(&cfg, &Keys::new(seed), dir.path(), seed);
        drop(dir);
        drop(root);
        ctx.finish_replay(vs);
    }

    let thorough = ctx.tier == mcx::Tier::Thorough;
    let space = if thorough { Space::new(6, true) } else { Space::new(5, true) };
    let seed = ctx.seed;
    let keys = Keys::new(seed);
    let n = space.radix.size();
    let mut st = sweep::threads(
        n,
        |i| {
            let cfg = space.decode(i);
            let dir = tempfile::tempdir_in(root.path()).unwrap();
            let (vs, outcome) = run(&cfg, &keys, dir.path(), seed);
            // trivial: nothing but protected namespaces exists (clean has nothing it may remove)
            let removable = (0..cfg.states.len()).any(|p| p != 0 && !cfg.is_delegate(p) && cfg.states[p] != NsState::Absent);
            let redundant = cfg.grown && cfg.delegates.count_ones() == 1;
            let class = if removable && !redundant { mcx::fnv64(cfg.to_json().to_string().as_bytes()) | 1 } else { 0 };
            let local = cfg.states[0].name();
            ItemOut::new(class, format!("local-{local}:{outcome}")).with(vs)
        },
        Some(|i: u64, c: &mcx::panics::Caught| Violation::new(format!("C28/panic/{}", c.site()), format!("panic while cleaning item {i}: {}", c.message), space.decode(i).to_json())),
    );

    // Vacuity: the three branches of Storage::clean must have been taken.
    let seen = |needle: &str| st.outcomes.iter().any(|(k, v)| k.contains(needle) && *v > 0);
    let vacuous: Vec<&str> = ["repository-removed", "kept:removed-namespaces=0", "kept:removed-namespaces=2"].into_iter().filter(|must| !seen(must)).collect();

    let samples: Vec<Value> = sweep::sample_indexes(n).into_iter().map(|i| space.decode(i).to_json()).collect();
    let mut cov = st.coverage(
        "items = (namespace state per peer in {absent, signed, unsigned} (+ corrupt sigrefs for local), current delegate set = non-empty subset of {local,d1,d2}, \
         delegate set given by the root document | added by a later identity revision, canonical refs/rad/id present | absent); an item is non-trivial when a non-protected \
         namespace exists; distinct = distinct configuration",
        samples,
    );
    cov.insert("peers".into(), json!(PEERS[..space.peers]));
    cov.insert("local_states".into(), json!(space.local_states.iter().map(|s| s.name()).collect::<Vec<_>>()));
    let violations = std::mem::take(&mut st.violations);
    drop(root);
    if violations.is_empty() && !vacuous.is_empty() {
        machinery(&format!("C28: vacuity alarm: outcome(s) {vacuous:?} never observed"));
    }
    ctx.finish(
        cov,
        &[
            "trusted: libgit2 reference iteration used for the snapshots",
            "a followed peer is indistinguishable from a stranger at the storage layer (clean takes no policy); it is kept as a separate peer only for key-order variety",
            "an Err from clean is judged like Ok: only the resulting refs matter",
        ],
        violations,
    );
}
