//! C06 — A change whose signature does not verify, or which the object type rejects, is dropped
//! from the object's history together with every change that depends on it, and the resulting
//! state is identical to evaluating the history from which those changes were removed: a rejected
//! change never partially takes effect.
//!
//! Engine B (process-isolated sweep, one single-threaded worker per core). Same seam as C05: real
//! git storage, real signed change commits written through `change::Storage::store` with chosen
//! parents / timestamps / authors, refs through `object::Storage::update`, evaluation through
//! `radicle_cob::get::<Issue | Patch | Thread | Identity>`.
//!
//! Item = (object type, DAG shape, timestamp pattern, rank order of the change ids, one *mode* per
//! change): valid; commit signature that does not verify; or k accepted actions followed by one
//! action the type rejects (k = 0, 1, 2; reasons per type in `cobgraph::reasons`). In the "rich"
//! families the accepted actions are every sequence of 0..=2 action kinds ({edit, lifecycle,
//! label, assign, comment(, review)}) that the acting key is authorised for — delegate,
//! non-delegate creator of the object, non-delegate non-creator, stranger — crossed with every
//! rejection reason, for objects created by a delegate and by a non-delegate.
//!
//! Oracle, from the property text only:
//!  (1) every change constructed as unconditionally invalid is absent from the returned history;
//!  (2) every descendant of an absent change is absent;
//!  (3) with R = the changes absent from the returned history, `get` on the history without R
//!      (refs moved to the tips of the remainder) returns the same object.
//! When (3) fails and several changes were rejected, each rejected change c is additionally
//! tested alone (history = kept ∪ {c}) so that the violation is attributed to the change that
//! leaves the trace.

#[path = "../cobgraph.rs"]
mod cobgraph;

use cobgraph::*;
use mcx::report::{Ctx, Violation};
use mcx::sweep::{self, Crash, ItemOut, ProcOpts};
use serde_json::{json, Map, Value};
use std::cell::RefCell;
use std::collections::BTreeSet;
use std::time::Duration;

#[derive(Clone, Copy, Debug, PartialEq, Eq)]
enum ModeSet {
    /// Every tuple of modes of the type (valid, bad signature, every reason at every position).
    AllTuples,
    /// Exactly one change is not valid; it takes every mode, at every position.
    OneInvalid,
    /// Every tuple over {valid, bad signature, reason 0 as 1st action, reason 0 as 2nd action}.
    Small,
    /// Exactly one change is not valid; it takes every *rich* mode (every admissible sequence of
    /// 0..=2 accepted actions of different kinds, authorised for the acting key, followed by every
    /// rejection reason; acting key = delegate / non-delegate N / stranger), at every position.
    RichOne,
}

#[derive(Clone, Copy, Debug)]
struct Family {
    kind: Kind,
    n: usize,
    modes: ModeSet,
    all_ranks: bool,
    all_ts: bool,
    /// Who created the object: the delegate A or the non-delegate N.
    root_author: usize,
}

fn small_modes() -> [Mode; 4] {
    [Mode::Valid, Mode::BadSig, Mode::Rejected { pos: 0, reason: 0 }, Mode::Rejected { pos: 1, reason: 0 }]
}

impl Family {
    fn mode_count(&self) -> u64 {
        let all = Mode::all(self.kind).len() as u64;
        match self.modes {
            ModeSet::AllTuples => all.pow(self.n as u32),
            ModeSet::OneInvalid => (all - 1) * self.n as u64,
            ModeSet::Small => 4u64.pow(self.n as u32),
            ModeSet::RichOne => Mode::rich_all(self.kind, self.root_author).len() as u64 * self.n as u64,
        }
    }
    fn ts_count(&self) -> u64 {
        if self.all_ts {
            1 << self.n
        } else {
            1
        }
    }
    fn rank_count(&self) -> u64 {
        if self.all_ranks {
            (1..=self.n as u64).product()
        } else {
            1
        }
    }
    fn size(&self) -> u64 {
        Shape::count(self.n) * self.ts_count() * self.rank_count() * self.mode_count()
    }
    fn describe(&self) -> Value {
        json!({"kind": self.kind.name(), "changes": self.n, "shapes": Shape::count(self.n), "timestamp_patterns": self.ts_count(),
               "rank_orders": self.rank_count(), "mode_set": format!("{:?}", self.modes), "created_by": ACTORS[self.root_author], "mode_tuples": self.mode_count(), "items": self.size()})
    }
    fn plan(&self, mut i: u64) -> Plan {
        let n = self.n;
        let mc = self.mode_count();
        let mut mi = i % mc;
        i /= mc;
        let rank_i = i % self.rank_count();
        i /= self.rank_count();
        let ts_i = i % self.ts_count();
        i /= self.ts_count();
        let shape = Shape::nth(n, i);
        let all = Mode::all(self.kind);
        let modes: Vec<Mode> = match self.modes {
            ModeSet::AllTuples => (0..n)
                .map(|_| {
                    let m = all[(mi % all.len() as u64) as usize];
                    mi /= all.len() as u64;
                    m
                })
                .collect(),
            ModeSet::OneInvalid => {
                let which = (mi % n as u64) as usize;
                let m = all[1 + (mi / n as u64) as usize];
                (0..n).map(|k| if k == which { m } else { Mode::Valid }).collect()
            }
            ModeSet::Small => (0..n)
                .map(|_| {
                    let m = small_modes()[(mi % 4) as usize];
                    mi /= 4;
                    m
                })
                .collect(),
            ModeSet::RichOne => {
                let rich = Mode::rich_all(self.kind, self.root_author);
                let which = (mi % n as u64) as usize;
                let m = rich[(mi / n as u64) as usize];
                (0..n).map(|k| if k == which { m } else { Mode::Valid }).collect()
            }
        };
        let ts: Vec<i64> = if self.all_ts { (0..n).map(|k| ((ts_i >> k) & 1) as i64).collect() } else { vec![0; n] };
        let rank = if self.all_ranks { Some(permutations(n)[rank_i as usize].clone()) } else { None };
        Plan { kind: self.kind, shape, ts, modes, rank, root_author: self.root_author }
    }
}

fn families(thorough: bool) -> Vec<Family> {
    let mut f = vec![];
    for kind in KINDS {
        // Every mode alone, every pair of modes, in every shape / timestamp pattern / id order.
        f.push(Family { kind, n: 1, modes: ModeSet::AllTuples, all_ranks: true, all_ts: true, root_author: N });
        f.push(Family { kind, n: 2, modes: ModeSet::AllTuples, all_ranks: thorough, all_ts: true, root_author: N });
        // The DAG family with the small mode alphabet at every position.
        f.push(Family { kind, n: 3, modes: ModeSet::Small, all_ranks: thorough, all_ts: true, root_author: N });
        if thorough {
            f.push(Family { kind, n: 3, modes: ModeSet::OneInvalid, all_ranks: false, all_ts: true, root_author: N });
            f.push(Family { kind, n: 4, modes: ModeSet::Small, all_ranks: false, all_ts: false, root_author: N });
        }
        // Rich accepted prefixes x rejection reasons x acting key, for objects created by a
        // delegate and by a non-delegate.
        if kind != Kind::Identity {
            let creators: &[usize] = if kind == Kind::Thread { &[N] } else { &[A, N] };
            for root_author in creators {
                f.push(Family { kind, n: 1, modes: ModeSet::RichOne, all_ranks: true, all_ts: true, root_author: *root_author });
                f.push(Family { kind, n: 2, modes: ModeSet::RichOne, all_ranks: false, all_ts: thorough, root_author: *root_author });
                if thorough && kind != Kind::Thread {
                    // The basic alphabet also for objects created by a delegate.
                    if *root_author == A {
                        f.push(Family { kind, n: 2, modes: ModeSet::AllTuples, all_ranks: true, all_ts: true, root_author: A });
                    }
                }
            }
        }
    }
    f
}

fn locate(fams: &[Family], mut i: u64) -> (usize, u64) {
    for (k, f) in fams.iter().enumerate() {
        if i < f.size() {
            return (k, i);
        }
        i -= f.size();
    }
    panic!("index out of range");
}

thread_local! {
    static WORLD: RefCell<Option<World>> = const { RefCell::new(None) };
}

fn with_world<R>(seed: u64, f: impl FnOnce(&mut World) -> R) -> R {
    WORLD.with(|cell| {
        let mut g = cell.borrow_mut();
        let w = g.get_or_insert_with(|| World::new(seed, 8));
        f(w)
    })
}

fn summary(e: &Eval, built: &Built) -> Value {
    match e {
        Eval::Object(o) => json!({
            "object": o.object,
            "history": o.graph.keys().filter_map(|k| built.index_of(k)).collect::<Vec<_>>(),
        }),
        Eval::Absent => json!("absent"),
        Eval::Error(e) => json!({"error": e}),
    }
}

/// Evaluate the sub-history induced by the ancestor-closed index set `keep`.
fn eval_subset(w: &mut World, plan: &Plan, built: &Built, keep: &BTreeSet<usize>) -> Eval {
    let ty = plan.kind.type_name();
    let refs = built.tip_refs(&plan.shape, keep);
    w.present(&ty, &built.obj, &refs);
    eval(w, plan.kind, &built.obj)
}

fn kept_indices(e: &Eval, built: &Built) -> Option<BTreeSet<usize>> {
    e.observed().map(|o| (0..built.ids.len()).filter(|i| o.graph.contains_key(&built.ids[*i])).collect())
}

fn eval_plan(seed: u64, plan: &Plan) -> ItemOut {
    with_world(seed, |w| {
        let kind = plan.kind;
        let ty = kind.type_name();
        let n = plan.shape.n();
        let built = build(w, plan);
        let all: BTreeSet<usize> = (0..=n).collect();
        let mode_label = |i: usize| -> String {
            if i == 0 {
                "root".into()
            } else if plan.modes[i - 1].is_valid() {
                "valid-by-construction".into()
            } else {
                plan.modes[i - 1].label(kind)
            }
        };
        // Fingerprint component: the abstract shape of the rejected change (not its concrete
        // reason when the accepted prefix of a multi-action change is what stays behind).
        let mechanism = |c: usize, fields: &str| -> String {
            match plan.modes.get(c.wrapping_sub(1)) {
                Some(m @ (Mode::Rejected { .. } | Mode::Rich { .. })) if m.prefix_len(kind) >= 1 => {
                    "multi-action-change/accepted-actions-before-the-rejected-one-stay-applied".to_string()
                }
                Some(Mode::Rejected { .. } | Mode::Rich { .. }) => format!("single-rejected-action/{fields}"),
                Some(Mode::BadSig) => "bad-commit-signature".to_string(),
                _ => format!("valid-by-construction-rejected-in-context/{fields}"),
            }
        };
        let pos_cost = |c: usize| -> u64 {
            match plan.modes.get(c.wrapping_sub(1)) {
                Some(Mode::Rejected { pos, reason }) => *pos as u64 * 10 + *reason as u64,
                Some(m @ Mode::Rich { reason, .. }) => m.prefix_len(kind) as u64 * 10 + *reason as u64 + 5,
                _ => 0,
            }
        };
        let e1 = eval_subset(w, plan, &built, &all);
        let mut vs: Vec<Violation> = vec![];
        let invalid_constructed = plan.modes.iter().filter(|m| !m.is_valid()).count();
        let base_cost = (n * 1000 + invalid_constructed * 100) as u64;
        let witness = |extra: Value| -> Value {
            let mut v = json!({"plan": plan_json(plan, Some(&built))});
            if let (Some(a), Some(b)) = (v.as_object_mut(), extra.as_object()) {
                for (k, x) in b {
                    a.insert(k.clone(), x.clone());
                }
            }
            v
        };
        let mut facets: Vec<String> = vec![format!("kind={}", kind.name()), format!("shape={}", plan.shape.class())];
        for i in 1..=n {
            facets.push(format!("mode={}:{}", kind.name(), mode_label(i)));
        }
        let Some(kept) = kept_indices(&e1, &built) else {
            // The root is valid by construction: `get` must produce an object.
            vs.push(Violation::new(
                format!("C06/{}/no-object", kind.name()),
                format!("{}: get returned {} for a history with a valid root", kind.name(), e1.label()),
                witness(json!({"result": summary(&e1, &built)})),
            ));
            w.clear(&ty, &built.obj);
            facets.push("result=no-object".into());
            return ItemOut::new(1, facets.join("|")).with(vs);
        };
        let dropped: BTreeSet<usize> = all.difference(&kept).copied().collect();
        // (1) constructed-invalid changes are dropped.
        for i in 1..=n {
            if plan.modes[i - 1].certain_invalid(kind) && kept.contains(&i) {
                vs.push(
                    Violation::new(
                        format!("C06/{}/invalid-change-kept/{}", kind.name(), mode_label(i)),
                        format!("{}: change {i} ({}) is still part of the history returned by get", kind.name(), mode_label(i)),
                        witness(json!({"change": i, "result": summary(&e1, &built)})),
                    )
                    .cost(base_cost),
                );
            }
        }
        // (2) dependents of dropped changes are dropped.
        let mut closure = dropped.clone();
        for d in &dropped {
            closure.extend(plan.shape.descendants(*d));
        }
        if closure != dropped {
            vs.push(
                Violation::new(
                    format!("C06/{}/dependent-of-dropped-change-kept", kind.name()),
                    format!("{}: changes {:?} were dropped but their descendants {:?} are still in the history", kind.name(), dropped, closure.difference(&dropped).collect::<Vec<_>>()),
                    witness(json!({"dropped": dropped, "result": summary(&e1, &built)})),
                )
                .cost(base_cost),
            );
        }
        // Changes the implementation itself rejected (the others fell with an ancestor).
        let culprits: Vec<usize> = closure.iter().copied().filter(|d| !plan.shape.ancestors(*d).iter().any(|a| closure.contains(a))).collect();
        for c in &culprits {
            facets.push(format!("rejected={}:{}", kind.name(), mode_label(*c)));
        }
        facets.push(format!("dropped={}", closure.len()));
        // (3) the state equals the evaluation of the history without the dropped changes.
        let mut result = if closure.is_empty() { "nothing-dropped" } else { "clean" };
        if closure != dropped {
            // The returned history is not what clause (3) quantifies over; (2) is reported.
            result = "dependent-kept";
        } else if !closure.is_empty() {
            let keep: BTreeSet<usize> = all.difference(&closure).copied().collect();
            let e2 = eval_subset(w, plan, &built, &keep);
            let same = match (e1.observed(), e2.observed()) {
                (Some(a), Some(b)) => a.object == b.object && a.debug == b.debug,
                _ => false,
            };
            if !same {
                result = "trace";
                let kept2 = kept_indices(&e2, &built);
                let drops_more = kept2.as_ref().map(|k| *k != keep).unwrap_or(true);
                let fields = |a: &Eval, b: &Eval| -> String {
                    match (a.observed(), b.observed()) {
                        (Some(x), Some(y)) => diff_fields(x, y).join("+"),
                        _ => format!("{}-vs-{}", a.label(), b.label()),
                    }
                };
                let mut attributed = false;
                if culprits.len() > 1 {
                    // Attribute: each rejected change alone on top of the kept history.
                    for c in &culprits {
                        let mut with_c = keep.clone();
                        with_c.insert(*c);
                        let ec = eval_subset(w, plan, &built, &with_c);
                        let Some(kc) = kept_indices(&ec, &built) else { continue };
                        if kc.contains(c) {
                            continue; // not rejected in this context
                        }
                        let keep_c: BTreeSet<usize> = kc.clone();
                        let e0 = if keep_c == keep { e2.clone() } else { eval_subset(w, plan, &built, &keep_c) };
                        let same_c = match (ec.observed(), e0.observed()) {
                            (Some(a), Some(b)) => a.object == b.object && a.debug == b.debug,
                            _ => false,
                        };
                        if !same_c {
                            attributed = true;
                            let more = kept_indices(&e0, &built).map(|k| k != keep_c).unwrap_or(true);
                            vs.push(
                                Violation::new(
                                    if more {
                                        format!("C06/{}/rejected-change-decides-whether-a-concurrent-change-is-accepted", kind.name())
                                    } else {
                                        format!("C06/{}/rejected-change-left-trace/{}", kind.name(), mechanism(*c, &fields(&ec, &e0)))
                                    },
                                    format!(
                                        "{}: change {c} ({}) is absent from the history returned by get, but the object differs from the evaluation of the history without it in: {}",
                                        kind.name(),
                                        mode_label(*c),
                                        fields(&ec, &e0)
                                    ),
                                    witness(json!({"rejected_change": c, "history_evaluated": with_c, "history_without_rejected": keep_c,
                                                   "with": summary(&ec, &built), "without": summary(&e0, &built)})),
                                )
                                .cost(base_cost + 50 + pos_cost(*c)),
                            );
                        }
                    }
                }
                if !attributed {
                    let labels: BTreeSet<String> = culprits.iter().map(|c| mode_label(*c)).collect();
                    vs.push(
                        Violation::new(
                            if drops_more {
                                // The history without the rejected changes loses further changes:
                                // a change that was accepted next to them is rejected without them.
                                format!("C06/{}/rejected-change-decides-whether-a-concurrent-change-is-accepted", kind.name())
                            } else if culprits.len() == 1 {
                                format!("C06/{}/rejected-change-left-trace/{}", kind.name(), mechanism(culprits[0], &fields(&e1, &e2)))
                            } else {
                                format!("C06/{}/rejected-change-left-trace/several-rejected-changes-jointly", kind.name())
                            },
                            format!(
                                "{}: change(s) {:?} ({}) are absent from the history returned by get, but the object differs from the evaluation of the history without them in: {}",
                                kind.name(),
                                culprits,
                                labels.iter().cloned().collect::<Vec<_>>().join(", "),
                                fields(&e1, &e2)
                            ),
                            witness(json!({"rejected_changes": culprits, "dropped": closure, "history_without_rejected": keep,
                                           "with": summary(&e1, &built), "without": summary(&e2, &built)})),
                        )
                        .cost(base_cost + culprits.len() as u64 * 10 + culprits.iter().map(|c| pos_cost(*c)).sum::<u64>()),
                    );
                }
            }
        }
        w.clear(&ty, &built.obj);
        facets.push(format!("result={result}"));
        let class = if invalid_constructed == 0 {
            0
        } else {
            mcx::fnv64(format!("{kind:?}/{:?}/{:?}/{:?}", plan.shape.parents, plan.ts, plan.modes).as_bytes()) | 1
        };
        ItemOut::new(class, facets.join("|")).with(vs)
    })
}

fn main() {
    let ctx = Ctx::from_env("C06", "exploration");
    let thorough = ctx.tier == mcx::Tier::Thorough;
    let seed = ctx.seed;
    if let Some(w) = ctx.replay_witness() {
        let plan = w.get("plan").and_then(plan_from_json).unwrap_or_else(|| mcx::report::machinery("replay: witness has no plan"));
        let out = eval_plan(seed, &plan);
        WORLD.with(|c| c.borrow_mut().take());
        ctx.finish_replay(out.violations);
    }
    let scratch = scratch();
    let fams = families(thorough);
    let total: u64 = fams.iter().map(Family::size).sum();
    let eval_i = |i: u64| {
        let (k, j) = locate(&fams, i);
        eval_plan(seed, &fams[k].plan(j))
    };
    if let Ok(r) = std::env::var("C06_RANGE") {
        // Diagnostic aid (not part of the check): run items in-process and print their outcomes.
        let (lo, hi) = r.split_once("..").map(|(a, b)| (a.parse::<u64>().unwrap(), b.parse::<u64>().unwrap())).unwrap();
        let t = std::time::Instant::now();
        for i in lo..hi.min(total) {
            let o = eval_i(i);
            println!("{i} {} {:?}", o.outcome, o.violations.iter().map(|v| v.fingerprint.clone()).collect::<Vec<_>>());
        }
        println!("{} items in {:?} (total {total})", hi.min(total) - lo, t.elapsed());
        WORLD.with(|c| c.borrow_mut().take());
        drop(scratch);
        std::process::exit(0);
    }
    let describe = |i: u64| {
        let (k, j) = locate(&fams, i);
        json!({"index": i, "family": fams[k].describe(), "plan": plan_json(&fams[k].plan(j), None)})
    };
    let mut st = sweep::procs(
        "c06",
        total,
        ProcOpts { chunk_timeout: Duration::from_secs(600), item_timeout: Duration::from_secs(60), chunk: Some((total / 512).clamp(1, 256)) },
        eval_i,
        Some(|i: u64, c: &mcx::panics::Caught| {
            Violation::new(format!("C06/panic@{}", c.site()), format!("panic while evaluating a change graph: {}", c.message), describe(i))
        }),
        |i: u64, crash: Crash, tail: &str| Violation::new(format!("C06/crash/{crash:?}"), format!("worker crashed / hung on item {i}: {tail}"), describe(i)),
    );
    let samples: Vec<Value> = sweep::sample_indexes(total).into_iter().map(describe).collect();
    let m = marginals(&st.outcomes);
    let mut cov = st.coverage(
        "items = (object type, DAG shape on root + n changes, timestamp pattern, rank order of the change ids, one mode per change: valid / bad commit signature / k accepted actions then a rejected one) \
         enumerated by index over the listed families; per item get(H), then get(H minus the changes absent from the returned history), plus one get per rejected change when attribution is needed; \
         an item is non-trivial when at least one change is constructed as invalid; distinct = distinct (type, shape, timestamps, modes), rank orders not counted",
        samples,
    );
    cov.insert("outcome_histogram".into(), Value::Object(m));
    cov.insert("distinct_outcomes".into(), json!(st.outcomes.len()));
    cov.insert("families".into(), json!(fams.iter().map(Family::describe).collect::<Vec<_>>()));
    cov.insert(
        "rich_modes".into(),
        json!(KINDS
            .iter()
            .filter(|k| **k != Kind::Identity)
            .map(|k| (k.name().to_string(), json!({"object_created_by_A": Mode::rich_all(*k, A).len(), "object_created_by_N": Mode::rich_all(*k, N).len(),
                       "prefix_sequences": prefix_seqs(*k).len()})))
            .collect::<Map<String, Value>>()),
    );
    cov.insert(
        "modes".into(),
        json!(KINDS.iter().map(|k| (k.name().to_string(), json!(Mode::all(*k).iter().map(|m| m.label(*k)).collect::<Vec<_>>()))).collect::<Map<String, Value>>()),
    );
    let violations = std::mem::take(&mut st.violations);
    drop(scratch);
    ctx.finish(
        cov,
        &[
            "observation = Serialize + Debug of the object returned by radicle_cob::get, and the node set of its history",
            "'constructed as invalid' is the harness's knowledge of what it wrote: a commit signature over other bytes, or an action the type's own rules reject wherever it is applied (reasons marked certain); context-dependent rejections are only subject to the differential clause",
            "a change has at most one action that touches a timeline after its accepted prefix, because a second timeline push of one change trips debug_assert!(!timeline.contains(id)) in debug builds (thread.rs, identity.rs) — such changes are outside the space",
            "commit timestamps are set through GIT_COMMITTER_DATE, one single-threaded worker process per core",
            "trusted: libgit2 object database, ed25519 signatures of the mock signers",
        ],
        violations,
    );
}
