//! C05 — The materialised state of a collaborative object depends only on the set of change
//! commits reachable from its references: replicas holding the same changes compute identical
//! state and history regardless of which namespaces point at the changes, the order in which
//! references / changes are enumerated, or the order in which they were received.
//!
//! Engine B (process-isolated sweep; `GIT_COMMITTER_DATE` is process-global and every worker is
//! single-threaded). Real git storage, real signed change commits written through
//! `radicle_cob::change::Storage::store`, refs written through `object::Storage::update`,
//! evaluation through `radicle_cob::get::<Issue | Patch | Thread | Identity>`.
//!
//! Item = one change DAG instance: (object type, DAG shape on root + n changes, timestamp
//! pattern over {t, t+1}, rank order of the change ids (realised by salt search on the commit
//! message), payload variant). For every item, EVERY presentation of the same change set is
//! evaluated: every sequence of 1..=M ref targets (repetition and non-tip targets allowed, so
//! redundant refs and shared targets are included) that covers the tips, assigned to the
//! namespaces in ref-enumeration order — which enumerates both "which namespaces point at what"
//! and the enumeration order of the tip refs. In addition the same DAG is written into a second
//! repository in the reverse linear extension ("received in a different order") and evaluated there.
//!
//! Oracle (purely differential): all evaluations of one item are equal — object (serialised and
//! `Debug`), manifest, and the complete history graph (node set, edges, tips).

#[path = "../cobgraph.rs"]
mod cobgraph;

use cobgraph::*;
use mcx::report::{Ctx, Violation};
use mcx::sweep::{self, Crash, ItemOut, ProcOpts};
use radicle::git::Oid;
use serde_json::{json, Map, Value};
use std::cell::RefCell;
use std::collections::{BTreeMap, BTreeSet};
use std::time::Duration;

#[derive(Clone, Copy, Debug, PartialEq, Eq)]
enum TsSet {
    /// Every pattern in {t, t+1}^n.
    All,
    /// All equal.
    Equal,
}

#[derive(Clone, Copy, Debug, PartialEq, Eq)]
enum PresSet {
    /// Every covering sequence of 1..=max(3, #tips) targets.
    Full,
    /// Every covering sequence of 1..=max(2, #tips) targets.
    Short,
}

#[derive(Clone, Copy, Debug)]
struct Family {
    kind: Kind,
    n: usize,
    ts: TsSet,
    /// All n! rank orders of the non-root change ids (salt search) or whatever salt 0 gives.
    all_ranks: bool,
    pres: PresSet,
    /// Payload variants: 0 all valid; 1 the middle change carries a rejected 2nd action;
    /// 2 the last change has a commit signature that does not verify; 3 (patches) every change is
    /// a delegate merge of the root revision, alternating between two commits.
    variants: &'static [usize],
    /// `None`: every shape on n changes; `Some`: only the shapes with these indexes.
    shapes: Option<&'static [u64]>,
}

/// Indexes of the shapes on `n` changes that a single reference can present although they
/// contain concurrency: exactly one tip and at least one change with two or more parents
/// (optionally only those without a redundant edge).
fn single_tip_merge_shapes(n: usize, allow_redundant: bool) -> &'static [u64] {
    let v: Vec<u64> = (0..Shape::count(n))
        .filter(|i| {
            let s = Shape::nth(n, *i);
            s.tips().len() == 1 && (1..=n).any(|c| s.parents_of(c).len() > 1) && (allow_redundant || !s.has_redundant_edge())
        })
        .collect();
    Box::leak(v.into_boxed_slice())
}

impl Family {
    fn shape_count(&self) -> u64 {
        self.shapes.map(|s| s.len() as u64).unwrap_or_else(|| Shape::count(self.n))
    }
    fn ts_count(&self) -> u64 {
        match self.ts {
            TsSet::All => 1 << self.n,
            TsSet::Equal => 1,
        }
    }
    fn rank_count(&self) -> u64 {
        if self.all_ranks {
            (1..=self.n as u64).product()
        } else {
            1
        }
    }
    fn size(&self) -> u64 {
        self.shape_count() * self.ts_count() * self.rank_count() * self.variants.len() as u64
    }
    fn describe(&self) -> Value {
        json!({"kind": self.kind.name(), "changes": self.n, "shapes": self.shape_count(), "shape_filter": if self.shapes.is_some() { "single tip and at least one merge" } else { "all" }, "timestamps": format!("{:?}", self.ts),
               "rank_orders": self.rank_count(), "presentations": format!("{:?}", self.pres), "variants": self.variants, "items": self.size()})
    }
    fn plan(&self, mut i: u64) -> (Plan, usize) {
        let variant = self.variants[(i % self.variants.len() as u64) as usize];
        i /= self.variants.len() as u64;
        let rank_i = i % self.rank_count();
        i /= self.rank_count();
        let ts_i = i % self.ts_count();
        i /= self.ts_count();
        let shape = Shape::nth(self.n, self.shapes.map(|s| s[i as usize]).unwrap_or(i));
        let n = self.n;
        let ts: Vec<i64> = match self.ts {
            TsSet::All => (0..n).map(|k| ((ts_i >> k) & 1) as i64).collect(),
            _ => vec![0; n],
        };
        let rank = if self.all_ranks { Some(permutations(n)[rank_i as usize].clone()) } else { None };
        let mut modes = vec![Mode::Valid; n];
        match variant {
            1 => modes[(n - 1) / 2] = Mode::Rejected { pos: 1, reason: 0 },
            2 => modes[n - 1] = Mode::BadSig,
            3 => modes = vec![Mode::Merge; n],
            _ => {}
        }
        (Plan { kind: self.kind, shape, ts, modes, rank, root_author: N }, variant)
    }
}

fn families(thorough: bool) -> Vec<Family> {
    let mut f = vec![];
    // Complete product (shape x timestamps x rank orders) on up to 3 changes for every object
    // type. quick: the full presentation set for issues with valid payloads, the short one for the
    // other types and for the variants with a pruned change; thorough: full everywhere (variants
    // with a pruned change for issues only).
    for kind in KINDS {
        for n in 1..=3 {
            if thorough {
                let variants: &'static [usize] = if kind == Kind::Issue { &[0, 1, 2] } else { &[0] };
                f.push(Family { kind, n, ts: TsSet::All, all_ranks: true, pres: PresSet::Full, variants, shapes: None });
            } else if kind == Kind::Issue {
                f.push(Family { kind, n, ts: TsSet::All, all_ranks: true, pres: PresSet::Full, variants: &[0], shapes: None });
                f.push(Family { kind, n, ts: TsSet::All, all_ranks: true, pres: PresSet::Short, variants: &[1, 2], shapes: None });
            } else {
                f.push(Family { kind, n, ts: TsSet::All, all_ranks: true, pres: PresSet::Short, variants: &[0], shapes: None });
            }
        }
    }
    // Patches whose changes are all delegate merges of the root revision at two different commits
    // (threshold 1: two sufficiently supported merges, `State::Open { conflicts }`).
    for n in 2..=3 {
        f.push(Family { kind: Kind::Patch, n, ts: TsSet::All, all_ranks: true, pres: if thorough { PresSet::Full } else { PresSet::Short }, variants: &[3], shapes: None });
    }
    // 4 changes, histories that one reference can present although they contain concurrent
    // changes (one tip, at least one merge): every timestamp pattern x every rank order, so that
    // timestamp order and id order of concurrent changes disagree in every possible way.
    f.push(Family { kind: Kind::Issue, n: 4, ts: TsSet::All, all_ranks: true, pres: PresSet::Short, variants: &[0], shapes: Some(single_tip_merge_shapes(4, thorough)) });
    if !thorough {
        // 4 changes: every shape, equal timestamps (the id tie-break decides everything),
        // rank as salt 0 gives it, short presentations.
        f.push(Family { kind: Kind::Issue, n: 4, ts: TsSet::Equal, all_ranks: false, pres: PresSet::Short, variants: &[0], shapes: None });
    } else {
        // 4 changes: every shape x every timestamp pattern, salt-0 ranks, short presentations ...
        f.push(Family { kind: Kind::Issue, n: 4, ts: TsSet::All, all_ranks: false, pres: PresSet::Short, variants: &[0], shapes: None });
        // ... and every shape x every rank order with equal timestamps (the id tie-break decides
        // everything), full presentation set.
        f.push(Family { kind: Kind::Issue, n: 4, ts: TsSet::Equal, all_ranks: true, pres: PresSet::Full, variants: &[0], shapes: None });
        for kind in [Kind::Patch, Kind::Thread, Kind::Identity] {
            f.push(Family { kind, n: 4, ts: TsSet::Equal, all_ranks: false, pres: PresSet::Short, variants: &[0], shapes: None });
        }
        // 5 changes: every shape, equal timestamps, salt-0 ranks, full presentations.
        f.push(Family { kind: Kind::Issue, n: 5, ts: TsSet::Equal, all_ranks: false, pres: PresSet::Full, variants: &[0], shapes: None });
    }
    f
}

fn locate(fams: &[Family], mut i: u64) -> (usize, u64) {
    for (k, f) in fams.iter().enumerate() {
        if i < f.size() {
            return (k, i);
        }
        i -= f.size();
    }
    panic!("index out of range");
}

/// Every sequence of `m` in `1..=max_len` ref targets over nodes `0..=n` whose set covers `tips`.
fn presentations(n: usize, tips: &[usize], max_len: usize) -> Vec<Vec<usize>> {
    let mut out = vec![];
    let nodes = n + 1;
    for m in tips.len().max(1)..=max_len.max(tips.len()) {
        let total = (nodes as u64).pow(m as u32);
        for mut code in 0..total {
            let mut seq = vec![0usize; m];
            for slot in seq.iter_mut().rev() {
                *slot = (code % nodes as u64) as usize;
                code /= nodes as u64;
            }
            if tips.iter().all(|t| seq.contains(t)) {
                out.push(seq);
            }
        }
    }
    out
}

struct Worlds {
    /// Changes written parents-first.
    w1: World,
    /// Same identity, changes written in the reverse linear extension.
    w2: World,
}

thread_local! {
    static WORLDS: RefCell<Option<Worlds>> = const { RefCell::new(None) };
}

const MAX_NS: usize = 6;

fn with_worlds<R>(seed: u64, f: impl FnOnce(&mut Worlds) -> R) -> R {
    WORLDS.with(|cell| {
        let mut g = cell.borrow_mut();
        let ws = g.get_or_insert_with(|| {
            let w1 = World::new(seed, MAX_NS);
            let w2 = World::new(seed, MAX_NS);
            assert_eq!(w1.identity, w2.identity, "world construction is deterministic");
            Worlds { w1, w2 }
        });
        f(ws)
    })
}

fn describe_eval(e: &Eval) -> Value {
    match e {
        Eval::Object(o) => json!({"object": o.object, "history_nodes": o.graph.keys().map(|k| k.to_string()).collect::<Vec<_>>(), "tips": o.tips.iter().map(|k| k.to_string()).collect::<Vec<_>>()}),
        Eval::Absent => json!("absent"),
        Eval::Error(e) => json!({"error": e}),
    }
}

/// Which part of the observation differs.
fn difference(a: &Eval, b: &Eval) -> String {
    match (a, b) {
        (Eval::Object(x), Eval::Object(y)) => {
            let mut parts = vec![];
            if x.object != y.object || x.debug != y.debug {
                parts.push(format!("object[{}]", diff_fields(x, y).join(",")));
            }
            if x.nodes() != y.nodes() {
                parts.push("history-nodes".to_string());
            } else if x.graph != y.graph {
                parts.push("history-edges".to_string());
            }
            if x.tips != y.tips {
                parts.push("history-tips".to_string());
            }
            if x.manifest != y.manifest {
                parts.push("manifest".to_string());
            }
            parts.join("+")
        }
        _ => format!("{}-vs-{}", a.label(), b.label()),
    }
}

/// Fingerprint component: which half of the observation differs.
fn coarse(d: &str) -> &'static str {
    match (d.contains("object") || d.contains("-vs-") || d.contains("manifest"), d.contains("history")) {
        (true, true) => "object+history",
        (true, false) => "object",
        _ => "history",
    }
}

fn eval_plan(seed: u64, plan: &Plan, pres: PresSet, variant: usize) -> ItemOut {
    with_worlds(seed, |ws| {
        let kind = plan.kind;
        let ty = kind.type_name();
        let n = plan.shape.n();
        let built = build(&mut ws.w1, plan);
        let tips = plan.shape.tips();
        let max_len = match pres {
            PresSet::Full => 3,
            PresSet::Short => 2,
        };
        let all = presentations(n, &tips, max_len);
        let mut vs = vec![];
        let mut reference: Option<(Vec<usize>, Eval)> = None;
        // Evaluating the very same refs again must give the same result: a difference here is
        // nondeterminism inside the evaluation (e.g. hash-map iteration order reaching the
        // state), reported on its own and not as a presentation difference.
        let repeats = if variant == 3 { 16 } else { 1 };
        let mut unstable = false;
        for seq in &all {
            let refs: Vec<(usize, Oid)> = seq.iter().enumerate().map(|(ns, node)| (ns, built.ids[*node])).collect();
            ws.w1.present(&ty, &built.obj, &refs);
            let e = eval(&ws.w1, kind, &built.obj);
            if reference.is_none() {
                for _ in 0..repeats {
                    let again = eval(&ws.w1, kind, &built.obj);
                    if again != e {
                        let d = difference(&e, &again);
                        vs.push(
                            Violation::new(
                                format!("C05/{}/same-refs-evaluate-differently/{}", kind.name(), coarse(&d)),
                                format!("{}: evaluating the same change set through the same refs (nodes {seq:?}) twice gives different results: {d}", kind.name()),
                                json!({"plan": plan_json(plan, Some(&built)), "presentation_a": seq, "pres_max_len": max_len, "variant": variant,
                                       "result_a": describe_eval(&e), "result_b": describe_eval(&again)}),
                            )
                            .cost((n * 100) as u64),
                        );
                        unstable = true;
                        break;
                    }
                }
            }
            if unstable {
                reference = Some((seq.clone(), e));
                break;
            }
            match &reference {
                None => reference = Some((seq.clone(), e)),
                Some((rseq, r)) => {
                    if *r != e {
                        let d = difference(r, &e);
                        vs.push(
                            Violation::new(
                                format!("C05/{}/presentation-changes-result/{}", kind.name(), coarse(&d)),
                                format!(
                                    "{}: the same change set evaluates differently when the refs point at nodes {rseq:?} than at nodes {seq:?} (in ref-enumeration order): {d}",
                                    kind.name()
                                ),
                                json!({"plan": plan_json(plan, Some(&built)), "presentation_a": rseq, "presentation_b": seq, "pres_max_len": max_len, "variant": variant,
                                       "result_a": describe_eval(r), "result_b": describe_eval(&e)}),
                            )
                            .cost((n * 100 + seq.len() * 10 + rseq.len()) as u64),
                        );
                    }
                }
            }
        }
        ws.w1.clear(&ty, &built.obj);
        let (rseq, r) = reference.expect("at least one presentation");
        // Different order of arrival: a second repository that has seen nothing receives the
        // changes in the reverse linear extension (always the largest-index change whose parents
        // are present; `store` refuses a change whose parents are absent).
        if !unstable {
            let mut written: BTreeSet<usize> = BTreeSet::new();
            if kind == Kind::Identity {
                written.insert(0); // the identity root is the repository's own
            }
            while written.len() <= n {
                let i = (0..=n)
                    .rev()
                    .find(|i| !written.contains(i) && plan.shape.parents_of(*i).iter().all(|p| written.contains(p)))
                    .expect("a DAG always has a writable node");
                // Identity documents referenced by the changes must exist before evaluation.
                for (_, blob) in &built.specs[i].embeds {
                    let bytes = ws.w1.repo.backend.find_blob(**blob).expect("blob").content().to_vec();
                    assert_eq!(ws.w2.blob(&bytes), *blob);
                }
                let id = ws.w2.write(&built.specs[i]);
                assert_eq!(id, built.ids[i], "the same specification has the same id in both repositories");
                written.insert(i);
            }
            let refs: Vec<(usize, Oid)> = rseq.iter().enumerate().map(|(ns, node)| (ns, built.ids[*node])).collect();
            ws.w2.present(&ty, &built.obj, &refs);
            let e = eval(&ws.w2, kind, &built.obj);
            ws.w2.clear(&ty, &built.obj);
            if e != r {
                let d = difference(&r, &e);
                vs.push(
                    Violation::new(
                        format!("C05/{}/arrival-order-changes-result/{}", kind.name(), coarse(&d)),
                        format!("{}: the same change set written in another order into a second repository evaluates differently: {d}", kind.name()),
                        json!({"plan": plan_json(plan, Some(&built)), "presentation_a": rseq, "pres_max_len": max_len, "variant": variant,
                               "result_a": describe_eval(&r), "result_b": describe_eval(&e)}),
                    )
                    .cost((n * 100) as u64),
                );
            }
        }
        let pruned = match &r {
            Eval::Object(o) => built.ids.iter().filter(|id| !o.graph.contains_key(id)).count(),
            _ => usize::MAX,
        };
        let ties = {
            let mut t = plan.ts.clone();
            t.sort();
            t.windows(2).any(|w| w[0] == w[1])
        };
        let class = if n <= 1 {
            0
        } else {
            mcx::fnv64(format!("{kind:?}/{:?}/{:?}/{variant}", plan.shape.parents, plan.ts).as_bytes()) | 1
        };
        let outcome = format!(
            "kind={}|shape={}|result={}|pruned={}|ts={}|rank=n{}:{}{}|variant={}|presentations={}",
            kind.name(),
            plan.shape.class(),
            r.label(),
            if pruned == usize::MAX { "-".to_string() } else { pruned.to_string() },
            if ties { "ties" } else { "distinct" },
            n,
            built.rank.iter().map(|r| r.to_string()).collect::<String>(),
            if built.rank_ok { "" } else { ":salt-cap" },
            variant,
            all.len() + 1,
        );
        ItemOut::new(class, outcome).with(vs)
    })
}

fn replay(ctx: &Ctx, w: &Value) -> Vec<Violation> {
    let plan = w.get("plan").and_then(plan_from_json).unwrap_or_else(|| mcx::report::machinery("replay: witness has no plan"));
    let pres = if w.get("pres_max_len").and_then(Value::as_u64) == Some(2) { PresSet::Short } else { PresSet::Full };
    let variant = w.get("variant").and_then(Value::as_u64).unwrap_or(0) as usize;
    let out = eval_plan(ctx.seed, &plan, pres, variant);
    out.violations
}

fn main() {
    let ctx = Ctx::from_env("C05", "exploration");
    let thorough = ctx.tier == mcx::Tier::Thorough;
    let seed = ctx.seed;
    if let Some(w) = ctx.replay_witness() {
        let vs = replay(&ctx, &w);
        WORLDS.with(|c| c.borrow_mut().take());
        ctx.finish_replay(vs);
    }
    let scratch = scratch();
    let fams = families(thorough);
    let total: u64 = fams.iter().map(Family::size).sum();
    let eval_i = |i: u64| {
        let (k, j) = locate(&fams, i);
        let (plan, variant) = fams[k].plan(j);
        eval_plan(seed, &plan, fams[k].pres, variant)
    };
    // Diagnostic aid (not part of the check): `C05_RANGE=lo..hi` runs the items in-process and
    // prints their outcome labels.
    if let Ok(r) = std::env::var("C05_RANGE") {
        let (lo, hi) = r.split_once("..").map(|(a, b)| (a.parse::<u64>().unwrap(), b.parse::<u64>().unwrap())).unwrap();
        let t = std::time::Instant::now();
        for i in lo..hi.min(total) {
            let o = eval_i(i);
            println!("{i} {} violations={}", o.outcome, o.violations.len());
        }
        println!("{} items in {:?}", hi.min(total) - lo, t.elapsed());
        WORLDS.with(|c| c.borrow_mut().take());
        drop(scratch);
        std::process::exit(0);
    }
    let describe = |i: u64| {
        let (k, j) = locate(&fams, i);
        let (plan, variant) = fams[k].plan(j);
        json!({"index": i, "family": fams[k].describe(), "plan": plan_json(&plan, None), "variant": variant})
    };
    let mut st = sweep::procs(
        "c05",
        total,
        ProcOpts { chunk_timeout: Duration::from_secs(600), item_timeout: Duration::from_secs(60), chunk: Some((total / 512).clamp(1, 64)) },
        eval_i,
        Some(|i: u64, c: &mcx::panics::Caught| {
            Violation::new(format!("C05/panic@{}", c.site()), format!("panic while evaluating a change graph: {}", c.message), describe(i))
        }),
        |i: u64, crash: Crash, tail: &str| Violation::new(format!("C05/crash/{crash:?}"), format!("worker crashed / hung on item {i}: {tail}"), describe(i)),
    );
    let samples: Vec<Value> = sweep::sample_indexes(total).into_iter().map(describe).collect();
    let m = marginals(&st.outcomes);
    let pres_total: u64 = m
        .get("presentations")
        .and_then(Value::as_object)
        .map(|o| o.iter().map(|(k, v)| k.parse::<u64>().unwrap_or(0) * v.as_u64().unwrap_or(0)).sum())
        .unwrap_or(0);
    // Rank-order coverage: which permutations of the change ids were realised, per n.
    let mut rank_cov: BTreeMap<String, BTreeSet<String>> = BTreeMap::new();
    let mut salt_cap_hits = 0u64;
    if let Some(r) = m.get("rank").and_then(Value::as_object) {
        for (k, v) in r {
            let mut it = k.split(':');
            let (n, perm) = (it.next().unwrap_or(""), it.next().unwrap_or(""));
            if it.next().is_some() {
                salt_cap_hits += v.as_u64().unwrap_or(0);
            }
            rank_cov.entry(n.to_string()).or_default().insert(perm.to_string());
        }
    }
    let mut cov = st.coverage(
        "items = (object type, DAG shape on root + n changes given by every non-empty parent set per change, timestamp pattern, rank order of the change ids, payload variant) \
         enumerated by index over the listed families; per item every covering sequence of ref targets over the namespaces (plus one rebuild in reverse linear-extension order in a second repository) \
         is evaluated with cob::get and compared; an item is non-trivial when n >= 2; distinct = distinct (type, shape, timestamp pattern, variant), rank orders not counted",
        samples,
    );
    // The raw faceted labels are a product; report one histogram per facet instead.
    cov.insert("outcome_histogram".into(), Value::Object(m.clone()));
    cov.insert("distinct_outcomes".into(), json!(st.outcomes.len()));
    cov.insert("families".into(), json!(fams.iter().map(Family::describe).collect::<Vec<_>>()));
    cov.insert("cob_get_evaluations".into(), json!(pres_total));
    cov.insert(
        "rank_order_coverage".into(),
        json!(rank_cov.iter().map(|(n, s)| (n.clone(), json!({"realised": s.len(), "of": (1..=n[1..].parse::<u64>().unwrap_or(0)).product::<u64>()}))).collect::<Map<String, Value>>()),
    );
    cov.insert("rank_salt_cap_hits".into(), json!(salt_cap_hits));
    let violations = std::mem::take(&mut st.violations);
    drop(scratch);
    ctx.finish(
        cov,
        &[
            "observation = Serialize + Debug of the object, manifest, and the full history graph of the CollaborativeObject returned by radicle_cob::get",
            "ref-enumeration order of libgit2's references_glob is the byte order of the ref names (namespaces are assigned in that order)",
            "commit timestamps are set through GIT_COMMITTER_DATE, one single-threaded worker process per core",
            "trusted: libgit2 object database, ed25519 signatures of the mock signers",
            "payloads are fixed 'recorder' actions per change index (order-sensitive registers + timeline); other payload alphabets are not varied in C05",
        ],
        violations,
    );
}
