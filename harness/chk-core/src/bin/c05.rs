#[path = "../cobgraph.rs"]
mod cobgraph;
use cobgraph::*;
use radicle::cob::issue;
use std::time::Instant;

fn main() {
    let t = Instant::now();
    let mut w = World::new(1, 4);
    println!("world {:?} identity {} rid {}", t.elapsed(), w.identity, w.rid);
    let ty = Kind::Issue.type_name();
    let root = w.write(&ChangeSpec {
        ty: ty.clone(),
        resource: Some(w.identity),
        parents: vec![],
        ts: 0,
        author: A,
        bad_sig: false,
        contents: vec![enc(&issue::Action::Comment { body: "root".into(), reply_to: None, embeds: vec![] }), enc(&issue::Action::Edit { title: "t0".into() })],
        embeds: vec![],
        salt: 0,
    });
    let t = Instant::now();
    let mut prev = root;
    let mut ids = vec![root];
    for i in 1..=4 {
        let id = w.write(&ChangeSpec {
            ty: ty.clone(),
            resource: Some(w.identity),
            parents: vec![prev],
            ts: i,
            author: A,
            bad_sig: false,
            contents: vec![enc(&issue::Action::Edit { title: format!("t{i}") }), enc(&issue::Action::Comment { body: format!("c{i}"), reply_to: Some(root), embeds: vec![] })],
            embeds: vec![],
            salt: 0,
        });
        ids.push(id);
        prev = id;
    }
    println!("4 writes {:?}", t.elapsed());
    let obj = radicle::cob::ObjectId::from(root);
    let t = Instant::now();
    for k in 0..200 {
        w.present(&ty, &obj, &[(k % 4, prev), ((k + 1) % 4, ids[2])]);
    }
    println!("200 presents {:?}", t.elapsed());
    let t = Instant::now();
    let mut e = Eval::Absent;
    for _ in 0..200 {
        e = eval(&w, Kind::Issue, &obj);
    }
    println!("200 evals {:?}", t.elapsed());
    println!("{e:?}");
    let e = eval(&w, Kind::Identity, &radicle::cob::ObjectId::from(w.identity));
    println!("{}", e.label());
}
