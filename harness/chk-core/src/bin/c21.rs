//! C21 — Textual identifiers round-trip: printing a public key, DID, repository id, node alias or
//! user agent and parsing the text yields the same value, printing always uses the canonical
//! form, and parsing arbitrary text never panics.
//!
//! Engine B (threads; every parser is pure string code, a panic is caught per item and is a
//! violation). Sub-spaces, each enumerated completely:
//!
//! * `values`   — keys / DIDs / repository ids built from byte patterns (all-equal bytes, one-hot
//!                bits, zero runs of every length), printed with every printer of the type, compared
//!                with an independent base-58 reference of the canonical form, parsed back.
//! * `texts`    — every string of length ≤ L over a 24-character alphabet, behind every prefix of a
//!                small prefix set, handed to all five parsers.
//! * `edits`    — every single-character substitution / insertion / deletion / adjacent
//!                transposition over base-58 ∪ {0,O,I,l,:} ∪ {' ','\n','/','é'} at every position of
//!                4 valid canonical encodings per type (plus base16 / prefix-less spellings), handed to all five parsers (thorough: adjacent double
//!                substitutions for the own parser as well).
//! * `limits`   — aliases of 31/32/33 bytes and user agents of 63/64/65 bytes in several fillings,
//!                with every single-character substitution over the 24-character alphabet.
//! * `bypass`   — values of `Alias` / `UserAgent` obtained through public constructors that do not
//!                go through `FromStr` (`Alias::from(&NodeId)`, serde `Deserialize` of `UserAgent`).
//!
//! Oracle, for every text `s` a parser accepts as `v`: `parse(print(v)) == v`,
//! `print(parse(print(v))) == print(v)`, and (keys, DIDs, ids) `print(v)` equals the reference
//! canonical form `MULTIBASE(base58btc, …)`. For every value `v`: the same, and all printers agree.

use mcx::panics::Caught;
use mcx::report::{Ctx, Violation};
use mcx::sweep::{self, ItemOut, Stats};
use radicle::crypto::test::signer::MockSigner;
use radicle::crypto::Signer as _;
use radicle::crypto::PublicKey;
use radicle::identity::{Did, RepoId};
use radicle::node::{Alias, UserAgent};
use serde_json::{json, Value};
use std::fmt::Debug;
use std::str::FromStr;

#[derive(Clone, Copy, PartialEq, Eq, Debug)]
enum Ty {
    Key,
    Did,
    Rid,
    Alias,
    Agent,
}
const TYPES: [Ty; 5] = [Ty::Key, Ty::Did, Ty::Rid, Ty::Alias, Ty::Agent];

fn ty_from(s: &str) -> Option<Ty> {
    TYPES.iter().copied().find(|t| format!("{t:?}") == s)
}

const B58: &[u8] = b"123456789ABCDEFGHJKLMNPQRSTUVWXYZabcdefghijkmnopqrstuvwxyz";

/// Independent base-58 (bitcoin alphabet) encoder: schoolbook base conversion.
fn b58(bytes: &[u8]) -> String {
    let zeros = bytes.iter().take_while(|b| **b == 0).count();
    let mut digits: Vec<u8> = vec![]; // little endian
    for &b in bytes {
        let mut carry = b as u32;
        for d in digits.iter_mut() {
            carry += (*d as u32) << 8;
            *d = (carry % 58) as u8;
            carry /= 58;
        }
        while carry > 0 {
            digits.push((carry % 58) as u8);
            carry /= 58;
        }
    }
    let mut s = String::new();
    for _ in 0..zeros {
        s.push('1');
    }
    for d in digits.iter().rev() {
        s.push(B58[*d as usize] as char);
    }
    s
}

fn ref_key(bytes: &[u8]) -> String {
    let mut buf = vec![0xed, 0x01];
    buf.extend_from_slice(bytes);
    format!("z{}", b58(&buf))
}

/// Short stable label of an error value.
fn label<E: Debug>(e: &E) -> String {
    let d = format!("{e:?}");
    let mut out = String::new();
    let mut hash = false;
    for c in d.chars() {
        if c == '"' || c == '\'' || out.len() >= 48 {
            break;
        }
        if c.is_ascii_digit() {
            if !hash {
                out.push('#');
            }
            hash = true;
        } else {
            hash = false;
            out.push(c);
        }
    }
    out
}

/// Witness preference: shorter text first, ties broken by a hash of the text (deterministic).
fn cost_of(text: &str) -> u64 {
    ((text.len() as u64) << 20) | (mcx::fnv64(text.as_bytes()) & 0xfffff)
}

fn hex(b: &[u8]) -> String {
    b.iter().map(|x| format!("{x:02x}")).collect()
}

fn unhex(s: &str) -> Vec<u8> {
    (0..s.len() / 2).map(|i| u8::from_str_radix(&s[2 * i..2 * i + 2], 16).unwrap_or(0)).collect()
}

/// The three clauses on a text accepted by a parser.
fn accepted<T: PartialEq + Debug>(
    ty: Ty,
    s: &str,
    v: &T,
    parse: &dyn Fn(&str) -> Result<T, String>,
    print: &dyn Fn(&T) -> String,
    reference: Option<String>,
    vs: &mut Vec<Violation>,
) -> &'static str {
    let wit = || json!({"kind": "text", "type": format!("{ty:?}"), "text": s});
    let s1 = print(v);
    match parse(&s1) {
        Ok(v2) if &v2 == v => {
            let s2 = print(&v2);
            if s2 != s1 {
                vs.push(Violation::new(format!("C21/{ty:?}/print-unstable"), format!("{ty:?}: print(parse(print(v))) = {s2:?} differs from print(v) = {s1:?}"), wit()).cost(cost_of(s)));
            }
        }
        Ok(v2) => vs.push(Violation::new(format!("C21/{ty:?}/parse-of-print/different-value"), format!("{ty:?}: {s:?} parses to {v:?}, printed {s1:?}, which parses to {v2:?}"), wit()).cost(cost_of(s))),
        Err(e) => vs.push(Violation::new(format!("C21/{ty:?}/parse-of-print/rejected"), format!("{ty:?}: {s:?} parses to {v:?}, printed {s1:?}, which is rejected ({e})"), wit()).cost(cost_of(s))),
    }
    if let Some(r) = reference {
        if r != s1 {
            vs.push(Violation::new(format!("C21/{ty:?}/canonical-form"), format!("{ty:?}: value parsed from {s:?} prints as {s1:?}, canonical form is {r:?}"), wit()).cost(cost_of(s)));
        }
    }
    if s1 == s {
        "ok:canonical-input"
    } else {
        "ok:noncanonical-input"
    }
}

/// Parse `s` with the parser of `ty` and evaluate the oracle. Returns (outcome label, violations).
fn check_text(ty: Ty, s: &str) -> (String, Vec<Violation>) {
    let mut vs = vec![];
    let out: String = match ty {
        Ty::Key => {
            let parse = |t: &str| PublicKey::from_str(t).map_err(|e| label(&e));
            match parse(s) {
                Ok(v) => accepted(ty, s, &v, &parse, &|v: &PublicKey| v.to_string(), Some(ref_key(v.as_ref())), &mut vs).into(),
                Err(e) => format!("err:{e}"),
            }
        }
        Ty::Did => {
            let parse = |t: &str| Did::from_str(t).map_err(|e| label(&e));
            match parse(s) {
                Ok(v) => accepted(ty, s, &v, &parse, &|v: &Did| v.to_string(), Some(format!("did:key:{}", ref_key(v.as_key().as_ref()))), &mut vs).into(),
                Err(e) => format!("err:{e}"),
            }
        }
        Ty::Rid => {
            let parse = |t: &str| RepoId::from_str(t).map_err(|e| label(&e));
            match parse(s) {
                Ok(v) => accepted(ty, s, &v, &parse, &|v: &RepoId| v.to_string(), Some(format!("rad:z{}", b58(v.as_bytes()))), &mut vs).into(),
                Err(e) => format!("err:{e}"),
            }
        }
        Ty::Alias => {
            let parse = |t: &str| Alias::from_str(t).map_err(|e| label(&e));
            match parse(s) {
                Ok(v) => accepted(ty, s, &v, &parse, &|v: &Alias| v.to_string(), None, &mut vs).into(),
                Err(e) => format!("err:{e}"),
            }
        }
        Ty::Agent => {
            let parse = |t: &str| UserAgent::from_str(t).map_err(|_| "rejected".to_string());
            match parse(s) {
                Ok(v) => accepted(ty, s, &v, &parse, &|v: &UserAgent| v.to_string(), None, &mut vs).into(),
                Err(e) => format!("err:{e}"),
            }
        }
    };
    (format!("{ty:?}:{out}"), vs)
}

/// A value built from raw bytes: every printer agrees, matches the reference, parses back.
fn check_value(ty: Ty, bytes: &[u8]) -> (String, Vec<Violation>) {
    let mut vs = vec![];
    let wit = || json!({"kind": "value", "type": format!("{ty:?}"), "hex": hex(bytes)});
    let mut differ = |name: &str, got: String, want: &str| {
        if got != want {
            vs.push(Violation::new(format!("C21/{ty:?}/printers-disagree/{name}"), format!("{ty:?} {}: {name} gives {got:?}, reference canonical form is {want:?}", hex(bytes)), wit()));
        }
    };
    let text = match ty {
        Ty::Key | Ty::Did => {
            let mut a = [0u8; 32];
            a.copy_from_slice(&bytes[..32]);
            let k = PublicKey::from(a);
            if ty == Ty::Key {
                let want = ref_key(&a);
                differ("Display", k.to_string(), &want);
                differ("to_human", k.to_human(), &want);
                differ("String::from", String::from(k), &want);
                differ("serde", serde_json::to_value(k).ok().and_then(|v| v.as_str().map(String::from)).unwrap_or_default(), &want);
                match PublicKey::from_str(&want) {
                    Ok(p) if p == k => {}
                    other => vs.push(Violation::new("C21/Key/parse-of-reference", format!("key {}: canonical text {want:?} parses to {other:?}", hex(bytes)), wit())),
                }
                want
            } else {
                let d = Did::from(k);
                let want = format!("did:key:{}", ref_key(&a));
                differ("Display", d.to_string(), &want);
                differ("encode", d.encode(), &want);
                differ("String::from", String::from(d), &want);
                differ("serde", serde_json::to_value(d).ok().and_then(|v| v.as_str().map(String::from)).unwrap_or_default(), &want);
                match Did::decode(&want) {
                    Ok(p) if p == d => {}
                    other => vs.push(Violation::new("C21/Did/parse-of-reference", format!("did {}: canonical text {want:?} parses to {other:?}", hex(bytes)), wit())),
                }
                want
            }
        }
        Ty::Rid => {
            let oid = git2::Oid::from_bytes(&bytes[..20]).expect("20 bytes");
            let r = RepoId::from(oid);
            let want = format!("rad:z{}", b58(&bytes[..20]));
            differ("Display", r.to_string(), &want);
            differ("urn", r.urn(), &want);
            differ("canonical", format!("rad:{}", r.canonical()), &want);
            differ("serde", serde_json::to_value(r).ok().and_then(|v| v.as_str().map(String::from)).unwrap_or_default(), &want);
            for (name, got) in [("from_str", RepoId::from_str(&want).ok()), ("from_urn", RepoId::from_urn(&want).ok()), ("from_canonical", RepoId::from_canonical(&want[4..]).ok())] {
                if got != Some(r) {
                    vs.push(Violation::new(format!("C21/Rid/parse-of-reference/{name}"), format!("rid {}: {name} of canonical text {want:?} gives {got:?}", hex(bytes)), wit()));
                }
            }
            want
        }
        _ => unreachable!(),
    };
    let (out, more) = check_text(ty, &text);
    vs.extend(more);
    (out.replace("ok:", "value-ok:"), vs)
}


// ---------------------------------------------------------------------------------------------
// observations: behaviours outside the statement's clauses — counted and reported in the coverage
// map with their minimal witness, never a Violation.

struct Observation {
    instances: u64,
    best: Option<(u64, String, Value)>,
}

static OBSERVATIONS: std::sync::Mutex<std::collections::BTreeMap<&'static str, Observation>> = std::sync::Mutex::new(std::collections::BTreeMap::new());

fn observe(name: &'static str, cost: u64, what: String, witness: Value) {
    let mut g = OBSERVATIONS.lock().unwrap_or_else(|e| e.into_inner());
    let o = g.entry(name).or_insert(Observation { instances: 0, best: None });
    o.instances += 1;
    let better = match &o.best {
        None => true,
        Some((c, w, _)) => (cost, &what) < (*c, w),
    };
    if better {
        o.best = Some((cost, what, witness));
    }
}

fn observations_json(notes: &[(&str, &str)]) -> Value {
    let g = OBSERVATIONS.lock().unwrap_or_else(|e| e.into_inner());
    let mut m = serde_json::Map::new();
    for (name, note) in notes {
        let (instances, what, witness) = match g.get(name) {
            Some(o) => (o.instances, o.best.as_ref().map(|b| b.1.clone()).unwrap_or_default(), o.best.as_ref().map(|b| b.2.clone()).unwrap_or(Value::Null)),
            None => (0, String::new(), Value::Null),
        };
        m.insert(name.to_string(), json!({"instances": instances, "what": what, "witness": witness, "note": note}));
    }
    Value::Object(m)
}

// ---------------------------------------------------------------------------------------------
// spaces

const SIGMA: [char; 24] = [
    'a', 'z', 'Z', '1', '0', 'O', 'I', 'l', 'f', 'b', 'm', 'u', '9', '7', ' ', '\n', '\0', '/', ':', 'é', '\u{3000}', '\u{85}', '𝄞', '\u{200b}',
];
const PREFIXES: [&str; 8] = ["", "z", "rad:", "rad:z", "did:key:", "did:key:z", "/", "/a:"];

fn edit_alphabet() -> Vec<char> {
    let mut v: Vec<char> = B58.iter().map(|b| *b as char).collect();
    v.extend(['0', 'O', 'I', 'l', ':', ' ', '\n', '/', 'é']);
    v
}

fn n_strings(n: u64, max_len: usize) -> u64 {
    (0..=max_len as u32).map(|l| n.pow(l)).sum()
}

fn nth_string(sigma: &[char], max_len: usize, mut i: u64) -> String {
    let n = sigma.len() as u64;
    let mut l = 0usize;
    let mut count = 1u64;
    while l < max_len && i >= count {
        i -= count;
        count *= n;
        l += 1;
    }
    let mut out = String::new();
    for _ in 0..l {
        out.push(sigma[(i % n) as usize]);
        i /= n;
    }
    out
}

fn shape(s: &str) -> String {
    s.chars()
        .map(|c| match c {
            '0' | 'O' | 'I' | 'l' => 'c',
            '/' | ':' => c,
            c if c.is_ascii_alphanumeric() => 'b',
            c if c.is_whitespace() => 'w',
            c if c.is_control() => 'x',
            c if !c.is_ascii() => 'u',
            _ => 'p',
        })
        .collect()
}

/// Byte patterns of width `w`: all-equal ×256, one-hot ×(8w), zero runs of every length followed by
/// 0xff… and by 0x01….
fn patterns(w: usize) -> Vec<Vec<u8>> {
    let mut v = vec![];
    for b in 0..=255u8 {
        v.push(vec![b; w]);
    }
    for bit in 0..8 * w {
        let mut x = vec![0u8; w];
        x[bit / 8] = 0x80 >> (bit % 8);
        v.push(x);
    }
    for run in 0..=w {
        for fill in [0xffu8, 0x01] {
            let mut x = vec![0u8; w];
            for b in x.iter_mut().skip(run) {
                *b = fill;
            }
            v.push(x);
        }
    }
    v
}

fn base_texts() -> Vec<(Ty, String)> {
    let mut v = vec![];
    let keys: Vec<PublicKey> = vec![
        *MockSigner::from_seed([1; 32]).public_key(),
        *MockSigner::from_seed([2; 32]).public_key(),
        *MockSigner::from_seed([0xfe; 32]).public_key(),
        PublicKey::from([0u8; 32]),
    ];
    for k in &keys {
        v.push((Ty::Key, k.to_human()));
    }
    for k in &keys {
        v.push((Ty::Did, Did::from(k).encode()));
    }
    let mut last = [0u8; 20];
    last[19] = 1;
    let oids = [git2::Oid::from_bytes(&[1; 20]).unwrap(), git2::Oid::from_bytes(&[0xff; 20]).unwrap(), git2::Oid::from_bytes(&last).unwrap(), git2::Oid::hash_object(git2::ObjectType::Blob, b"radicle").unwrap()];
    for o in oids {
        v.push((Ty::Rid, RepoId::from(o).urn()));
    }
    // valid but non-canonical spellings: base16 multibase, repository id without the `rad:` prefix
    let k16 = format!("f{}", hex(&[&[0xed, 0x01][..], keys[0].as_ref()].concat()));
    v.push((Ty::Key, k16.clone()));
    v.push((Ty::Did, format!("did:key:{k16}")));
    v.push((Ty::Rid, RepoId::from(oids[3]).canonical()));
    v.push((Ty::Rid, format!("rad:f{}", hex(oids[3].as_bytes()))));
    for a in ["a".repeat(32), "cloudhead".to_string(), "©loudhèâd".to_string(), "é".repeat(16)] {
        v.push((Ty::Alias, a));
    }
    for a in ["/radicle/".to_string(), "/radicle:1.0.0/heartwood:0.9/rust:1.77/".to_string(), "/a:1/".to_string(), format!("/radicle:{}/", "1".repeat(53))] {
        v.push((Ty::Agent, a));
    }
    v
}

#[derive(Clone, Copy, Debug)]
enum Edit {
    Subst(usize, char),
    Insert(usize, char),
    Delete(usize),
    Swap(usize),
    Subst2(usize, char, char),
}

fn apply_edit(base: &str, e: Edit) -> String {
    let mut cs: Vec<char> = base.chars().collect();
    match e {
        Edit::Subst(p, c) => cs[p] = c,
        Edit::Insert(p, c) => cs.insert(p, c),
        Edit::Delete(p) => {
            cs.remove(p);
        }
        Edit::Swap(p) => cs.swap(p, p + 1),
        Edit::Subst2(p, a, b) => {
            cs[p] = a;
            cs[p + 1] = b;
        }
    }
    cs.into_iter().collect()
}

/// All single edits of a base text (and adjacent double substitutions when `double`).
fn edits_of(base: &str, alpha: &[char], double: bool) -> Vec<Edit> {
    let n = base.chars().count();
    let mut v = vec![];
    for p in 0..n {
        for &c in alpha {
            v.push(Edit::Subst(p, c));
        }
        v.push(Edit::Delete(p));
        if p + 1 < n {
            v.push(Edit::Swap(p));
        }
    }
    for p in 0..=n {
        for &c in alpha {
            v.push(Edit::Insert(p, c));
        }
    }
    if double {
        for p in 0..n.saturating_sub(1) {
            for &a in alpha {
                for &b in alpha {
                    v.push(Edit::Subst2(p, a, b));
                }
            }
        }
    }
    v
}

fn limit_texts() -> Vec<(Ty, String)> {
    let mut v = vec![];
    for n in [31usize, 32, 33] {
        v.push((Ty::Alias, "a".repeat(n)));
        v.push((Ty::Alias, format!("{}é", "a".repeat(n - 2))));
        v.push((Ty::Alias, format!("é{}", "a".repeat(n - 2))));
        v.push((Ty::Alias, format!("{}{}", "é".repeat(n / 2), "a".repeat(n % 2))));
        v.push((Ty::Alias, format!("{}{}", "𝄞".repeat(n / 4), "a".repeat(n % 4))));
    }
    for n in [63usize, 64, 65] {
        v.push((Ty::Agent, format!("/{}/", "a".repeat(n - 2))));
        v.push((Ty::Agent, format!("/a:{}/", "1".repeat(n - 4))));
        v.push((Ty::Agent, format!("/{}:1/", "a".repeat(n - 4))));
        v.push((Ty::Agent, format!("/{}", "a/".repeat((n - 1) / 2)) + if (n - 1) % 2 == 1 { "/" } else { "" }));
        v.push((Ty::Agent, format!("/é{}/", "a".repeat(n - 4))));
    }
    v
}

fn panic_violation(ty: Ty, text: &str, c: &Caught) -> Violation {
    Violation::new(
        format!("C21/{ty:?}/panic/{}", c.site()),
        format!("parsing {text:?} as {ty:?} panics: {} ({}:{})", c.message, c.file, c.line),
        json!({"kind": "text", "type": format!("{ty:?}"), "text": text}),
    )
    .cost(cost_of(text))
}

fn text_item(space: &str, prefix: &str, ty: Ty, text: &str) -> ItemOut {
    let (out, vs) = check_text(ty, text);
    let class = if text.is_empty() { 0 } else { mcx::fnv64(format!("{space}/{ty:?}/{prefix}/{}", shape(text)).as_bytes()) | 1 };
    ItemOut::new(class, out).with(vs)
}

fn replay_one(w: &Value) -> Vec<Violation> {
    let kind = w.get("kind").and_then(Value::as_str).unwrap_or("");
    let ty = w.get("type").and_then(Value::as_str).and_then(ty_from);
    let run = || -> Vec<Violation> {
        match (kind, ty) {
            ("text", Some(ty)) => check_text(ty, w["text"].as_str().unwrap_or("")).1,
            ("value", Some(ty)) => check_value(ty, &unhex(w["hex"].as_str().unwrap_or(""))).1,
            ("alias-from-nid", _) => alias_from_nid(&unhex(w["hex"].as_str().unwrap_or(""))).1,
            ("agent-serde", _) => agent_serde(w["text"].as_str().unwrap_or("")).1,
            _ => mcx::report::machinery("replay: witness needs kind ∈ {text,value,alias-from-nid,agent-serde} and type"),
        }
    };
    match mcx::panics::catch(run) {
        Ok(v) => v,
        Err(c) => vec![panic_violation(ty.unwrap_or(Ty::Key), w.get("text").and_then(Value::as_str).unwrap_or(""), &c)],
    }
}

/// `Alias::from(&NodeId)`: a public constructor that does not go through `FromStr`.
fn alias_from_nid(bytes: &[u8]) -> (String, Vec<Violation>) {
    let mut a = [0u8; 32];
    a.copy_from_slice(&bytes[..32]);
    let nid = PublicKey::from(a);
    let alias = Alias::from(&nid);
    let text = alias.to_string();
    let mut vs = vec![];
    let out = match Alias::from_str(&text) {
        Ok(b) if b == alias => "Alias:from-node-id:roundtrips".to_string(),
        Ok(_) => {
            vs.push(Violation::new("C21/Alias/from-node-id/parse-of-print/different-value", format!("Alias::from(&{nid}) prints {text:?}, which parses to a different alias"), json!({"kind": "alias-from-nid", "hex": hex(bytes)})));
            "Alias:from-node-id:different".to_string()
        }
        Err(e) => {
            observe(
                "alias_from_node_id",
                cost_of(&hex(bytes)),
                format!("Alias::from(&NodeId) yields the {}-byte alias {text:?}; printing and parsing it fails: {e}", text.len()),
                json!({"kind": "alias-from-nid", "hex": hex(bytes)}),
            );
            format!("Alias:from-node-id:rejected:{}", label(&e))
        }
    };
    (out, vs)
}

/// `UserAgent` derives `Deserialize` without validation: a value obtained that way is printed and parsed.
fn agent_serde(text: &str) -> (String, Vec<Violation>) {
    let js = serde_json::to_string(text).expect("string to json");
    let vs = vec![];
    let out = match serde_json::from_str::<UserAgent>(&js) {
        Err(_) => "Agent:serde:rejected".to_string(),
        Ok(ua) => {
            let printed = ua.to_string();
            match UserAgent::from_str(&printed) {
                Ok(b) if b == ua => "Agent:serde:accepted-roundtrips".to_string(),
                _ => {
                    observe(
                        "user_agent_via_serde",
                        cost_of(text),
                        format!("serde deserialises {js} into a UserAgent that prints {printed:?}, which UserAgent::from_str rejects"),
                        json!({"kind": "agent-serde", "text": text}),
                    );
                    "Agent:serde:accepted-not-parseable".to_string()
                }
            }
        }
    };
    (out, vs)
}

fn main() {
    let ctx = Ctx::from_env("C21", "exploration");
    if let Some(w) = ctx.replay_witness() {
        ctx.finish_replay(replay_one(&w));
    }
    let thorough = ctx.tier == mcx::Tier::Thorough;
    let max_len = ctx.pick(3usize, 4usize);
    let mut st = Stats::default();

    // values ----------------------------------------------------------------------------------
    let p32 = patterns(32);
    let p20 = patterns(20);
    let n32 = p32.len() as u64;
    let n20 = p20.len() as u64;
    let value_of = |i: u64| -> (Ty, &[u8]) {
        if i < n32 {
            (Ty::Key, &p32[i as usize][..])
        } else if i < 2 * n32 {
            (Ty::Did, &p32[(i - n32) as usize][..])
        } else {
            (Ty::Rid, &p20[(i - 2 * n32) as usize][..])
        }
    };
    st.merge(sweep::threads(
        2 * n32 + n20,
        |i| {
            let (ty, bytes) = value_of(i);
            let (out, vs) = check_value(ty, bytes);
            ItemOut::new(mcx::fnv64(format!("value/{ty:?}/{}", hex(bytes)).as_bytes()) | 1, out).with(vs)
        },
        Some(|i: u64, c: &Caught| {
            let (ty, bytes) = value_of(i);
            Violation::new(format!("C21/{ty:?}/panic/{}", c.site()), format!("printing / parsing {ty:?} {} panics: {}", hex(bytes), c.message), json!({"kind": "value", "type": format!("{ty:?}"), "hex": hex(bytes)}))
        }),
    ));

    // texts -----------------------------------------------------------------------------------
    let ns = n_strings(SIGMA.len() as u64, max_len);
    let text_of = |i: u64| -> (Ty, &'static str, String) {
        let ty = TYPES[(i % 5) as usize];
        let p = PREFIXES[((i / 5) % PREFIXES.len() as u64) as usize];
        let s = nth_string(&SIGMA, max_len, i / (5 * PREFIXES.len() as u64));
        (ty, p, format!("{p}{s}"))
    };
    st.merge(sweep::threads(
        ns * 5 * PREFIXES.len() as u64,
        |i| {
            let (ty, p, text) = text_of(i);
            text_item("texts", p, ty, &text)
        },
        Some(|i: u64, c: &Caught| {
            let (ty, _, text) = text_of(i);
            panic_violation(ty, &text, c)
        }),
    ));

    // edits -----------------------------------------------------------------------------------
    let alpha = edit_alphabet();
    let bases = base_texts();
    // single edits: every parser; adjacent double substitutions (thorough): the base's own parser
    let mut edit_items: Vec<(usize, Edit)> = vec![];
    for (bi, (_, base)) in bases.iter().enumerate() {
        for e in edits_of(base, &alpha, false) {
            edit_items.push((bi, e));
        }
    }
    let singles = edit_items.len() as u64 * 5;
    let a2 = (alpha.len() * alpha.len()) as u64;
    let mut double_offsets: Vec<u64> = vec![0];
    for (_, base) in &bases {
        let n = base.chars().count() as u64;
        let add = if thorough { n.saturating_sub(1) * a2 } else { 0 };
        double_offsets.push(double_offsets.last().copied().unwrap_or(0) + add);
    }
    let doubles = *double_offsets.last().unwrap_or(&0);
    let edit_of = |i: u64| -> (Ty, String, String) {
        let (bi, e, ty) = if i < singles {
            let (bi, e) = edit_items[(i / 5) as usize];
            (bi, e, TYPES[(i % 5) as usize])
        } else {
            let j = i - singles;
            let bi = double_offsets.partition_point(|o| *o <= j) - 1;
            let r = j - double_offsets[bi];
            let (p, ab) = ((r / a2) as usize, r % a2);
            (bi, Edit::Subst2(p, alpha[(ab / alpha.len() as u64) as usize], alpha[(ab % alpha.len() as u64) as usize]), bases[bi].0)
        };
        let text = apply_edit(&bases[bi].1, e);
        (ty, text, format!("{:?}/{}", bases[bi].0, format!("{e:?}").split('(').next().unwrap_or("")))
    };
    st.merge(sweep::threads(
        singles + doubles,
        |i| {
            let (ty, text, tag) = edit_of(i);
            let (out, vs) = check_text(ty, &text);
            let class = if text.is_empty() { 0 } else { mcx::fnv64(format!("edits/{ty:?}/{tag}/{}", shape(&text)).as_bytes()) | 1 };
            ItemOut::new(class, format!("edit-of-{}→{out}", tag.split('/').next().unwrap_or(""))).with(vs)
        },
        Some(|i: u64, c: &Caught| {
            let (ty, text, _) = edit_of(i);
            panic_violation(ty, &text, c)
        }),
    ));

    // limits ----------------------------------------------------------------------------------
    let limits = limit_texts();
    let mut limit_items: Vec<(usize, Option<(usize, char)>)> = vec![];
    for (li, (_, t)) in limits.iter().enumerate() {
        limit_items.push((li, None));
        for p in 0..t.chars().count() {
            for c in SIGMA {
                limit_items.push((li, Some((p, c))));
            }
        }
    }
    let limit_of = |i: u64| -> (Ty, String) {
        let (li, sub) = limit_items[i as usize];
        let (ty, base) = &limits[li];
        (*ty, match sub {
            None => base.clone(),
            Some((p, c)) => apply_edit(base, Edit::Subst(p, c)),
        })
    };
    st.merge(sweep::threads(
        limit_items.len() as u64,
        |i| {
            let (ty, text) = limit_of(i);
            let (out, vs) = check_text(ty, &text);
            let class = mcx::fnv64(format!("limits/{ty:?}/{}/{}", text.len(), shape(&text)).as_bytes()) | 1;
            ItemOut::new(class, format!("len{}:{out}", text.len().clamp(30, 66))).with(vs)
        },
        Some(|i: u64, c: &Caught| {
            let (ty, text) = limit_of(i);
            panic_violation(ty, &text, c)
        }),
    ));

    // bypass ----------------------------------------------------------------------------------
    let nb = n_strings(SIGMA.len() as u64, 3);
    let mut agent_texts: Vec<String> = (0..nb).map(|i| nth_string(&SIGMA, 3, i)).collect();
    agent_texts.extend(limits.iter().filter(|(t, _)| *t == Ty::Agent).map(|(_, s)| s.clone()));
    agent_texts.extend(bases.iter().filter(|(t, _)| *t == Ty::Agent).map(|(_, s)| s.clone()));
    st.merge(sweep::threads(
        n32 + agent_texts.len() as u64,
        |i| {
            if i < n32 {
                let (out, vs) = alias_from_nid(&p32[i as usize]);
                ItemOut::new(mcx::fnv64(format!("bypass/alias/{i}").as_bytes()) | 1, out).with(vs)
            } else {
                let t = &agent_texts[(i - n32) as usize];
                let (out, vs) = agent_serde(t);
                ItemOut::new(mcx::fnv64(format!("bypass/agent/{}", shape(t)).as_bytes()) | 1, out).with(vs)
            }
        },
        Some(|i: u64, c: &Caught| {
            Violation::new(format!("C21/bypass/panic/{}", c.site()), format!("bypass item {i} panics: {}", c.message), if i < n32 { json!({"kind": "alias-from-nid", "hex": hex(&p32[i as usize])}) } else { json!({"kind": "agent-serde", "text": agent_texts[(i - n32) as usize]}) })
        }),
    ));

    let samples = vec![
        json!({"kind": "value", "type": "Key", "hex": hex(&p32[300]), "text": ref_key(&p32[300])}),
        json!({"kind": "value", "type": "Rid", "hex": hex(&p20[p20.len() - 3]), "text": format!("rad:z{}", b58(&p20[p20.len() - 3]))}),
        json!({"kind": "text", "type": "Agent", "text": text_of(ns * 5 * PREFIXES.len() as u64 - 1).2}),
        json!({"kind": "text", "type": format!("{:?}", edit_of(12345).0), "text": edit_of(12345).1}),
    ];
    let mut cov = st.coverage(
        "values: byte patterns (all-equal ×256, one-hot bits, zero runs of every length) for keys, DIDs and repository ids; \
         texts: every string of length ≤ L over a 24-character alphabet behind each of 8 prefixes, parsed as each of the 5 types; \
         edits: every single-character substitution / insertion / deletion / adjacent swap over base58 ∪ {0,O,I,l,:,' ',\\n,/,é} of 4 valid canonical encodings per type (plus base16 / prefix-less spellings), parsed as each type \
         (thorough: adjacent double substitutions for the own type); limits: aliases of 31..33 bytes and user agents of 63..65 bytes with every single substitution; \
         bypass: Alias::from(&NodeId) and serde-deserialised UserAgent. An item is trivial when its text is empty; \
         distinct = distinct (sub-space, parser, prefix / edit kind, character-category shape of the text), values by bytes",
        samples,
    );
    cov.insert(
        "observations".into(),
        observations_json(&[
            ("alias_from_node_id", "impl From<&NodeId> for Alias builds a 48-byte alias without validation (limit 32); such a value is not a *valid* alias, so it is outside the property's quantifier"),
            ("user_agent_via_serde", "UserAgent derives Deserialize without validation; values built that way are not *valid* user agents, so they are outside the property's quantifier"),
        ]),
    );
    cov.insert("text_alphabet".into(), json!(SIGMA.iter().map(|c| c.escape_unicode().to_string()).collect::<Vec<_>>()));
    cov.insert("max_text_len".into(), json!(max_len));
    cov.insert("prefixes".into(), json!(PREFIXES));
    cov.insert("edit_bases".into(), json!(bases.iter().map(|(t, s)| format!("{t:?}:{s}")).collect::<Vec<_>>()));
    cov.insert("pattern_counts".into(), json!({"32-byte": n32, "20-byte": n20}));
    let violations = std::mem::take(&mut st.violations);
    ctx.finish(
        cov,
        &[
            "reference canonical form: independent schoolbook base-58 (bitcoin alphabet) encoder, multibase prefix 'z', multicodec 0xed01 for keys",
            "PartialEq of the parsed types is the notion of 'same value'",
            "acceptance rules of Alias / UserAgent are not part of the property; only round-trip and absence of panics are judged",
        ],
        violations,
    );
}
