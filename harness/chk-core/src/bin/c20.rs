//! C20 — Signed refs text round-trips and signatures bind exactly what is accepted.
//!
//! Engine B (threads), against a real on-disk `radicle::storage::git::Repository` (storage in a
//! temp dir, identity initialised with `Repository::init`, real `sign_refs`).
//!
//! * `roundtrip` — every ref set of size ≤ 3 (thorough ≤ 4) over 14 valid names (nested, tag, cob,
//!                 `rad/id`, `rad/root`, `rad/sigrefs`, a 250-byte component, `@`, `+`, `.`, UTF-8, one-level)
//!                 × 4 object ids (01…, ff…, 00…01, the real identity root commit):
//!                 `from_canonical(canonical(r)) == r`, the text equals the reference text
//!                 (`<oid> SP <name> LF`, sorted by name), and the set is signed with
//!                 `Refs::signed` and verified with `SignedRefs::verified(&repo)`.
//! * `mutants`   — for 4 signed sets (two produced by the real `sign_refs` of two different
//!                 keys, one without `rad/root`, one single-line set with oid 00…01): every
//!                 single-bit flip of the refs blob, of the signature and of the claimed key; every
//!                 line deletion, duplication (at every position) and reordering; a zero oid in
//!                 every line and as an extra line; every swap of two oids; a second line for an
//!                 existing name with another oid; one extra line `<oid> <name>` at every position for
//!                 every name of the alphabet not in the set × the 4 oids; CRLF / missing final newline; signature of
//!                 63 / 65 / 0 bytes; another signer's key; and — signed by the *real* key —
//!                 every non-canonical text of the families above ("re-signed").
//!                 Each mutant is stored as a real commit (blobs `refs` + `signature`) and loaded
//!                 with `SignedRefs::load_at(commit, claimed_key, &repo)`.
//!
//! Oracle: acceptance ⇒ (a) the claimed key is the signing key, (b) the accepted refs equal the
//! refs that were signed, (c) the signature verifies (ed25519, checked independently) over the
//! reference canonical text of exactly the accepted refs.

use mcx::panics::Caught;
use mcx::report::{Ctx, Violation};
use mcx::sweep::{self, ItemOut};
use radicle::crypto::test::signer::MockSigner;
use radicle::crypto::{PublicKey, Signature, Signer as _};
use radicle::git::{Oid, RefString};
use radicle::identity::doc::{RawDoc, Visibility};
use radicle::identity::{Did, Project, RepoId};
use radicle::node::device::Device;
use radicle::storage::git::Repository;
use radicle::storage::refs::{Refs, SignedRefs};
use radicle::storage::{SignRepository, WriteRepository};
use radicle::Storage;
use serde::{Deserialize, Serialize};
use serde_json::{json, Value};
use std::cell::RefCell;
use std::collections::BTreeMap;
use std::path::PathBuf;
use std::str::FromStr;

type Model = BTreeMap<String, String>; // name -> 40-hex oid

/// Reference canonical text: one line `<oid> SP <name> LF` per ref, sorted by name.
fn ref_canonical(m: &Model) -> Vec<u8> {
    let mut s = String::new();
    for (name, oid) in m {
        s.push_str(oid);
        s.push(' ');
        s.push_str(name);
        s.push('\n');
    }
    s.into_bytes()
}

fn model_of(refs: &Refs) -> Model {
    refs.iter().map(|(n, o)| (n.to_string(), o.to_string())).collect()
}

fn refs_of(m: &Model) -> Refs {
    let map: BTreeMap<RefString, Oid> = m.iter().map(|(n, o)| (RefString::try_from(n.as_str()).expect("valid ref name"), Oid::from_str(o).expect("oid"))).collect();
    Refs::from(map)
}

fn label<E: std::fmt::Debug>(e: &E) -> String {
    let d = format!("{e:?}");
    let mut out = String::new();
    let mut depth = 0;
    for c in d.chars() {
        if c == '(' || c == '{' {
            depth += 1;
            if depth > 2 {
                break;
            }
        }
        if c == '"' || c == ' ' || out.len() >= 40 || c.is_ascii_digit() {
            break;
        }
        out.push(c);
    }
    out.trim_end_matches(['(', '{']).to_string()
}

// ---------------------------------------------------------------------------------------------
// fixture

#[derive(Clone)]
struct SignedSet {
    name: &'static str,
    model: Model,
    blob: Vec<u8>,
    sig: Vec<u8>,
    key: PublicKey,
    signer: usize,
}

struct Fixture {
    path: PathBuf,
    rid: RepoId,
    root: String,
    keys: [PublicKey; 3],
    sets: Vec<SignedSet>,
}

fn signers() -> [MockSigner; 3] {
    [MockSigner::from_seed([7u8; 32]), MockSigner::from_seed([8u8; 32]), MockSigner::from_seed([9u8; 32])]
}

fn sign_bytes(signer: usize, msg: &[u8]) -> Vec<u8> {
    let s: Signature = radicle::crypto::signature::Signer::<Signature>::try_sign(&signers()[signer], msg).expect("mock signer signs");
    s.as_ref().to_vec()
}

fn build_fixture(base: &std::path::Path) -> Fixture {
    let [a, b, c] = signers();
    let keys = [*a.public_key(), *b.public_key(), *c.public_key()];
    let dev_a = Device::from(a);
    let dev_b = Device::from(b);
    let storage = Storage::open(base.join("storage"), radicle::git::UserInfo { alias: radicle::node::Alias::new("codec"), key: keys[0] }).expect("open storage");
    let project = Project::new("acme".try_into().expect("name"), "Acme".into(), radicle::git::refname!("master")).expect("project");
    let doc = RawDoc::new(project, vec![Did::from(keys[0]), Did::from(keys[1])], 1, Visibility::Public).verified().expect("doc");
    let (repo, root) = Repository::init(&doc, &storage, &dev_a).expect("Repository::init");
    repo.set_remote_identity_root_to(&keys[0], root).expect("root ref");
    repo.set_remote_identity_root_to(&keys[1], root).expect("root ref");
    repo.set_identity_head_to(root).expect("identity head");
    // a few real commits and refs in both namespaces
    let raw = repo.raw();
    let sig = git2::Signature::new("codec", "codec@example.com", &git2::Time::new(1514817556, 0)).expect("signature");
    let tree = raw.find_tree(raw.treebuilder(None).expect("tb").write().expect("empty tree")).expect("tree");
    let c1 = raw.commit(None, &sig, &sig, "one", &tree, &[]).expect("commit");
    let c1c = raw.find_commit(c1).expect("c1");
    let c2 = raw.commit(None, &sig, &sig, "two", &tree, &[&c1c]).expect("commit");
    for (k, name, oid) in [
        (0, "refs/heads/master", c2),
        (0, "refs/heads/a/b", c1),
        (0, "refs/tags/v1.0", c1),
        (1, "refs/heads/master", c1),
        (1, "refs/heads/feature/\u{fc}n\u{ef}@c+x", c2),
    ] {
        raw.reference(&format!("refs/namespaces/{}/{name}", keys[k]), oid, true, "fixture").expect("reference");
    }
    let s0 = repo.sign_refs(&dev_a).expect("sign_refs A");
    let s2 = repo.sign_refs(&dev_b).expect("sign_refs B");
    let mut sets = vec![];
    let from_signed = |name: &'static str, s: &SignedRefs<radicle::crypto::Verified>, signer: usize| SignedSet { name, model: model_of(&s.refs), blob: s.refs.canonical(), sig: s.signature.as_ref().to_vec(), key: s.id, signer };
    sets.push(from_signed("A:real-sign_refs", &s0, 0));
    // S1: no rad/root
    let m1: Model = [("refs/heads/a".to_string(), "01".repeat(20)), ("refs/tags/v1.0".to_string(), "ff".repeat(20))].into_iter().collect();
    let t1 = ref_canonical(&m1);
    sets.push(SignedSet { name: "A:no-root", model: m1, sig: sign_bytes(0, &t1), blob: t1, key: keys[0], signer: 0 });
    sets.push(from_signed("B:real-sign_refs", &s2, 1));
    let m3: Model = [("refs/heads/a/b".to_string(), format!("{}01", "00".repeat(19)))].into_iter().collect();
    let t3 = ref_canonical(&m3);
    sets.push(SignedSet { name: "A:single-line-oid-00..01", model: m3, sig: sign_bytes(0, &t3), blob: t3, key: keys[0], signer: 0 });
    Fixture { path: repo.backend.path().to_path_buf(), rid: repo.id, root: root.to_string(), keys, sets }
}

struct Handle {
    repo: &'static Repository,
    pack: git2::Mempack<'static>,
}

thread_local! {
    static HANDLE: RefCell<Option<Handle>> = const { RefCell::new(None) };
}

fn with_repo<T>(fx: &Fixture, f: impl FnOnce(&Handle) -> T) -> T {
    HANDLE.with(|h| {
        let mut h = h.borrow_mut();
        if h.is_none() {
            let repo: &'static Repository = Box::leak(Box::new(Repository::open(&fx.path, fx.rid).expect("open repository")));
            let odb: &'static git2::Odb<'static> = Box::leak(Box::new(repo.backend.odb().expect("odb")));
            let pack = odb.add_new_mempack_backend(1000).expect("mempack");
            *h = Some(Handle { repo, pack });
        }
        f(h.as_ref().expect("handle"))
    })
}

/// Store (`refs`, `signature`) as a commit like `SignedRefs::save` does and load it under `key`.
fn load(fx: &Fixture, blob: &[u8], sig: &[u8], key: PublicKey) -> Result<SignedRefs<radicle::crypto::Verified>, String> {
    with_repo(fx, |h| {
        let raw = &h.repo.backend;
        let r = (|| -> Result<git2::Oid, git2::Error> {
            let b = raw.blob(blob)?;
            let s = raw.blob(sig)?;
            let mut tb = raw.treebuilder(None)?;
            tb.insert("refs", b, 0o100_644)?;
            tb.insert("signature", s, 0o100_644)?;
            let tree = raw.find_tree(tb.write()?)?;
            let who = git2::Signature::new("radicle", "x", &git2::Time::new(1514817556, 0))?;
            raw.commit(None, &who, &who, "Update signed refs\n", &tree, &[])
        })();
        let commit = match r {
            Ok(c) => c,
            Err(e) => mcx::report::machinery(&format!("cannot store mutant: {e}")),
        };
        let out = SignedRefs::load_at(commit.into(), key, h.repo).map_err(|e| label(&e));
        let _ = h.pack.reset();
        out
    })
}

// ---------------------------------------------------------------------------------------------
// mutants

#[derive(Clone, Debug, Serialize, Deserialize, PartialEq)]
enum Mutation {
    None,
    BlobBit(usize),
    SigBit(usize),
    KeyBit(usize),
    OtherKey(usize),
    SigLen(usize),
    /// lines in the given order (a permutation, a deletion or a duplication of line indexes)
    Lines(Vec<usize>),
    ZeroOid(usize),
    ExtraZeroLine(usize),
    SwapOids(usize, usize),
    /// extra line for the name of line `.0` with a different oid, inserted at position `.1`
    SameNameOtherOid(usize, usize),
    Crlf(usize),
    NoFinalNewline,
    /// one extra line `<oid> <name>` for a name that is not in the signed set, inserted at position `.2`
    ExtraLine(String, String, usize),
    /// the text produced by the inner mutation, signed afresh by the real signer
    Resigned(Box<Mutation>),
}

fn lines_of(blob: &[u8]) -> Vec<String> {
    String::from_utf8_lossy(blob).lines().map(|l| l.to_string()).collect()
}

fn join(lines: &[String]) -> Vec<u8> {
    let mut s = String::new();
    for l in lines {
        s.push_str(l);
        s.push('\n');
    }
    s.into_bytes()
}

const ZERO: &str = "0000000000000000000000000000000000000000";
const OTHER: &str = "abababababababababababababababababababab";

/// Apply a text mutation to the canonical blob.
fn mutate_text(blob: &[u8], m: &Mutation) -> Vec<u8> {
    let ls = lines_of(blob);
    match m {
        Mutation::BlobBit(i) => {
            let mut b = blob.to_vec();
            b[i / 8] ^= 0x80 >> (i % 8);
            b
        }
        Mutation::Lines(order) => join(&order.iter().map(|i| ls[*i].clone()).collect::<Vec<_>>()),
        Mutation::ZeroOid(l) => {
            let mut ls = ls;
            ls[*l] = format!("{ZERO}{}", &ls[*l][40..]);
            join(&ls)
        }
        Mutation::ExtraZeroLine(pos) => {
            let mut ls = ls;
            ls.insert(*pos, format!("{ZERO} refs/heads/zero"));
            join(&ls)
        }
        Mutation::SwapOids(a, b) => {
            let mut out = ls.clone();
            out[*a] = format!("{}{}", &ls[*b][..40], &ls[*a][40..]);
            out[*b] = format!("{}{}", &ls[*a][..40], &ls[*b][40..]);
            join(&out)
        }
        Mutation::SameNameOtherOid(l, pos) => {
            let mut out = ls.clone();
            out.insert(*pos, format!("{OTHER}{}", &ls[*l][40..]));
            join(&out)
        }
        Mutation::Crlf(l) => {
            let mut ls = ls;
            ls[*l].push('\r');
            join(&ls)
        }
        Mutation::ExtraLine(name, oid, pos) => {
            let mut ls = ls;
            ls.insert(*pos, format!("{oid} {name}"));
            join(&ls)
        }
        Mutation::NoFinalNewline => {
            let mut b = blob.to_vec();
            b.pop();
            b
        }
        _ => blob.to_vec(),
    }
}

fn permutations(n: usize) -> Vec<Vec<usize>> {
    fn rec(cur: &mut Vec<usize>, used: &mut Vec<bool>, n: usize, out: &mut Vec<Vec<usize>>) {
        if cur.len() == n {
            out.push(cur.clone());
            return;
        }
        for i in 0..n {
            if !used[i] {
                used[i] = true;
                cur.push(i);
                rec(cur, used, n, out);
                cur.pop();
                used[i] = false;
            }
        }
    }
    let mut out = vec![];
    rec(&mut vec![], &mut vec![false; n], n, &mut out);
    out
}

fn text_mutations(set: &SignedSet, names: &[String], oids: &[String]) -> Vec<Mutation> {
    let n_lines = lines_of(&set.blob).len();
    let mut v = vec![];
    let id: Vec<usize> = (0..n_lines).collect();
    if n_lines <= 6 {
        for p in permutations(n_lines) {
            if p != id {
                v.push(Mutation::Lines(p));
            }
        }
    } else {
        for i in 0..n_lines - 1 {
            let mut p = id.clone();
            p.swap(i, i + 1);
            v.push(Mutation::Lines(p));
        }
        let mut r = id.clone();
        r.reverse();
        v.push(Mutation::Lines(r));
        for k in 1..n_lines {
            let mut p = id.clone();
            p.rotate_left(k);
            v.push(Mutation::Lines(p));
        }
    }
    for l in 0..n_lines {
        let mut p = id.clone();
        p.remove(l);
        v.push(Mutation::Lines(p)); // deletion
        for pos in 0..=n_lines {
            let mut p = id.clone();
            p.insert(pos, l);
            v.push(Mutation::Lines(p)); // duplication
        }
        v.push(Mutation::ZeroOid(l));
        v.push(Mutation::Crlf(l));
        for pos in 0..=n_lines {
            v.push(Mutation::SameNameOtherOid(l, pos));
        }
        for l2 in l + 1..n_lines {
            v.push(Mutation::SwapOids(l, l2));
        }
    }
    for pos in 0..=n_lines {
        v.push(Mutation::ExtraZeroLine(pos));
    }
    v.push(Mutation::NoFinalNewline);
    for name in names.iter().filter(|n| !set.model.contains_key(*n)) {
        for oid in oids {
            for pos in 0..=n_lines {
                v.push(Mutation::ExtraLine(name.clone(), oid.clone(), pos));
            }
        }
    }
    v.dedup();
    v
}

fn mutations_of(set: &SignedSet, names: &[String], oids: &[String]) -> Vec<Mutation> {
    let mut v = vec![Mutation::None];
    for i in 0..set.blob.len() * 8 {
        v.push(Mutation::BlobBit(i));
    }
    for i in 0..set.sig.len() * 8 {
        v.push(Mutation::SigBit(i));
    }
    for i in 0..256 {
        v.push(Mutation::KeyBit(i));
    }
    for k in 0..3 {
        if k != set.signer {
            v.push(Mutation::OtherKey(k));
        }
    }
    for l in [0, 1, 32, 63, 65, 128] {
        v.push(Mutation::SigLen(l));
    }
    let tm = text_mutations(set, names, oids);
    for m in &tm {
        v.push(m.clone());
    }
    for m in tm {
        v.push(Mutation::Resigned(Box::new(m)));
    }
    v
}

fn kind(m: &Mutation, n_lines: usize) -> String {
    match m {
        Mutation::Resigned(inner) => format!("resigned-{}", kind(inner, n_lines)),
        Mutation::Lines(order) => {
            if order.len() > n_lines {
                "line-duplicated".into()
            } else if order.len() < n_lines {
                "line-deleted".into()
            } else {
                "lines-reordered".into()
            }
        }
        other => format!("{other:?}").split(['(', ' ']).next().unwrap_or("").to_string(),
    }
}

fn check_mutant(fx: &Fixture, si: usize, m: &Mutation) -> ItemOut {
    let set = &fx.sets[si];
    let wit = json!({"kind": "mutant", "set": si, "set_name": set.name, "mutation": m});
    let mut blob = set.blob.clone();
    let mut sig = set.sig.clone();
    let mut key = set.key;
    // what the signer signed
    let mut signed_text = set.blob.clone();
    match m {
        Mutation::None => {}
        Mutation::SigBit(i) => sig[i / 8] ^= 0x80 >> (i % 8),
        Mutation::KeyBit(i) => {
            let mut k = [0u8; 32];
            k.copy_from_slice(key.as_ref());
            k[i / 8] ^= 0x80 >> (i % 8);
            key = PublicKey::from(k);
        }
        Mutation::OtherKey(k) => key = fx.keys[*k],
        Mutation::SigLen(l) => sig.resize(*l, 0x5a),
        Mutation::Resigned(inner) => {
            blob = mutate_text(&set.blob, inner);
            sig = sign_bytes(set.signer, &blob);
            signed_text = blob.clone();
        }
        text => blob = mutate_text(&set.blob, text),
    }
    let k = kind(m, lines_of(&set.blob).len());
    let resigned = matches!(m, Mutation::Resigned(_));
    let mut vs = vec![];
    let cost = serde_json::to_string(m).map(|s| s.len()).unwrap_or(0) as u64 + 1000 * si as u64;
    let outcome = match load(fx, &blob, &sig, key) {
        Err(e) => {
            if *m == Mutation::None {
                vs.push(Violation::new("C20/fixture/genuine-set-rejected", format!("the unmodified signed set {} is rejected: {e}", set.name), wit.clone()));
            }
            format!("{k}:rejected:{e}")
        }
        Ok(acc) => {
            let got = model_of(&acc.refs);
            let mut tags = vec![];
            if acc.id != set.key || key != set.key {
                vs.push(Violation::new(format!("C20/binding/wrong-key/{k}"), format!("set {} signed by {} is accepted under the claimed key {} ({k})", set.name, set.key, key), wit.clone()).cost(cost));
                tags.push("wrong-key");
            }
            // (b) for texts signed afresh by the real key the signer's statement is the new text; clause (c) judges those
            if got != set.model && !resigned {
                vs.push(Violation::new(format!("C20/binding/refs-differ-from-signed/{k}"), format!("set {}: accepted refs {:?} differ from the signed refs {:?} ({k})", set.name, got, set.model), wit.clone()).cost(cost));
                tags.push("other-refs");
            }
            // independent ed25519 check over the reference canonical text of the accepted refs
            let text = ref_canonical(&got);
            let ok = match Signature::try_from(acc.signature.as_ref()) {
                Ok(s) => key.verify(&text, &s).is_ok(),
                Err(_) => false,
            };
            if !ok {
                vs.push(Violation::new(format!("C20/binding/signature-not-over-accepted-refs/{k}"), format!("set {}: accepted, but the stored signature does not verify over the canonical text of the accepted refs ({k}; signer signed {:?})", set.name, String::from_utf8_lossy(&signed_text).chars().take(200).collect::<String>()), wit.clone()).cost(cost));
                tags.push("sig-not-over-canonical");
            }
            if acc.signature.as_ref() != &set.sig[..] && !resigned {
                vs.push(Violation::new(format!("C20/binding/mutated-signature-accepted/{k}"), format!("set {}: a modified signature is accepted ({k})", set.name), wit.clone()).cost(cost));
                tags.push("other-sig");
            }
            if tags.is_empty() && resigned {
                format!("{k}:accepted:new-text-is-canonical-for-{}", if got == set.model { "the-same-set" } else { "another-set" })
            } else if tags.is_empty() {
                format!("{k}:accepted:same-refs-same-key{}", if blob == set.blob { "" } else { "(text differs, parses to the same set)" })
            } else {
                format!("{k}:accepted:{}", tags.join("+"))
            }
        }
    };
    ItemOut::new(if *m == Mutation::None { 0 } else { mcx::fnv64(format!("{si}/{}", serde_json::to_string(m).unwrap_or_default()).as_bytes()) | 1 }, format!("{}|{outcome}", set.name.split(':').next().unwrap_or(""))).with(vs)
}

// ---------------------------------------------------------------------------------------------
// round trip

fn names() -> Vec<String> {
    vec![
        "refs/heads/a".into(),
        "refs/heads/a/b".into(),
        "refs/tags/v1.0".into(),
        format!("refs/cobs/xyz.radicle.issue/{}", "d9".repeat(20)),
        "refs/rad/id".into(),
        "refs/rad/root".into(),
        "refs/rad/sigrefs".into(),
        format!("refs/heads/{}", "x".repeat(250)),
        "refs/heads/a@b".into(),
        "refs/heads/a+b".into(),
        "refs/heads/\u{fc}n\u{ef}/\u{e7}\u{f8}d\u{e9}".into(),
        "HEAD".into(),
        "refs/heads/a.b-c_d".into(),
        "refs/heads/@".into(),
    ]
}

fn subsets(n: usize, max: usize) -> Vec<Vec<usize>> {
    let mut out = vec![];
    for mask in 0u32..(1 << n) {
        if (mask.count_ones() as usize) <= max {
            out.push((0..n).filter(|b| mask & (1 << b) != 0).collect());
        }
    }
    out
}

fn check_roundtrip(fx: &Fixture, names: &[String], oids: &[String], subset: &[usize], mut digits: u64) -> ItemOut {
    let mut m = Model::new();
    for n in subset {
        m.insert(names[*n].clone(), oids[(digits % oids.len() as u64) as usize].clone());
        digits /= oids.len() as u64;
    }
    if digits != 0 {
        return ItemOut::new(0, "roundtrip:repeat-skipped");
    }
    let wit = json!({"kind": "roundtrip", "refs": m});
    let mut vs = vec![];
    let refs = refs_of(&m);
    let text = refs.canonical();
    if text != ref_canonical(&m) {
        vs.push(Violation::new("C20/roundtrip/canonical-text", format!("canonical() gives {:?}, reference text is {:?}", String::from_utf8_lossy(&text), String::from_utf8_lossy(&ref_canonical(&m))), wit.clone()).cost(text.len() as u64));
    }
    match Refs::from_canonical(&text) {
        Ok(back) if back == refs => {}
        Ok(back) => vs.push(Violation::new("C20/roundtrip/parses-to-other-set", format!("canonical text of {:?} parses back to {:?}", m, model_of(&back)), wit.clone()).cost(text.len() as u64)),
        Err(e) => vs.push(Violation::new("C20/roundtrip/rejected", format!("canonical text of {:?} does not parse: {e}", m), wit.clone()).cost(text.len() as u64)),
    }
    // sign + verify through the real entry points
    let dev = Device::from(signers()[0].clone());
    let outcome = match refs.clone().signed(&dev) {
        Err(e) => format!("sign-failed:{}", label(&e)),
        Ok(signed) => {
            let sig_bytes = signed.signature.as_ref().to_vec();
            let r = with_repo(fx, |h| signed.verified(h.repo).map_err(|e| label(&e)));
            match r {
                Ok(acc) => {
                    if model_of(&acc.refs) != m || acc.id != fx.keys[0] {
                        vs.push(Violation::new("C20/roundtrip/verified-other", "verified() returns other refs / key than were signed".to_string(), wit.clone()));
                    }
                    let ok = Signature::try_from(&sig_bytes[..]).map(|s| fx.keys[0].verify(&ref_canonical(&m), &s).is_ok()).unwrap_or(false);
                    if !ok {
                        vs.push(Violation::new("C20/roundtrip/signature-not-over-reference-text", "Refs::signed does not sign the reference canonical text".to_string(), wit.clone()));
                    }
                    "verified".to_string()
                }
                Err(e) => {
                    // the only legitimate reason: a signed rad/root that is not this repository's identity root
                    let root = m.get("refs/rad/root");
                    if root.is_none() || root == Some(&fx.root) {
                        vs.push(Violation::new("C20/roundtrip/own-signature-rejected", format!("a set signed with Refs::signed is rejected by verified(): {e}"), wit.clone()));
                    }
                    format!("rejected:{e}")
                }
            }
        }
    };
    let has_root = m.contains_key("refs/rad/root");
    ItemOut::new(if m.is_empty() { 0 } else { mcx::fnv64(format!("{m:?}").as_bytes()) | 1 }, format!("roundtrip:size{}:{}{outcome}", m.len(), if has_root { "with-rad/root:" } else { "" })).with(vs)
}

fn main() {
    let ctx = Ctx::from_env("C20", "exploration");
    std::env::set_var("GIT_COMMITTER_DATE", "1514817556");
    let tmp = tempfile::Builder::new().prefix("c20-").tempdir().unwrap_or_else(|e| mcx::report::machinery(&format!("tempdir: {e}")));
    let fx = build_fixture(tmp.path());
    let thorough = ctx.tier == mcx::Tier::Thorough;
    let names = names();
    let oids: Vec<String> = vec!["01".repeat(20), "ff".repeat(20), format!("{}01", "00".repeat(19)), fx.root.clone()];

    if let Some(w) = ctx.replay_witness() {
        let vs = match w.get("kind").and_then(Value::as_str) {
            Some("mutant") => {
                let si = w["set"].as_u64().unwrap_or(0) as usize;
                let m: Mutation = serde_json::from_value(w["mutation"].clone()).unwrap_or_else(|e| mcx::report::machinery(&format!("replay: bad mutation: {e}")));
                match mcx::panics::catch(|| check_mutant(&fx, si, &m).violations) {
                    Ok(v) => v,
                    Err(c) => vec![Violation::new(format!("C20/panic/{}", c.site()), c.message.clone(), w.clone())],
                }
            }
            Some("roundtrip") => {
                let m: Model = serde_json::from_value(w["refs"].clone()).unwrap_or_default();
                let ns: Vec<String> = m.keys().cloned().collect();
                let os: Vec<String> = m.values().cloned().collect();
                // one name per oid position: encode as subset 0..k with per-position oid lists
                let mut vs = vec![];
                let subset: Vec<usize> = (0..ns.len()).collect();
                // build digits so that position j picks os[j]
                let mut all = os.clone();
                all.dedup();
                let base: Vec<String> = { let mut b = os.clone(); b.sort(); b.dedup(); b };
                let mut digits = 0u64;
                for (j, o) in os.iter().enumerate() {
                    digits += (base.iter().position(|x| x == o).unwrap_or(0) as u64) * (base.len() as u64).pow(j as u32);
                }
                match mcx::panics::catch(|| check_roundtrip(&fx, &ns, &base, &subset, digits).violations) {
                    Ok(v) => vs.extend(v),
                    Err(c) => vs.push(Violation::new(format!("C20/panic/{}", c.site()), c.message.clone(), w.clone())),
                }
                vs
            }
            _ => mcx::report::machinery("replay: witness needs kind ∈ {mutant, roundtrip}"),
        };
        drop(tmp);
        ctx.finish_replay(vs);
    }

    // roundtrip -------------------------------------------------------------------------------
    let max = ctx.pick(3usize, 4usize);
    let subs = subsets(names.len(), max);
    let per = (oids.len() as u64).pow(max as u32);
    let mut st = sweep::threads(
        subs.len() as u64 * per,
        |i| check_roundtrip(&fx, &names, &oids, &subs[(i / per) as usize], i % per),
        Some(|i: u64, c: &Caught| Violation::new(format!("C20/panic/{}", c.site()), format!("round trip panics: {} ({}:{})", c.message, c.file, c.line), json!({"kind": "roundtrip", "subset": subs[(i / per) as usize], "digits": i % per}))),
    );

    // mutants ---------------------------------------------------------------------------------
    let mut items: Vec<(usize, Mutation)> = vec![];
    for (si, set) in fx.sets.iter().enumerate() {
        for m in mutations_of(set, &names, &oids) {
            items.push((si, m));
        }
    }
    st.merge(sweep::threads(
        items.len() as u64,
        |i| check_mutant(&fx, items[i as usize].0, &items[i as usize].1),
        Some(|i: u64, c: &Caught| Violation::new(format!("C20/panic/{}", c.site()), format!("loading a mutated signed-refs commit panics: {} ({}:{})", c.message, c.file, c.line), json!({"kind": "mutant", "set": items[i as usize].0, "mutation": items[i as usize].1}))),
    ));
    let _ = thorough;

    let samples = vec![
        json!({"kind": "signed-set", "name": fx.sets[0].name, "refs_blob": String::from_utf8_lossy(&fx.sets[0].blob)}),
        json!({"kind": "signed-set", "name": fx.sets[2].name, "refs_blob": String::from_utf8_lossy(&fx.sets[2].blob)}),
        json!({"kind": "mutant", "set": items[items.len() / 2].0, "mutation": items[items.len() / 2].1}),
        json!({"kind": "mutant", "set": items[items.len() - 1].0, "mutation": items[items.len() - 1].1}),
    ];
    let mut cov = st.coverage(
        "roundtrip: every subset of ≤ max names out of 14 × every assignment of 4 oids, canonical → from_canonical, then Refs::signed + SignedRefs::verified on the real repository; \
         mutants: for each of 4 signed sets every single-bit flip of refs blob / signature / claimed key, every line deletion / duplication / reordering, zero oids, oid swaps, same-name-other-oid lines, one extra line for every alphabet name not in the set × 4 oids × every position, CRLF, missing final newline, \
         wrong signature lengths, other signers' keys, and every non-canonical text re-signed by the real key; each stored as a real commit and loaded with SignedRefs::load_at. \
         Trivial = empty set / unmodified set / an index that repeats another item; every other index is a distinct input",
        samples,
    );
    cov.insert("names".into(), json!(names.iter().map(|n| if n.len() > 80 { format!("{}…({} bytes)", &n[..20], n.len()) } else { n.clone() }).collect::<Vec<_>>()));
    cov.insert("max_set_size".into(), json!(max));
    cov.insert("signed_sets".into(), json!(fx.sets.iter().map(|s| json!({"name": s.name, "lines": lines_of(&s.blob).len(), "blob_bytes": s.blob.len(), "mutants": mutations_of(s, &names, &oids).len()})).collect::<Vec<_>>()));
    let violations = std::mem::take(&mut st.violations);
    drop(tmp);
    ctx.finish(
        cov,
        &[
            "trusted: ed25519 verification of radicle-crypto (used independently over the reference canonical text), git / libgit2 object storage",
            "reference canonical text: '<40-hex oid> SP <name> LF' per ref, sorted by name bytes",
            "mutants are stored as commits without moving rad/sigrefs and loaded with load_at(commit, claimed key); objects of mutants live in an in-memory libgit2 backend per worker",
            "keys are MockSigner seeds 7, 8, 9; commit time fixed via GIT_COMMITTER_DATE",
        ],
        violations,
    );
}
