//! C07 — Issue and patch actions obey the authorization rules.
//!
//! Engine A. A state is a history of single-action operations applied with the real
//! `store::Cob::op` of `Issue` / `Patch` to a real in-memory object, in causal order, a failing
//! operation being pruned with the object left as the implementation left it. The repository
//! argument is the table-driven `EnvRepo` (identity document at a commit, default-branch head of a
//! namespace, ancestry), snapshotted from a real repository that holds two identity versions:
//! v1 with delegate `d`, v2 with delegate `s` (so `d` is an ex-delegate and `s` a new delegate,
//! depending on which version an operation refers to).
//!
//! Actors: d (delegate of v1), a (author of the object), c (author of the seeded comment /
//! review / review comment / revision comment), s (stranger under v1, delegate under v2).
//!
//! Oracle = role table transcribed from the statement:
//!   assign, label, merge            : delegates of the document the action refers to
//!   title edit, lifecycle           : the object author or a delegate
//!   comment / review edit or redact : the author of that comment / review, or a delegate
//! After a step the table does not authorise, the projection the action targets (assignees /
//! labels / merges+state / title / state / all comments and reviews) must be unchanged. After an
//! authorised step, and for actions the statement does not mention, nothing is demanded.
//! Conformance: see C04 (`radicle_cob::get::<Issue|Patch>` over the same history as real commits).

#[path = "../cobops.rs"]
mod cobops;

use cobops::*;
use mcx::explore::{self, Bounds, StepOut, System};
use mcx::report::{machinery, Ctx, Violation};
use nonempty::NonEmpty;
use radicle::cob::store::Cob;
use radicle::cob::{self, issue, patch, Label, Manifest, ObjectId, Op, Reaction, Timestamp};
use radicle::crypto::test::signer::MockSigner;
use radicle::crypto::PublicKey;
use radicle::git::Oid;
use radicle::identity::RepoId;
use radicle::node::device::Device;
use radicle::prelude::Did;
use radicle::storage::git::Repository;
use serde::{Deserialize, Serialize};
use serde_json::{json, Value};
use std::cell::RefCell;
use std::collections::BTreeSet;
use std::path::PathBuf;
use std::sync::atomic::{AtomicUsize, Ordering};
use std::sync::{Mutex, OnceLock};

const ACTORS: [&str; 4] = ["d", "a", "c", "s"];
const D: u8 = 0;
const A: u8 = 1;
const C: u8 = 2;
const S: u8 = 3;

#[derive(Clone, Copy, Debug, PartialEq, Eq, PartialOrd, Ord, Serialize, Deserialize)]
enum Kind {
    Issue,
    Patch,
}

#[derive(Clone, Copy, Debug, PartialEq, Eq, PartialOrd, Ord, Serialize, Deserialize)]
enum ObjKind {
    IssueComment,
    Revision,
    Review,
    ReviewComment,
    RevisionComment,
}

/// Actions; `u8` arguments are indexes into the list of objects created so far (creation order),
/// `bool` arguments select one of two values.
#[derive(Clone, Copy, Debug, PartialEq, Eq, PartialOrd, Ord, Serialize, Deserialize)]
enum Act {
    // both
    Assign(bool),
    Label(bool),
    Title(bool),
    // issue
    IssueState(bool),
    Comment,
    CommentEdit(u8),
    CommentRedact(u8),
    CommentReact(u8, bool),
    // patch
    Lifecycle(u8),
    Merge(u8, bool),
    Review(u8),
    ReviewEdit(u8),
    ReviewRedact(u8),
    ReviewComment(u8),
    ReviewCommentEdit(u8),
    ReviewCommentRedact(u8),
    ReviewCommentReact(u8),
    ReviewCommentResolve(u8, bool),
    Revision,
    RevisionEdit(u8),
    RevisionRedact(u8),
    RevisionReact(u8),
    RevisionComment(u8),
    RevisionCommentEdit(u8),
    RevisionCommentRedact(u8),
    RevisionCommentReact(u8),
}

impl Act {
    fn name(&self) -> &'static str {
        match self {
            Act::Assign(_) => "assign",
            Act::Label(_) => "label",
            Act::Title(_) => "edit-title",
            Act::IssueState(_) => "issue-lifecycle",
            Act::Comment => "comment",
            Act::CommentEdit(_) => "comment.edit",
            Act::CommentRedact(_) => "comment.redact",
            Act::CommentReact(..) => "comment.react",
            Act::Lifecycle(_) => "patch-lifecycle",
            Act::Merge(..) => "merge",
            Act::Review(_) => "review",
            Act::ReviewEdit(_) => "review.edit",
            Act::ReviewRedact(_) => "review.redact",
            Act::ReviewComment(_) => "review.comment",
            Act::ReviewCommentEdit(_) => "review.comment.edit",
            Act::ReviewCommentRedact(_) => "review.comment.redact",
            Act::ReviewCommentReact(_) => "review.comment.react",
            Act::ReviewCommentResolve(..) => "review.comment.resolve",
            Act::Revision => "revision",
            Act::RevisionEdit(_) => "revision.edit",
            Act::RevisionRedact(_) => "revision.redact",
            Act::RevisionReact(_) => "revision.react",
            Act::RevisionComment(_) => "revision.comment",
            Act::RevisionCommentEdit(_) => "revision.comment.edit",
            Act::RevisionCommentRedact(_) => "revision.comment.redact",
            Act::RevisionCommentReact(_) => "revision.comment.react",
        }
    }
    fn creates(&self) -> Option<ObjKind> {
        match self {
            Act::Comment => Some(ObjKind::IssueComment),
            Act::Review(_) => Some(ObjKind::Review),
            Act::ReviewComment(_) => Some(ObjKind::ReviewComment),
            Act::Revision => Some(ObjKind::Revision),
            Act::RevisionComment(_) => Some(ObjKind::RevisionComment),
            _ => None,
        }
    }
}

#[derive(Clone, Debug, PartialEq, Eq, PartialOrd, Ord, Serialize, Deserialize)]
enum Ev {
    Start(Kind),
    /// `idv`: 0 = the operation refers to identity v1, 1 = to v2.
    Act { by: u8, idv: u8, act: Act },
}

struct Fix {
    base: PathBuf,
    repo_path: PathBuf,
    rid: RepoId,
    actors: Vec<Device<MockSigner>>,
    keys: Vec<PublicKey>,
    /// identity commits v1, v2
    idc: [Oid; 2],
    b0: Oid,
    c1: Oid,
    cx: Oid,
    env: EnvRepo,
    pool: Vec<PublicKey>,
    max_new: usize,
    stride: u64,
}

static FIX: OnceLock<Fix> = OnceLock::new();
fn fix() -> &'static Fix {
    FIX.get().expect("fixture")
}
thread_local! {
    static WREPO: RefCell<Option<Repository>> = const { RefCell::new(None) };
}
static WCOUNT: AtomicUsize = AtomicUsize::new(0);
static STRIDE_SET: Mutex<BTreeSet<String>> = Mutex::new(BTreeSet::new());

fn with_wrepo<T>(f: impl FnOnce(&Repository) -> T) -> T {
    WREPO.with(|c| {
        let mut c = c.borrow_mut();
        if c.is_none() {
            let n = WCOUNT.fetch_add(1, Ordering::Relaxed);
            let dst = fix().base.join(format!("w{n}"));
            copy_dir(&fix().repo_path, &dst);
            *c = Some(Repository::open(&dst, fix().rid).expect("open repository copy"));
        }
        f(c.as_ref().unwrap())
    })
}

fn cleanup() {
    if let Some(f) = FIX.get() {
        let _ = std::fs::remove_dir_all(&f.base);
    }
}

fn die(msg: &str) -> ! {
    cleanup();
    machinery(msg)
}

fn build_fixture(max_new: usize, stride: u64) -> Fix {
    let base = tempfile::Builder::new().prefix("verif-c07-").tempdir().expect("tempdir").into_path();
    let actors: Vec<Device<MockSigner>> = (0..4u8).map(|i| dev(11 + i)).collect();
    let keys: Vec<PublicKey> = actors.iter().map(|a| *a.public_key()).collect();
    let storage = storage_at(&base, keys[0]);
    let v1 = project_doc(&[keys[D as usize]], 1);
    let v2 = project_doc(&[keys[S as usize]], 1);
    let (repo, c_v1) = init_repo(&storage, &v1, &actors[D as usize]);
    let c_v2 = {
        let mut id = radicle::cob::identity::Identity::get_mut(&ObjectId::from(c_v1), &repo).expect("load identity");
        let r = id.update("v2", "", &v2, &actors[D as usize]).expect("identity update");
        assert_eq!(id.current, r, "v2 must be adopted by the sole delegate");
        r
    };
    let b0 = plain_commit(&repo, "b0", &[]);
    let c1 = plain_commit(&repo, "c1", &[b0]);
    let cx = plain_commit(&repo, "cx", &[b0]);
    set_branch_head(&repo, &keys[D as usize], c1);
    set_branch_head(&repo, &keys[S as usize], c1);
    let env = snapshot(&repo, &[c_v1, c_v2], &keys, &[b0, c1, cx]);
    assert!(env.docs[&c_v1].doc.is_delegate(&Did::from(keys[D as usize])) && !env.docs[&c_v2].doc.is_delegate(&Did::from(keys[D as usize])));
    assert!(env.docs[&c_v2].doc.is_delegate(&Did::from(keys[S as usize])));
    assert!(env.ancestry.contains(&(b0, c1)) && !env.ancestry.contains(&(cx, c1)));
    let rid = repo.id;
    let repo_path = repo_path(&storage, &rid);
    let pool: Vec<PublicKey> = (0..16u8).map(|i| *dev(200 + i).public_key()).collect();
    Fix { base, repo_path, rid, actors, keys, idc: [c_v1, c_v2], b0, c1, cx, env, pool, max_new, stride }
}

#[derive(Clone, Debug)]
struct ObjInfo {
    id: Oid,
    kind: ObjKind,
    author: u8,
    /// Enclosing object (revision of a review / revision comment, review of a review comment).
    within: Option<u8>,
}

#[derive(Clone)]
enum Obj {
    Unset,
    Issue(issue::Issue),
    Patch(patch::Patch),
}

#[derive(Clone, Debug)]
struct LogEntry {
    by: u8,
    idv: u8,
    act: Act,
    ok: bool,
    made: bool,
}

#[derive(Clone)]
struct Sys {
    obj: Obj,
    objs: Vec<ObjInfo>,
    /// Every operation after the root (seeds and explored ones).
    log: Vec<LogEntry>,
    hist: Vec<Ev>,
    new_objs: usize,
    /// Canonical text of the object after the last step.
    view: String,
}

enum AnyAction {
    Issue(issue::Action),
    Patch(patch::Action),
}

fn seeds(kind: Kind) -> Vec<(u8, u8, Act)> {
    match kind {
        // c comments on the issue
        Kind::Issue => vec![(C, 0, Act::Comment)],
        // c reviews revision #0, comments on revision #0, comments on its own review (#1)
        Kind::Patch => vec![(C, 0, Act::Review(0)), (C, 0, Act::RevisionComment(0)), (C, 0, Act::ReviewComment(1))],
    }
}

fn root_actions(kind: Kind) -> AnyActions {
    let f = fix();
    match kind {
        Kind::Issue => AnyActions::Issue(vec![issue::Action::Comment { body: "root".into(), reply_to: None, embeds: vec![] }, issue::Action::Edit { title: "t0".into() }]),
        Kind::Patch => AnyActions::Patch(vec![
            patch::Action::Revision { description: "r0".into(), base: f.b0, oid: f.c1, resolves: Default::default() },
            patch::Action::Edit { title: "t0".into(), target: patch::MergeTarget::Delegates },
        ]),
    }
}

enum AnyActions {
    Issue(Vec<issue::Action>),
    Patch(Vec<patch::Action>),
}

fn is_delegate(by: u8, idv: u8) -> bool {
    (idv == 0 && by == D) || (idv == 1 && by == S)
}

impl Sys {
    fn new() -> Sys {
        Sys { obj: Obj::Unset, objs: vec![], log: vec![], hist: vec![], new_objs: 0, view: String::new() }
    }

    fn kind(&self) -> Option<Kind> {
        match self.obj {
            Obj::Unset => None,
            Obj::Issue(_) => Some(Kind::Issue),
            Obj::Patch(_) => Some(Kind::Patch),
        }
    }

    fn names(&self, extra: Option<Oid>) -> Vec<(String, String)> {
        let mut v: Vec<(String, String)> = self.objs.iter().enumerate().map(|(i, o)| (hex(&o.id), format!("#{i}"))).collect();
        if let Some(x) = extra {
            v.push((hex(&x), "#new".to_string()));
        }
        v
    }

    fn render(&self, extra: Option<Oid>) -> String {
        let names = self.names(extra);
        match &self.obj {
            Obj::Unset => String::new(),
            Obj::Issue(i) => fast_view(i, &names),
            Obj::Patch(p) => fast_view(p, &names),
        }
    }

    /// Slow, fully normalised form (map keys sorted) for comparison with a real repository.
    fn normal_form(&self) -> Value {
        let names = self.names(None);
        match &self.obj {
            Obj::Unset => Value::Null,
            Obj::Issue(i) => canon_json(i, &names, &["timeline"], &[]),
            Obj::Patch(p) => canon_json(p, &names, &["timeline"], &["conflicts", "resolves"]),
        }
    }

    /// The concrete action of `act` with ids supplied by `id_of` (in-memory or real).
    fn action(&self, by: u8, act: Act, id_of: &dyn Fn(u8) -> Oid) -> AnyAction {
        let f = fix();
        let did_a = Did::from(f.keys[A as usize]);
        let label = || Label::new("bug").expect("label");
        let thumbs = || Reaction::new('👍').expect("reaction");
        let within = |o: u8| self.objs[o as usize].within.expect("object has an enclosing object");
        let _ = by;
        match self.kind().expect("started") {
            Kind::Issue => AnyAction::Issue(match act {
                Act::Assign(x) => issue::Action::Assign { assignees: if x { [did_a].into() } else { Default::default() } },
                Act::Label(x) => issue::Action::Label { labels: if x { [label()].into() } else { Default::default() } },
                Act::Title(x) => issue::Action::Edit { title: if x { "t1".into() } else { "t0".into() } },
                Act::IssueState(x) => issue::Action::Lifecycle { state: if x { issue::State::Closed { reason: issue::CloseReason::Solved } } else { issue::State::Open } },
                Act::Comment => issue::Action::Comment { body: "comment".into(), reply_to: Some(id_of(0)), embeds: vec![] },
                Act::CommentEdit(o) => issue::Action::CommentEdit { id: id_of(o), body: "edited".into(), embeds: vec![] },
                Act::CommentRedact(o) => issue::Action::CommentRedact { id: id_of(o) },
                Act::CommentReact(o, on) => issue::Action::CommentReact { id: id_of(o), reaction: thumbs(), active: on },
                other => panic!("not an issue action: {other:?}"),
            }),
            Kind::Patch => AnyAction::Patch(match act {
                Act::Assign(x) => patch::Action::Assign { assignees: if x { [did_a].into() } else { Default::default() } },
                Act::Label(x) => patch::Action::Label { labels: if x { [label()].into() } else { Default::default() } },
                Act::Title(x) => patch::Action::Edit { title: if x { "t1".into() } else { "t0".into() }, target: patch::MergeTarget::Delegates },
                Act::Lifecycle(x) => patch::Action::Lifecycle { state: match x { 0 => patch::Lifecycle::Open, 1 => patch::Lifecycle::Draft, _ => patch::Lifecycle::Archived } },
                Act::Merge(r, good) => patch::Action::Merge { revision: id_of(r).into(), commit: if good { f.c1 } else { f.cx } },
                Act::Review(r) => patch::Action::Review { revision: id_of(r).into(), summary: Some("lgtm".into()), verdict: Some(patch::Verdict::Accept), labels: vec![] },
                Act::ReviewEdit(o) => patch::Action::ReviewEdit { review: id_of(o).into(), summary: Some("changed".into()), verdict: Some(patch::Verdict::Reject), labels: vec![] },
                Act::ReviewRedact(o) => patch::Action::ReviewRedact { review: id_of(o).into() },
                Act::ReviewComment(o) => patch::Action::ReviewComment { review: id_of(o).into(), body: "review comment".into(), location: None, reply_to: None, embeds: vec![] },
                Act::ReviewCommentEdit(o) => patch::Action::ReviewCommentEdit { review: id_of(within(o)).into(), comment: id_of(o), body: "edited".into(), embeds: vec![] },
                Act::ReviewCommentRedact(o) => patch::Action::ReviewCommentRedact { review: id_of(within(o)).into(), comment: id_of(o) },
                Act::ReviewCommentReact(o) => patch::Action::ReviewCommentReact { review: id_of(within(o)).into(), comment: id_of(o), reaction: thumbs(), active: true },
                Act::ReviewCommentResolve(o, on) => {
                    if on {
                        patch::Action::ReviewCommentResolve { review: id_of(within(o)).into(), comment: id_of(o) }
                    } else {
                        patch::Action::ReviewCommentUnresolve { review: id_of(within(o)).into(), comment: id_of(o) }
                    }
                }
                Act::Revision => patch::Action::Revision { description: "r".into(), base: f.b0, oid: f.cx, resolves: Default::default() },
                Act::RevisionEdit(r) => patch::Action::RevisionEdit { revision: id_of(r).into(), description: "edited".into(), embeds: vec![] },
                Act::RevisionRedact(r) => patch::Action::RevisionRedact { revision: id_of(r).into() },
                Act::RevisionReact(r) => patch::Action::RevisionReact { revision: id_of(r).into(), location: None, reaction: thumbs(), active: true },
                Act::RevisionComment(r) => patch::Action::RevisionComment { revision: id_of(r).into(), location: None, body: "revision comment".into(), reply_to: None, embeds: vec![] },
                Act::RevisionCommentEdit(o) => patch::Action::RevisionCommentEdit { revision: id_of(within(o)).into(), comment: id_of(o), body: "edited".into(), embeds: vec![] },
                Act::RevisionCommentRedact(o) => patch::Action::RevisionCommentRedact { revision: id_of(within(o)).into(), comment: id_of(o) },
                Act::RevisionCommentReact(o) => patch::Action::RevisionCommentReact { revision: id_of(within(o)).into(), comment: id_of(o), reaction: thumbs(), active: true },
                other => panic!("not a patch action: {other:?}"),
            }),
        }
    }

    /// Enclosing object of what `act` would create.
    fn within_of(&self, act: Act) -> Option<u8> {
        match act {
            Act::Review(r) | Act::RevisionComment(r) => Some(r),
            Act::ReviewComment(o) => Some(o),
            _ => None,
        }
    }

    /// Apply one operation with the real `op`. Returns the error label, if any.
    fn apply(&mut self, by: u8, idv: u8, act: Act) -> Result<(), String> {
        let f = fix();
        let n = self.log.len() as u32 + 1;
        let op_id = syn_oid(n);
        let action = self.action(by, act, &|o| self.objs[o as usize].id);
        let key = f.keys[by as usize];
        let ident = Some(f.idc[idv as usize]);
        let result: Result<(), String> = match (&mut self.obj, action) {
            (Obj::Issue(i), AnyAction::Issue(a)) => {
                let op = Op::new(op_id, NonEmpty::new(a), key, Timestamp::from_secs(T0), ident, Manifest::new(issue::TYPENAME.clone(), cob::Version::default()));
                i.op(op, std::iter::empty::<&cob::Entry>(), &f.env).map_err(|e| issue_err(&e))
            }
            (Obj::Patch(p), AnyAction::Patch(a)) => {
                let op = Op::new(op_id, NonEmpty::new(a), key, Timestamp::from_secs(T0), ident, Manifest::new(patch::TYPENAME.clone(), cob::Version::default()));
                p.op(op, std::iter::empty::<&cob::Entry>(), &f.env).map_err(|e| patch_err(&e))
            }
            _ => unreachable!(),
        };
        let mut made = false;
        let view = self.render(Some(op_id));
        if let Some(kind) = act.creates() {
            if view.contains("#new") {
                self.objs.push(ObjInfo { id: op_id, kind, author: by, within: self.within_of(act) });
                made = true;
            }
        }
        self.view = if made { self.render(None) } else { view };
        self.log.push(LogEntry { by, idv, act, ok: result.is_ok(), made });
        result
    }

    fn start(&mut self, kind: Kind) {
        let f = fix();
        let root_id = syn_oid(0);
        let key = f.keys[A as usize];
        match root_actions(kind) {
            AnyActions::Issue(acts) => {
                let op = Op::new(root_id, NonEmpty::from_vec(acts).unwrap(), key, Timestamp::from_secs(T0), Some(f.idc[0]), Manifest::new(issue::TYPENAME.clone(), cob::Version::default()));
                self.obj = Obj::Issue(issue::Issue::from_root(op, &f.env).expect("issue root"));
                self.objs.push(ObjInfo { id: root_id, kind: ObjKind::IssueComment, author: A, within: None });
            }
            AnyActions::Patch(acts) => {
                let op = Op::new(root_id, NonEmpty::from_vec(acts).unwrap(), key, Timestamp::from_secs(T0), Some(f.idc[0]), Manifest::new(patch::TYPENAME.clone(), cob::Version::default()));
                self.obj = Obj::Patch(patch::Patch::from_root(op, &f.env).expect("patch root"));
                self.objs.push(ObjInfo { id: root_id, kind: ObjKind::Revision, author: A, within: None });
            }
        }
        for (by, idv, act) in seeds(kind) {
            if let Err(e) = self.apply(by, idv, act) {
                panic!("seed operation {act:?} failed: {e}");
            }
        }
        self.view = self.render(None);
    }

    /// Is the actor authorised for this action by the statement's role table? `None`: the
    /// statement says nothing about this action.
    fn authorised(&self, by: u8, idv: u8, act: Act) -> Option<bool> {
        let del = is_delegate(by, idv);
        match act {
            Act::Assign(_) | Act::Label(_) | Act::Merge(..) => Some(del),
            Act::Title(_) | Act::IssueState(_) | Act::Lifecycle(_) => Some(del || by == A),
            Act::CommentEdit(o) | Act::CommentRedact(o) | Act::ReviewEdit(o) | Act::ReviewRedact(o) | Act::ReviewCommentEdit(o) | Act::ReviewCommentRedact(o) | Act::RevisionCommentEdit(o) | Act::RevisionCommentRedact(o) => {
                Some(del || by == self.objs[o as usize].author)
            }
            _ => None,
        }
    }

    /// The part of the state an action of this kind is about (read through the accessors; for
    /// comment / review edits and redactions: the whole object, timelines excluded).
    fn projection(&self, act: Act) -> (&'static str, String) {
        let small = |what: &'static str| -> String {
            match &self.obj {
                Obj::Unset => String::new(),
                Obj::Issue(i) => match what {
                    "assignees" => format!("{:?}", i.assignees().collect::<Vec<_>>()),
                    "labels" => format!("{:?}", i.labels().collect::<Vec<_>>()),
                    "title" => i.title().to_string(),
                    _ => format!("{:?}", i.state()),
                },
                Obj::Patch(p) => {
                    let state = || match p.state() {
                        patch::State::Open { conflicts } => {
                            let mut c: Vec<String> = conflicts.iter().map(|(r, o)| format!("{r}@{o}")).collect();
                            c.sort();
                            format!("Open{c:?}")
                        }
                        other => format!("{other:?}"),
                    };
                    match what {
                        "assignees" => format!("{:?}", p.assignees().collect::<Vec<_>>()),
                        "labels" => format!("{:?}", p.labels().collect::<Vec<_>>()),
                        "title" => p.title().to_string(),
                        "merges" => format!("{:?} {}", p.merges().collect::<Vec<_>>(), state()),
                        _ => state(),
                    }
                }
            }
        };
        match act {
            Act::Assign(_) => ("assignees", small("assignees")),
            Act::Label(_) => ("labels", small("labels")),
            Act::Merge(..) => ("merges", small("merges")),
            Act::Title(_) => ("title", small("title")),
            Act::IssueState(_) | Act::Lifecycle(_) => ("state", small("state")),
            _ => ("comments-and-reviews", self.view.clone()),
        }
    }

    fn role(&self, by: u8, idv: u8, act: Act) -> &'static str {
        let target_author = match act {
            Act::CommentEdit(o) | Act::CommentRedact(o) | Act::ReviewEdit(o) | Act::ReviewRedact(o) | Act::ReviewCommentEdit(o) | Act::ReviewCommentRedact(o) | Act::RevisionCommentEdit(o) | Act::RevisionCommentRedact(o) => {
                Some(self.objs[o as usize].author)
            }
            _ => None,
        };
        if is_delegate(by, idv) {
            "delegate"
        } else if target_author == Some(by) {
            "target-author"
        } else if by == A {
            "object-author"
        } else if by == D {
            "ex-delegate"
        } else {
            "other"
        }
    }

    fn acts(&self) -> Vec<Act> {
        let mut out = vec![];
        let of = |k: ObjKind| self.objs.iter().enumerate().filter(move |(_, o)| o.kind == k).map(|(i, _)| i as u8);
        let may_create = self.new_objs < fix().max_new;
        for x in [false, true] {
            out.push(Act::Assign(x));
            out.push(Act::Label(x));
            out.push(Act::Title(x));
        }
        match self.kind().expect("started") {
            Kind::Issue => {
                out.push(Act::IssueState(false));
                out.push(Act::IssueState(true));
                if may_create {
                    out.push(Act::Comment);
                }
                for o in of(ObjKind::IssueComment) {
                    out.push(Act::CommentEdit(o));
                    out.push(Act::CommentRedact(o));
                    out.push(Act::CommentReact(o, true));
                    out.push(Act::CommentReact(o, false));
                }
            }
            Kind::Patch => {
                for x in 0..3 {
                    out.push(Act::Lifecycle(x));
                }
                if may_create {
                    out.push(Act::Revision);
                }
                for r in of(ObjKind::Revision) {
                    out.push(Act::Merge(r, true));
                    out.push(Act::Merge(r, false));
                    if may_create {
                        out.push(Act::Review(r));
                        out.push(Act::RevisionComment(r));
                    }
                    out.push(Act::RevisionEdit(r));
                    out.push(Act::RevisionRedact(r));
                    out.push(Act::RevisionReact(r));
                }
                for o in of(ObjKind::Review) {
                    out.push(Act::ReviewEdit(o));
                    out.push(Act::ReviewRedact(o));
                    if may_create {
                        out.push(Act::ReviewComment(o));
                    }
                }
                for o in of(ObjKind::ReviewComment) {
                    out.push(Act::ReviewCommentEdit(o));
                    out.push(Act::ReviewCommentRedact(o));
                    out.push(Act::ReviewCommentReact(o));
                    out.push(Act::ReviewCommentResolve(o, true));
                    out.push(Act::ReviewCommentResolve(o, false));
                }
                for o in of(ObjKind::RevisionComment) {
                    out.push(Act::RevisionCommentEdit(o));
                    out.push(Act::RevisionCommentRedact(o));
                    out.push(Act::RevisionCommentReact(o));
                }
            }
        }
        out
    }

    /// Materialise the history as real commits and evaluate it with `radicle_cob::get`.
    fn conformance(hist: &[Ev]) -> Result<(), String> {
        let f = fix();
        let Some(Ev::Start(kind)) = hist.first().cloned() else {
            return Ok(());
        };
        let mut mem = Sys::new();
        for ev in hist {
            let _ = mem.step(ev);
        }
        let want = mem.normal_form();
        with_wrepo(|repo| {
            let type_name = match kind {
                Kind::Issue => issue::TYPENAME.clone(),
                Kind::Patch => patch::TYPENAME.clone(),
            };
            let root_contents: Vec<Vec<u8>> = match root_actions(kind) {
                AnyActions::Issue(a) => a.iter().map(encode_action).collect(),
                AnyActions::Patch(a) => a.iter().map(encode_action).collect(),
            };
            let root = Comb::write_root(repo, &type_name, Some(f.idc[0]), &f.actors[A as usize], root_contents, vec![]);
            let mut comb = Comb::new(repo, type_name.clone(), root);
            // Re-run the model alongside to know the object table before every operation.
            let mut model = Sys::new();
            model.obj = mem_obj_start(kind);
            model.objs.push(mem.objs[0].clone());
            let mut real: Vec<Oid> = vec![root];
            for e in &mem.log {
                let action = model.action(e.by, e.act, &|o| real[o as usize]);
                let bytes = match &action {
                    AnyAction::Issue(a) => encode_action(a),
                    AnyAction::Patch(a) => encode_action(a),
                };
                let id = comb.push(Some(f.idc[e.idv as usize]), &f.actors[e.by as usize], vec![bytes], vec![], e.ok);
                if e.made {
                    real.push(id);
                }
                let _ = model.apply(e.by, e.idv, e.act);
            }
            let names: Vec<(String, String)> = real.iter().enumerate().map(|(i, o)| (hex(o), format!("#{i}"))).collect();
            let object = ObjectId::from(root);
            let got = comb.with_published(&object, &f.pool, None, || match kind {
                Kind::Issue => cob::get::<issue::Issue, _>(repo, &type_name, &object).map(|o| o.map(|o| canon_json(&o.object, &names, &["timeline"], &[]))),
                Kind::Patch => cob::get::<patch::Patch, _>(repo, &type_name, &object).map(|o| o.map(|o| canon_json(&o.object, &names, &["timeline"], &["conflicts", "resolves"]))),
            });
            let got = got.map_err(|e| format!("cob::get failed: {e}"))?.ok_or("cob::get returned None")?;
            if got != want {
                return Err(format!("in-memory application and cob::get disagree\n in-memory: {want}\n real:      {got}"));
            }
            Ok(())
        })
    }
}

/// A started object without seeds (only used to drive `action()` in the conformance replay).
fn mem_obj_start(kind: Kind) -> Obj {
    let f = fix();
    let key = f.keys[A as usize];
    match root_actions(kind) {
        AnyActions::Issue(acts) => {
            let op = Op::new(syn_oid(0), NonEmpty::from_vec(acts).unwrap(), key, Timestamp::from_secs(T0), Some(f.idc[0]), Manifest::new(issue::TYPENAME.clone(), cob::Version::default()));
            Obj::Issue(issue::Issue::from_root(op, &f.env).expect("issue root"))
        }
        AnyActions::Patch(acts) => {
            let op = Op::new(syn_oid(0), NonEmpty::from_vec(acts).unwrap(), key, Timestamp::from_secs(T0), Some(f.idc[0]), Manifest::new(patch::TYPENAME.clone(), cob::Version::default()));
            Obj::Patch(patch::Patch::from_root(op, &f.env).expect("patch root"))
        }
    }
}

fn clip(s: &str) -> String {
    if s.len() > 160 {
        format!("{}…", s.chars().take(160).collect::<String>())
    } else {
        s.to_string()
    }
}

fn issue_err(e: &issue::Error) -> String {
    use issue::Error::*;
    match e {
        NotAuthorized(..) => "NotAuthorized",
        NotAllowed(_) => "NotAllowed",
        Thread(_) => "Thread",
        InvalidTitle(_) => "InvalidTitle",
        Doc(_) => "Doc",
        MissingIdentity => "MissingIdentity",
        _ => "other",
    }
    .to_string()
}

fn patch_err(e: &patch::Error) -> String {
    use patch::Error::*;
    match e {
        NotAuthorized(..) => "NotAuthorized",
        NotAllowed(_) => "NotAllowed",
        Thread(_) => "Thread",
        Missing(_) => "Missing",
        EmptyReview => "EmptyReview",
        Doc(_) => "Doc",
        Payload(_) => "Payload",
        Git(_) => "Git",
        _ => "other",
    }
    .to_string()
}

impl System for Sys {
    type Ev = Ev;

    fn enabled(&self) -> Vec<Ev> {
        if self.kind().is_none() {
            return vec![Ev::Start(Kind::Issue), Ev::Start(Kind::Patch)];
        }
        let mut out = vec![];
        // (d,v1) delegate, (d,v2) ex-delegate, (a,v1), (c,v1), (s,v1) stranger, (s,v2) new delegate
        for (by, idv) in [(D, 0), (D, 1), (A, 0), (C, 0), (S, 0), (S, 1)] {
            for act in self.acts() {
                out.push(Ev::Act { by, idv, act });
            }
        }
        out
    }

    fn is_deviation(&self, ev: &Ev) -> bool {
        match ev {
            Ev::Start(_) => false,
            Ev::Act { by, idv, act } => self.authorised(*by, *idv, *act) == Some(false),
        }
    }

    fn step(&mut self, ev: &Ev) -> StepOut {
        let out = match ev {
            Ev::Start(k) => {
                self.start(*k);
                StepOut::ok(format!("start:{k:?}"))
            }
            Ev::Act { by, idv, act } => {
                let auth = self.authorised(*by, *idv, *act);
                let role = self.role(*by, *idv, *act);
                let regulated = auth.is_some();
                let (what, before) = if regulated { self.projection(*act) } else { ("", String::new()) };
                let res = self.apply(*by, *idv, *act);
                if act.creates().is_some() && self.log.last().map(|l| l.made).unwrap_or(false) {
                    self.new_objs += 1;
                }
                let (_, after) = if regulated { self.projection(*act) } else { ("", String::new()) };
                let changed = if regulated { before != after } else { false };
                let mut vs = vec![];
                if auth == Some(false) && changed {
                    vs.push(Violation::new(
                        format!("C07/{:?}/{}-changed-by-unauthorised/{}", self.kind().unwrap(), what, act.name()),
                        format!(
                            "{} ({role}, referring to identity v{}) is not authorised for `{}` by the statement's role table, yet the {what} changed (op result: {res:?}): {} -> {}",
                            ACTORS[*by as usize],
                            idv + 1,
                            act.name(),
                            clip(&before),
                            clip(&after)
                        ),
                        json!({"before": before, "after": after}),
                    ));
                }
                let auth_s = match auth {
                    Some(true) => "authorised",
                    Some(false) => "UNAUTHORISED",
                    None => "unregulated",
                };
                let r = match &res {
                    Ok(()) => if !regulated { "ok".to_string() } else if changed { "ok+changed".to_string() } else { "ok+same".to_string() },
                    Err(e) => format!("err:{e}"),
                };
                StepOut { violations: vs, outcome: format!("{:?}/{}/{role}/{auth_s}:{r}", self.kind().unwrap(), act.name()), dead: false }
            }
        };
        self.hist.push(ev.clone());
        if fix().stride > 0 {
            let key = serde_json::to_string(&self.hist).expect("hist");
            if mcx::fnv64(key.as_bytes()) % fix().stride == 0 {
                STRIDE_SET.lock().unwrap().insert(key);
            }
        }
        out
    }

    fn canon(&self) -> Vec<u8> {
        let mut s = self.view.clone();
        for o in &self.objs {
            s.push_str(&format!("|{:?},{},{:?}", o.kind, o.author, o.within));
        }
        s.push_str(&format!("|new={}", self.new_objs));
        s.into_bytes()
    }

    fn fork(&self) -> Option<Self> {
        Some(self.clone())
    }
}

fn main() {
    init_env();
    let ctx = Ctx::from_env("C07", "model_checking");
    let thorough = ctx.tier == mcx::Tier::Thorough;
    // Depth counts the Start event. quick: D=4 actions, any number of unauthorised ones, at most one new
    // object; thorough: D=5 actions, at most 3 unauthorised, at most one new object (measured: 3.6*10^7
    // transitions; the design's D=6 would be ~5*10^8, and two new objects at D=4 already 4.7*10^7).
    let (depth, devs, max_new, stride) = if thorough { (6usize, 3usize, 1usize, 20011u64) } else { (5, 4, 1, 0) };
    let replaying = ctx.replay.is_some();
    if FIX.set(build_fixture(if replaying { 64 } else { max_new }, stride)).is_err() {
        unreachable!();
    }

    if let Some(w) = ctx.replay_witness() {
        let vs = explore::replay("C07", Sys::new, &w);
        let hist: Vec<Ev> = serde_json::from_value(w.get("history").cloned().unwrap_or(Value::Null)).unwrap_or_default();
        match Sys::conformance(&hist) {
            Ok(()) => println!("REPLAY conformance: cob::get over the same history as real commits agrees with the in-memory application"),
            Err(e) => die(&format!("conformance: {e}")),
        }
        cleanup();
        ctx.finish_replay(vs);
    }

    let mut res = explore::explore("C07", Sys::new, Bounds::new(depth, devs).wall_secs(if thorough { 2400 } else { 300 }));

    let mut todo: BTreeSet<String> = std::mem::take(&mut *STRIDE_SET.lock().unwrap());
    let stride_n = todo.len();
    for (_, (ws, _)) in res.violations.by_fp.iter() {
        for w in ws {
            if let Some(h) = w.witness.get("history") {
                todo.insert(h.to_string());
            }
        }
    }
    // Always replay at least the seeded objects and the deepest samples.
    todo.insert(serde_json::to_string(&vec![Ev::Start(Kind::Issue)]).unwrap());
    todo.insert(serde_json::to_string(&vec![Ev::Start(Kind::Patch)]).unwrap());
    for s in &res.samples {
        todo.insert(serde_json::to_string(s).unwrap());
    }
    let todo: Vec<String> = todo.into_iter().collect();
    let st = mcx::sweep::threads(
        todo.len() as u64,
        |i| {
            let hist: Vec<Ev> = serde_json::from_str(&todo[i as usize]).expect("history");
            match Sys::conformance(&hist) {
                Ok(()) => mcx::sweep::ItemOut::new(mcx::fnv64(todo[i as usize].as_bytes()) | 1, "agree"),
                Err(e) => die(&format!("conformance replay of {} failed: {e}", todo[i as usize])),
            }
        },
        // A panic of the code under test while the real evaluation runs is a violation with the same
        // fingerprint the exploration gives it (a harness panic stays a machinery error).
        Some(|i: u64, c: &mcx::panics::Caught| {
            Violation::new(
                format!("C07/panic@{}", c.site()),
                format!("panic while the history is applied / evaluated from real commits: {} ({}:{})", c.message, c.file, c.line),
                json!({"history": serde_json::from_str::<Value>(&todo[i as usize]).unwrap_or(Value::Null), "detail": {"panic": c.message, "file": c.file, "where": "conformance replay"}}),
            )
        }),
    );

    let mut cov = res.coverage(
        "BFS over histories of single-action operations on one issue and one patch (first event chooses the object; it is created by `a` and seeded with a comment / review / review comment / revision comment by `c`). \
         Principals: d referring to identity v1 (delegate) or v2 (ex-delegate), a (object author), c (comment/review author), s referring to v1 (stranger) or v2 (delegate). \
         Actions: every issue::Action / patch::Action constructor with arguments from a two-value domain (including no-op label/assign/title, redactions followed by edits of the redacted target). \
         Deviation = action the statement's role table does not authorise. A state = canonical JSON of the object (ids by creation order, timelines dropped) + the model's object table; distinct = distinct canonical states",
    );
    cov.insert("conformance_replays".into(), json!(st.evaluations));
    cov.insert("conformance_outcomes".into(), json!(st.outcomes));
    cov.insert("conformance_stride".into(), json!(if stride > 0 { format!("1 in {stride} of all executed histories (by hash): {stride_n}; plus violating witnesses, seeds and samples") } else { "violating witnesses, seeds and deepest samples".to_string() }));
    cov.insert("config".into(), json!({"depth_including_start": depth, "deviations": devs, "max_new_objects": max_new}));
    let unauth: u64 = res.outcomes.iter().filter(|(k, _)| k.contains("UNAUTHORISED")).map(|(_, v)| *v).sum();
    let unknown_ignored: u64 = res.outcomes.iter().filter(|(k, _)| k.contains("UNAUTHORISED:ok+same")).map(|(_, v)| *v).sum();
    cov.insert("unauthorised_steps".into(), json!(unauth));
    cov.insert("unauthorised_steps_accepted_without_effect".into(), json!(unknown_ignored));
    let mut violations = std::mem::take(&mut res.violations);
    violations.merge(st.violations.clone());
    cleanup();
    ctx.finish(
        cov,
        &[
            "operations are single-action; the repository is a table-driven ReadRepository snapshotted from a real repository (identity_doc_at, reference_oid, is_ancestor_of)",
            "`delegate` means delegate of the identity document the operation refers to (v1 or v2), as in the statement",
            "actions the statement does not mention (comment, react, resolve, revision, revision edit/redact, review) are executed but nothing is demanded of them",
        ],
        violations,
    );
}
