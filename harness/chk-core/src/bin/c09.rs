//! C09 — The COB cache answers exactly like direct evaluation.
//!
//! Engine A (`mcx::explore`) over real storage, replay-from-scratch (no fork). A state is a
//! history of issue / patch operations applied to a real on-disk repository (a copy of one
//! template storage built once per process from `radicle::test::setup`) through
//!
//! * the write-through cache (`patch::Cache<Patches, StoreWriter>` / `issue::Cache<Issues,
//!   StoreWriter>` over one `cob::cache::Store::memory()` database) for the local user, and
//! * the node's post-fetch path for a remote peer: the change is written through the *uncached*
//!   store under the peer's namespace (what a fetch leaves behind) and then the cache is told via
//!   a transcription of `cache_cobs` / `update_or_remove` of `radicle-node/src/worker/fetch.rs`.
//!
//! After every step, for every identifier that has ever existed in the history (patch, revision,
//! review, comment, issue ids; redacted ones too) plus one unknown id, and every status, the
//! queries `get`, `find_by_revision`, `list`, `list_by_status`, `counts`, `is_empty` of the cached
//! store are compared with the same queries of `Cache<_, NoCache>` (direct evaluation).
//! `Ok(None)` vs `Err` (or a panic) is a mismatch; `Ok` payloads must be equal (`PartialEq` of the
//! real types); lists are compared as sets of `(id, object)` because no order is promised.
//!
//! Every distinct history is compared exactly once — when it is first executed. Re-executions of
//! a stored history (the engine rebuilds states by replay) re-apply the operations for real but
//! skip the comparison, which is sound because the engine verifies that a replay reaches the
//! identical canonical state (repository COB refs + every cache row + bookkeeping).
//! `C09_CHECK_ALL=1` disables that economy.

use std::collections::{BTreeMap, BTreeSet, HashSet};
use std::fmt::{Debug, Display};
use std::path::{Path, PathBuf};
use std::str::FromStr;
use std::sync::atomic::{AtomicBool, AtomicU64, Ordering};
use std::sync::{Mutex, OnceLock};
use std::time::Instant;

use mcx::explore::{self, Bounds, StepOut, System};
use mcx::report::{machinery, Ctx, Violation};
use radicle::cob::cache::{self, NoCache, StoreWriter};
use radicle::cob::issue::cache::Issues as IssuesQ;
use radicle::cob::issue::{self, CloseReason, Issue, IssueCounts, IssueId};
use radicle::cob::patch::cache::Patches as PatchesQ;
use radicle::cob::patch::{self, ByRevision, Lifecycle, MergeTarget, Patch, PatchCounts, PatchId, RevisionId, Status, Verdict};
use radicle::cob::{self, Embed, Label, ObjectId, TypedId, Uri};
use radicle::crypto::test::signer::MockSigner;
use radicle::crypto::PublicKey;
use radicle::git;
use radicle::identity::RepoId;
use radicle::node::device::Device;
use radicle::storage::git::Repository;
use radicle::storage::{ReadRepository, WriteRepository};
use radicle::test::setup;
use serde::{Deserialize, Serialize};
use serde_json::{json, Value};

type Signer = Device<MockSigner>;

const ALICE_SEED: [u8; 32] = [0xA1; 32];
const BOB_SEED: [u8; 32] = [0xB0; 32];
const FIXED_TIME: &str = "1700000000";
const UNKNOWN_ID: &str = "f0f0f0f0f0f0f0f0f0f0f0f0f0f0f0f0f0f0f0f0";

// ---------------------------------------------------------------------------------------------
// Template repository (built once per process; every system starts from a copy of it)
// ---------------------------------------------------------------------------------------------

struct Template {
    /// Root of everything this process writes (removed at the end of `main`).
    root: PathBuf,
    /// The bare repository inside alice's storage.
    repo_path: PathBuf,
    rid: RepoId,
    /// Parent of `head` (used as patch base).
    base: git::Oid,
    /// Alice's `refs/heads/master` (patch head and merge commit).
    head: git::Oid,
}

static TEMPLATE: OnceLock<Template> = OnceLock::new();
static DIR_SEQ: AtomicU64 = AtomicU64::new(0);

fn tpl() -> &'static Template {
    TEMPLATE.get().expect("template built in main")
}

fn scratch_base() -> PathBuf {
    let shm = Path::new("/dev/shm");
    if shm.is_dir() && std::env::var_os("C09_NO_SHM").is_none() {
        shm.to_path_buf()
    } else {
        std::env::temp_dir()
    }
}

fn build_template() -> Template {
    let root = tempfile::Builder::new()
        .prefix("c09-")
        .tempdir_in(scratch_base())
        .unwrap_or_else(|e| machinery(&format!("cannot create scratch dir: {e}")))
        .into_path();
    let mk = |name: &str| {
        let p = root.join(name);
        std::fs::create_dir_all(&p).unwrap();
        // `setup::Node` wants a `TempDir`; its directory lives inside `root`, which we remove.
        tempfile::Builder::new().prefix("n").tempdir_in(&p).unwrap()
    };
    // Alice: the local user and sole delegate. Bob: a remote peer whose fork has been fetched.
    let alice = setup::Node::new(mk("alice"), MockSigner::from_seed(ALICE_SEED), "alice");
    let repo = alice.project();
    let rid = repo.id;
    let mut bob = setup::Node::new(mk("bob"), MockSigner::from_seed(BOB_SEED), "bob");
    bob.clone(rid, &alice);
    repo.fetch(&bob);

    let master = git::qualified!("refs/heads/master");
    let head = repo.reference_oid(alice.signer.public_key(), &master).expect("alice has a master branch");
    let base: git::Oid = repo.raw().find_commit(*head).expect("head commit").parent_id(0).expect("head has a parent").into();
    let repo_path = repo.raw().path().to_path_buf();
    // Keep the directories (the `TempDir`s inside the nodes must not delete them).
    let setup::Node { tmp: ta, .. } = alice;
    let setup::Node { tmp: tb, .. } = bob;
    let _ = ta.into_path();
    let _ = tb.into_path();
    drop(repo);
    Template { root, repo_path, rid, base, head }
}

/// A fresh repository: refs and configuration are copied, the (immutable) objects of the template
/// are borrowed through `objects/info/alternates`; new objects are written to the copy only.
fn copy_repo(from: &Path, to: &Path) {
    std::fs::create_dir_all(to).unwrap();
    for e in std::fs::read_dir(from).unwrap() {
        let e = e.unwrap();
        let dst = to.join(e.file_name());
        if e.file_name() == "objects" {
            std::fs::create_dir_all(dst.join("info")).unwrap();
            std::fs::create_dir_all(dst.join("pack")).unwrap();
            std::fs::write(dst.join("info").join("alternates"), format!("{}\n", e.path().display())).unwrap();
        } else if e.file_type().unwrap().is_dir() {
            copy_dir(&e.path(), &dst);
        } else {
            std::fs::copy(e.path(), &dst).unwrap();
        }
    }
}

fn copy_dir(from: &Path, to: &Path) {
    std::fs::create_dir_all(to).unwrap();
    for e in std::fs::read_dir(from).unwrap() {
        let e = e.unwrap();
        let ft = e.file_type().unwrap();
        let dst = to.join(e.file_name());
        if ft.is_dir() {
            copy_dir(&e.path(), &dst);
        } else if ft.is_file() {
            std::fs::copy(e.path(), &dst).unwrap();
        }
    }
}

// ---------------------------------------------------------------------------------------------
// Alphabet
// ---------------------------------------------------------------------------------------------

/// Who performs an operation, and therefore which path keeps the cache current.
#[derive(Clone, Copy, Debug, PartialEq, Eq, PartialOrd, Ord, Serialize, Deserialize)]
enum Via {
    /// The local user through the write-through cache.
    Local,
    /// A remote peer: written through the uncached store, then `cache_cobs`.
    Fetched,
}

#[derive(Clone, Copy, Debug, PartialEq, Eq, PartialOrd, Ord, Serialize, Deserialize)]
enum Lc {
    Open,
    Draft,
    Archived,
}

#[derive(Clone, Copy, Debug, PartialEq, Eq, PartialOrd, Ord, Serialize, Deserialize)]
enum Why {
    Solved,
    Other,
}

/// Slots: patches and issues are numbered in order of creation (0, 1).
#[derive(Clone, Debug, PartialEq, Eq, PartialOrd, Ord, Serialize, Deserialize)]
enum Ev {
    PatchCreate(Via),
    PatchDraft,
    /// New revision on patch slot.
    Revision(Via, u8),
    /// Review of the newest live revision.
    Review(Via, u8),
    /// Top-level comment on the newest live revision.
    RevComment(Via, u8),
    /// Comment on a review of the newest live revision.
    ReviewComment(u8),
    /// Redact the newest non-root revision authored by the local user.
    RedactRevision(u8),
    /// Redact the local user's review of the newest live revision.
    RedactReview(u8),
    /// Redact the local user's newest comment on the newest live revision.
    RedactComment(u8),
    Lifecycle(u8, Lc),
    Merge(u8),
    PatchRemove(Via, u8),
    IssueCreate(Via),
    IssueComment(Via, u8),
    IssueClose(u8, Why),
    IssueReopen(u8),
    /// Toggle the label set between {} and {bug}.
    IssueLabel(u8),
    /// Redact the local user's newest non-root comment.
    IssueRedactComment(u8),
    IssueRemove(Via, u8),
}

impl Ev {
    fn name(&self) -> String {
        let via = |v: &Via| if *v == Via::Fetched { "fetched." } else { "" };
        match self {
            Ev::PatchCreate(v) => format!("{}patch.create", via(v)),
            Ev::PatchDraft => "patch.draft".into(),
            Ev::Revision(v, _) => format!("{}patch.revision", via(v)),
            Ev::Review(v, _) => format!("{}patch.review", via(v)),
            Ev::RevComment(v, _) => format!("{}patch.comment", via(v)),
            Ev::ReviewComment(_) => "patch.review-comment".into(),
            Ev::RedactRevision(_) => "patch.redact-revision".into(),
            Ev::RedactReview(_) => "patch.redact-review".into(),
            Ev::RedactComment(_) => "patch.redact-comment".into(),
            Ev::Lifecycle(_, l) => format!("patch.lifecycle({l:?})").to_lowercase(),
            Ev::Merge(_) => "patch.merge".into(),
            Ev::PatchRemove(v, _) => format!("{}patch.remove", via(v)),
            Ev::IssueCreate(v) => format!("{}issue.create", via(v)),
            Ev::IssueComment(v, _) => format!("{}issue.comment", via(v)),
            Ev::IssueClose(_, w) => format!("issue.close({w:?})").to_lowercase(),
            Ev::IssueReopen(_) => "issue.reopen".into(),
            Ev::IssueLabel(_) => "issue.label".into(),
            Ev::IssueRedactComment(_) => "issue.redact-comment".into(),
            Ev::IssueRemove(v, _) => format!("{}issue.remove", via(v)),
        }
    }
}

/// Structural caps (part of the stated bound; they keep the branching finite and small).
#[derive(Clone, Copy)]
struct Caps {
    patches: usize,
    issues: usize,
    /// Revisions per patch, root included, redacted included.
    revisions: usize,
    /// Top-level comments per revision.
    rev_comments: usize,
    /// Comments per review.
    review_comments: usize,
    /// Comments per issue, root included.
    issue_comments: usize,
}

static CAPS: OnceLock<Caps> = OnceLock::new();
fn caps() -> Caps {
    *CAPS.get().expect("caps set in main")
}

// ---------------------------------------------------------------------------------------------
// Observations
// ---------------------------------------------------------------------------------------------

#[derive(Debug, PartialEq)]
enum Obs<T> {
    Ok(T),
    Err(String),
    /// (file of the panic site, full description)
    Panic(String, String),
}

fn guard<T, E: Display>(f: impl FnOnce() -> Result<T, E>) -> Obs<T> {
    match mcx::panics::catch(f) {
        Ok(Ok(v)) => Obs::Ok(v),
        Ok(Err(e)) => Obs::Err(e.to_string()),
        Err(c) => {
            if c.file.starts_with("chk-") || c.file.starts_with("mcx/") {
                machinery(&format!("harness panic inside a query: {} ({}:{})", c.message, c.file, c.line));
            }
            let site = c.site();
            let file = site.split(':').next().unwrap_or("").to_string();
            let long = format!("{} ({file}:{})", c.message, c.line);
            Obs::Panic(file, long)
        }
    }
}

type Items<I, T> = Obs<Vec<Result<(I, T), String>>>;

struct PatchView {
    get: Vec<Obs<Option<Patch>>>,
    find: Vec<Obs<Option<ByRevision>>>,
    list: Items<PatchId, Patch>,
    by_status: Vec<Items<PatchId, Patch>>,
    counts: Obs<PatchCounts>,
    empty: Obs<bool>,
}

const PATCH_STATUSES: [Status; 4] = [Status::Draft, Status::Open, Status::Archived, Status::Merged];

fn issue_statuses() -> [issue::State; 3] {
    [issue::State::Open, issue::State::Closed { reason: CloseReason::Solved }, issue::State::Closed { reason: CloseReason::Other }]
}

fn status_name(s: &issue::State) -> &'static str {
    match s {
        issue::State::Open => "open",
        issue::State::Closed { reason: CloseReason::Solved } => "closed-solved",
        issue::State::Closed { reason: CloseReason::Other } => "closed-other",
    }
}

fn collect<I, T, E: Display>(it: impl Iterator<Item = Result<(I, T), E>>) -> Vec<Result<(I, T), String>> {
    it.map(|r| r.map_err(|e| e.to_string())).collect()
}

fn observe_patches<P: PatchesQ>(p: &P, ids: &[git::Oid]) -> PatchView {
    PatchView {
        get: ids.iter().map(|id| guard(|| p.get(&PatchId::from(*id)))).collect(),
        find: ids.iter().map(|id| guard(|| p.find_by_revision(&RevisionId::from(*id)))).collect(),
        list: guard(|| p.list().map(collect)),
        by_status: PATCH_STATUSES.iter().map(|s| guard(|| p.list_by_status(s).map(collect))).collect(),
        counts: guard(|| p.counts()),
        empty: guard(|| p.is_empty()),
    }
}

struct IssueView {
    get: Vec<Obs<Option<Issue>>>,
    list: Items<IssueId, Issue>,
    by_status: Vec<Items<IssueId, Issue>>,
    counts: Obs<IssueCounts>,
    empty: Obs<bool>,
}

fn observe_issues<P: IssuesQ>(p: &P, ids: &[git::Oid]) -> IssueView {
    IssueView {
        get: ids.iter().map(|id| guard(|| p.get(&IssueId::from(*id)))).collect(),
        list: guard(|| p.list().map(collect)),
        by_status: issue_statuses().iter().map(|s| guard(|| p.list_by_status(s).map(collect))).collect(),
        counts: guard(|| p.counts()),
        empty: guard(|| p.is_empty()),
    }
}

fn clip(s: String) -> String {
    if s.len() > 400 {
        let mut t: String = s.chars().take(400).collect();
        t.push('…');
        t
    } else {
        s
    }
}

/// Histogram of (query, id kind, cached shape, direct shape) over all comparisons.
static QUERY_HIST: Mutex<BTreeMap<String, u64>> = Mutex::new(BTreeMap::new());
static COMPARISONS: AtomicU64 = AtomicU64::new(0);
static CHECKED_STEPS: AtomicU64 = AtomicU64::new(0);

struct Cmp<'a> {
    hist: BTreeMap<String, u64>,
    violations: Vec<Violation>,
    comparisons: u64,
    ctx: &'a str,
    /// Set while comparing the queries of a type whose cache *content* (the rows, observed through
    /// `list`) already differs from the objects in the repository: that difference is reported once,
    /// under the `list` fingerprint; what the other queries answer then follows from it.
    content_differs: bool,
}

/// Identifier kinds folded for fingerprints (the exact kind stays in the description).
fn kind_class(kind: &str) -> &str {
    match kind {
        "revision-comment" | "review-comment" | "issue-comment" => "comment",
        "redacted-revision-comment" | "redacted-review-comment" | "redacted-issue-comment" => "redacted-comment",
        k => k,
    }
}

impl Cmp<'_> {
    /// `fpq`: query name as used in the fingerprint; `query`: exact query (with status) for humans.
    #[allow(clippy::too_many_arguments)]
    fn record(&mut self, fpq: &str, query: &str, kind: &str, cs: &str, ds: &str, agree: bool, id: Option<&git::Oid>, cached: String, direct: String) -> bool {
        self.comparisons += 1;
        let verdict = match (agree, self.content_differs) {
            (true, _) => "",
            (false, false) => " MISMATCH",
            (false, true) => " MISMATCH(follows from differing cache content)",
        };
        *self.hist.entry(format!("{query}[{kind}] cached={cs} direct={ds}{verdict}")).or_insert(0) += 1;
        if !agree && !self.content_differs {
            let fp = format!("C09/{fpq}/{}/cached={cs}/direct={ds}", kind_class(kind));
            let what = format!(
                "{query}{}: the cache answers {cs}, direct evaluation answers {ds} (after {})",
                id.map(|i| format!(" with the {kind} id {i}")).unwrap_or_default(),
                self.ctx
            );
            self.violations.push(Violation::new(fp, what, json!({"query": query, "id": id.map(|i| i.to_string()), "id_kind": kind, "cached": clip(cached), "direct": clip(direct)})));
        }
        agree
    }

    fn scalar<T: PartialEq + Debug>(&mut self, query: &str, kind: &str, id: Option<&git::Oid>, c: &Obs<T>, d: &Obs<T>, shape: impl Fn(&T) -> String) {
        let sh = |o: &Obs<T>| match o {
            Obs::Ok(v) => format!("Ok({})", shape(v)),
            Obs::Err(_) => "Err".to_string(),
            Obs::Panic(file, _) => format!("Panic@{file}"),
        };
        let (mut cs, mut ds) = (sh(c), sh(d));
        let agree = match (c, d) {
            (Obs::Ok(a), Obs::Ok(b)) => {
                if a != b && cs == ds {
                    cs = format!("{},payload-A)", cs.trim_end_matches(')'));
                    ds = format!("{},payload-B)", ds.trim_end_matches(')'));
                }
                a == b
            }
            (Obs::Err(_), Obs::Err(_)) => true,
            (Obs::Panic(..), Obs::Panic(..)) => true,
            _ => false,
        };
        self.record(query, query, kind, &cs, &ds, agree, id, format!("{c:?}"), format!("{d:?}"));
    }

    fn items<I: Ord + Copy + Debug + Display, T: PartialEq + Debug>(&mut self, fpq: &str, query: &str, c: &Items<I, T>, d: &Items<I, T>) -> bool {
        match (c, d) {
            (Obs::Ok(a), Obs::Ok(b)) => {
                let index = |v: &Vec<Result<(I, T), String>>| -> (BTreeSet<I>, usize) {
                    (v.iter().filter_map(|r| r.as_ref().ok().map(|(i, _)| *i)).collect(), v.iter().filter(|r| r.is_err()).count())
                };
                let ((ia, ea), (ib, eb)) = (index(a), index(b));
                let find = |v: &Vec<Result<(I, T), String>>, id: &I| -> Vec<usize> {
                    v.iter().enumerate().filter(|(_, r)| matches!(r, Ok((i, _)) if i == id)).map(|(k, _)| k).collect()
                };
                let mut rel = vec![];
                if ia.difference(&ib).next().is_some() {
                    rel.push("cached-has-extra-objects");
                }
                if ib.difference(&ia).next().is_some() {
                    rel.push("cached-misses-objects");
                }
                if ea != eb {
                    rel.push("item-errors-differ");
                }
                let mut dup = false;
                let mut payload = false;
                for id in ia.intersection(&ib) {
                    let (ka, kb) = (find(a, id), find(b, id));
                    if ka.len() != 1 || kb.len() != 1 {
                        dup = true;
                    } else if a[ka[0]].as_ref().ok().map(|x| &x.1) != b[kb[0]].as_ref().ok().map(|x| &x.1) {
                        payload = true;
                    }
                }
                if dup {
                    rel.push("duplicate-rows");
                }
                if payload {
                    rel.push("payload-differs");
                }
                let agree = rel.is_empty();
                let order_same = a.iter().filter_map(|r| r.as_ref().ok().map(|x| x.0)).eq(b.iter().filter_map(|r| r.as_ref().ok().map(|x| x.0)));
                let n = |k: usize| match k {
                    0 => "0",
                    1 => "1",
                    _ => "2+",
                };
                let cs = if agree { format!("Ok(n={}{})", n(a.len()), if order_same { "" } else { ",other-order" }) } else { format!("Ok({})", rel.join("+")) };
                let ds = if agree { format!("Ok(n={})", n(b.len())) } else { "Ok".to_string() };
                let ids = |v: &Vec<Result<(I, T), String>>| format!("{:?}", v.iter().map(|r| r.as_ref().map(|x| x.0.to_string()).map_err(|e| e.clone())).collect::<Vec<_>>());
                self.record(fpq, query, "-", &cs, &ds, agree, None, ids(a), ids(b))
            }
            _ => {
                let sh = |o: &Items<I, T>| match o {
                    Obs::Ok(_) => "Ok".to_string(),
                    Obs::Err(_) => "Err".to_string(),
                    Obs::Panic(file, _) => format!("Panic@{file}"),
                };
                let agree = matches!((c, d), (Obs::Err(_), Obs::Err(_)) | (Obs::Panic(..), Obs::Panic(..)));
                self.record(fpq, query, "-", &sh(c), &sh(d), agree, None, format!("{c:?}"), format!("{d:?}"))
            }
        }
    }
}

// ---------------------------------------------------------------------------------------------
// The system under exploration
// ---------------------------------------------------------------------------------------------

struct Sys {
    dir: PathBuf,
    repo: Repository,
    db: StoreWriter,
    alice: Signer,
    bob: Signer,
    /// Patch / issue slots in order of creation.
    patches: Vec<PatchId>,
    issues: Vec<IssueId>,
    /// Every identifier that has ever existed, with its (current) kind.
    ids: BTreeMap<git::Oid, &'static str>,
    hist: Vec<Ev>,
}

impl Drop for Sys {
    fn drop(&mut self) {
        let _ = std::fs::remove_dir_all(&self.dir);
    }
}

static CHECK_ALL: AtomicBool = AtomicBool::new(false);
/// Debug aid (`C09_NO_COMPARE=1`): count states / transitions only; such a run never gives a verdict.
static NO_COMPARE: AtomicBool = AtomicBool::new(false);
static CHECKED: Mutex<Option<HashSet<u128>>> = Mutex::new(None);
static MAKE_NS: AtomicU64 = AtomicU64::new(0);
static MAKES: AtomicU64 = AtomicU64::new(0);
static OP_NS: AtomicU64 = AtomicU64::new(0);
static OPS: AtomicU64 = AtomicU64::new(0);
static CHECK_NS: AtomicU64 = AtomicU64::new(0);

fn no_embeds() -> Vec<Embed<Uri>> {
    vec![]
}

type OpResult = Result<String, String>;

impl Sys {
    fn new() -> Sys {
        let t0 = Instant::now();
        let t = tpl();
        let dir = t.root.join(format!("s{}", DIR_SEQ.fetch_add(1, Ordering::Relaxed)));
        let path = dir.join(t.rid.canonical());
        copy_repo(&t.repo_path, &path);
        let repo = Repository::open(&path, t.rid).unwrap_or_else(|e| machinery(&format!("cannot open copied repository: {e}")));
        let db = cache::Store::<cache::Write>::memory()
            .and_then(|s| s.with_migrations(cache::migrate::ignore))
            .unwrap_or_else(|e| machinery(&format!("cannot create in-memory COB cache: {e}")));
        let mut ids = BTreeMap::new();
        ids.insert(git::Oid::from_str(UNKNOWN_ID).unwrap(), "unknown");
        let s = Sys { dir, repo, db, alice: Device::mock_from_seed(ALICE_SEED), bob: Device::mock_from_seed(BOB_SEED), patches: vec![], issues: vec![], ids, hist: vec![] };
        MAKE_NS.fetch_add(t0.elapsed().as_nanos() as u64, Ordering::Relaxed);
        MAKES.fetch_add(1, Ordering::Relaxed);
        s
    }

    fn signer(&self, via: Via) -> &Signer {
        match via {
            Via::Local => &self.alice,
            Via::Fetched => &self.bob,
        }
    }

    fn cached_patches(&self) -> patch::Cache<patch::Patches<'_, Repository>, StoreWriter> {
        let store = patch::Patches::open(&self.repo).unwrap_or_else(|e| machinery(&format!("Patches::open: {e}")));
        patch::Cache::open(store, self.db.clone())
    }

    fn direct_patches(&self) -> patch::Cache<patch::Patches<'_, Repository>, NoCache> {
        patch::Cache::no_cache(&self.repo).unwrap_or_else(|e| machinery(&format!("patch::Cache::no_cache: {e}")))
    }

    fn cached_issues(&self) -> issue::Cache<issue::Issues<'_, Repository>, StoreWriter> {
        let store = issue::Issues::open(&self.repo).unwrap_or_else(|e| machinery(&format!("Issues::open: {e}")));
        issue::Cache::open(store, self.db.clone())
    }

    fn direct_issues(&self) -> issue::Cache<issue::Issues<'_, Repository>, NoCache> {
        issue::Cache::no_cache(&self.repo).unwrap_or_else(|e| machinery(&format!("issue::Cache::no_cache: {e}")))
    }

    /// Direct evaluation of a patch slot (drives enabledness and target selection only).
    fn patch_now(&self, slot: u8) -> Option<(PatchId, Patch)> {
        let id = *self.patches.get(slot as usize)?;
        match PatchesQ::get(&self.direct_patches(), &id) {
            Ok(p) => p.map(|p| (id, p)),
            Err(e) => machinery(&format!("direct evaluation of patch {id} failed: {e}")),
        }
    }

    fn issue_now(&self, slot: u8) -> Option<(IssueId, Issue)> {
        let id = *self.issues.get(slot as usize)?;
        match IssuesQ::get(&self.direct_issues(), &id) {
            Ok(p) => p.map(|p| (id, p)),
            Err(e) => machinery(&format!("direct evaluation of issue {id} failed: {e}")),
        }
    }

    fn has_ref(&self, who: &PublicKey, type_name: &cob::TypeName, id: &ObjectId) -> bool {
        let name = git::refs::storage::cob(who, type_name, id);
        self.repo.raw().find_reference(name.as_str()).is_ok()
    }

    // -- the node's post-fetch path (radicle-node/src/worker/fetch.rs: cache_cobs) ------------

    /// Transcription of `cache_cobs`: for each updated ref that names a COB, `update_or_remove`.
    fn cache_cobs(&self, refs: &[git::RefString]) -> Result<Vec<&'static str>, String> {
        let rid = self.repo.id();
        let mut cache = self.db.clone();
        let mut issues = cob::store::Store::<Issue, _>::open(&self.repo).map_err(|e| e.to_string())?;
        let mut patches = cob::store::Store::<Patch, _>::open(&self.repo).map_err(|e| e.to_string())?;
        let mut branches = vec![];
        for name in refs {
            match name.to_namespaced() {
                Some(name) => {
                    let Some(identifier) = TypedId::from_namespaced(&name).map_err(|e| e.to_string())? else {
                        continue;
                    };
                    if identifier.is_issue() {
                        branches.push(update_or_remove(&mut issues, &mut cache, &rid, identifier)?);
                    } else if identifier.is_patch() {
                        branches.push(update_or_remove(&mut patches, &mut cache, &rid, identifier)?);
                    } else {
                        // Unknown COB, don't cache.
                        continue;
                    }
                }
                None => continue,
            }
        }
        Ok(branches)
    }

    /// The remote peer's ref of this object was created / updated / deleted by a fetch.
    fn fetched(&self, type_name: &cob::TypeName, id: &ObjectId) -> OpResult {
        let name = git::refs::storage::cob(self.bob.public_key(), type_name, id);
        let name = git::RefString::try_from(name.as_str().to_owned()).map_err(|e| e.to_string())?;
        let branches = self.cache_cobs(&[name])?;
        if branches.len() != 1 {
            machinery(&format!("cache_cobs transcription did not recognise the COB ref of {type_name}/{id}"));
        }
        Ok(format!("ok,{}", branches[0]))
    }

    // -- operations --------------------------------------------------------------------------

    fn note(&mut self, id: impl Into<git::Oid>, kind: &'static str) {
        self.ids.insert(id.into(), kind);
    }

    fn create_patch(&mut self, via: Via, draft: bool) -> OpResult {
        let t = tpl();
        let title = format!("P{}", self.patches.len());
        let id = match via {
            Via::Local => {
                let mut c = self.cached_patches();
                let r = if draft {
                    c.draft(&title, "patch description", MergeTarget::Delegates, t.base, t.head, &[], &self.alice)
                } else {
                    c.create(&title, "patch description", MergeTarget::Delegates, t.base, t.head, &[], &self.alice)
                };
                r.map(|pm| pm.id).map_err(|e| e.to_string())?
            }
            Via::Fetched => {
                let mut c = self.direct_patches();
                let r = c.create(&title, "patch description", MergeTarget::Delegates, t.base, t.head, &[], &self.bob);
                r.map(|pm| pm.id).map_err(|e| e.to_string())?
            }
        };
        self.patches.push(id);
        self.note(*id, "patch");
        match via {
            Via::Local => Ok("ok".into()),
            Via::Fetched => self.fetched(&patch::TYPENAME, &id),
        }
    }

    fn patch_op(&mut self, via: Via, slot: u8, ev: &Ev) -> OpResult {
        let Some((id, cur)) = self.patch_now(slot) else { return Err("no-such-object".into()) };
        let me = self.signer(via).clone();
        let mut label = "ok".to_string();
        let notes = match via {
            Via::Local => {
                let mut c = self.cached_patches();
                let mut pm = c.get_mut(&id).map_err(|e| format!("get_mut: {e}"))?;
                apply_patch_op(&mut pm, &cur, ev, &me)?
            }
            Via::Fetched => {
                let mut c = self.direct_patches();
                let mut pm = c.get_mut(&id).map_err(|e| format!("get_mut: {e}"))?;
                let n = apply_patch_op(&mut pm, &cur, ev, &me)?;
                drop(pm);
                drop(c);
                for (oid, kind) in &n {
                    self.note(*oid, kind);
                }
                label = self.fetched(&patch::TYPENAME, &id)?;
                n
            }
        };
        for (oid, kind) in notes {
            self.note(oid, kind);
        }
        Ok(label)
    }

    fn remove_patch(&mut self, via: Via, slot: u8) -> OpResult {
        let Some(id) = self.patches.get(slot as usize).copied() else { return Err("no-such-object".into()) };
        match via {
            Via::Local => {
                self.cached_patches().remove(&id, &self.alice).map_err(|e| e.to_string())?;
                Ok("ok".into())
            }
            Via::Fetched => {
                self.direct_patches().remove(&id, &self.bob).map_err(|e| e.to_string())?;
                self.fetched(&patch::TYPENAME, &id)
            }
        }
    }

    fn create_issue(&mut self, via: Via) -> OpResult {
        let title = format!("I{}", self.issues.len());
        let id = match via {
            Via::Local => {
                let mut c = self.cached_issues();
                let r = c.create(&title, "issue description", &[], &[], no_embeds(), &self.alice);
                r.map(|im| *im.id()).map_err(|e| e.to_string())?
            }
            Via::Fetched => {
                let mut c = self.direct_issues();
                let r = c.create(&title, "issue description", &[], &[], no_embeds(), &self.bob);
                r.map(|im| *im.id()).map_err(|e| e.to_string())?
            }
        };
        self.issues.push(id);
        self.note(*id, "issue");
        match via {
            Via::Local => Ok("ok".into()),
            Via::Fetched => self.fetched(&issue::TYPENAME, &id),
        }
    }

    fn issue_op(&mut self, via: Via, slot: u8, ev: &Ev) -> OpResult {
        let Some((id, cur)) = self.issue_now(slot) else { return Err("no-such-object".into()) };
        let me = self.signer(via).clone();
        let mut label = "ok".to_string();
        let notes = match via {
            Via::Local => {
                let mut c = self.cached_issues();
                let mut im = c.get_mut(&id).map_err(|e| format!("get_mut: {e}"))?;
                apply_issue_op(&mut im, &cur, ev, &me)?
            }
            Via::Fetched => {
                let mut c = self.direct_issues();
                let mut im = c.get_mut(&id).map_err(|e| format!("get_mut: {e}"))?;
                let n = apply_issue_op(&mut im, &cur, ev, &me)?;
                drop(im);
                drop(c);
                for (oid, kind) in &n {
                    self.note(*oid, kind);
                }
                label = self.fetched(&issue::TYPENAME, &id)?;
                n
            }
        };
        for (oid, kind) in notes {
            self.note(oid, kind);
        }
        Ok(label)
    }

    fn remove_issue(&mut self, via: Via, slot: u8) -> OpResult {
        let Some(id) = self.issues.get(slot as usize).copied() else { return Err("no-such-object".into()) };
        match via {
            Via::Local => {
                self.cached_issues().remove(&id, &self.alice).map_err(|e| e.to_string())?;
                Ok("ok".into())
            }
            Via::Fetched => {
                self.direct_issues().remove(&id, &self.bob).map_err(|e| e.to_string())?;
                self.fetched(&issue::TYPENAME, &id)
            }
        }
    }

    fn apply(&mut self, ev: &Ev) -> OpResult {
        match ev {
            Ev::PatchCreate(v) => self.create_patch(*v, false),
            Ev::PatchDraft => self.create_patch(Via::Local, true),
            Ev::Revision(v, p) | Ev::Review(v, p) | Ev::RevComment(v, p) => self.patch_op(*v, *p, ev),
            Ev::ReviewComment(p) | Ev::RedactRevision(p) | Ev::RedactReview(p) | Ev::RedactComment(p) | Ev::Lifecycle(p, _) | Ev::Merge(p) => self.patch_op(Via::Local, *p, ev),
            Ev::PatchRemove(v, p) => self.remove_patch(*v, *p),
            Ev::IssueCreate(v) => self.create_issue(*v),
            Ev::IssueComment(v, i) => self.issue_op(*v, *i, ev),
            Ev::IssueClose(i, _) | Ev::IssueReopen(i) | Ev::IssueLabel(i) | Ev::IssueRedactComment(i) => self.issue_op(Via::Local, *i, ev),
            Ev::IssueRemove(v, i) => self.remove_issue(*v, *i),
        }
    }

    // -- the oracle --------------------------------------------------------------------------

    fn compare(&self, after: &str) -> Vec<Violation> {
        let ids: Vec<git::Oid> = self.ids.keys().copied().collect();
        let kinds: Vec<&'static str> = self.ids.values().copied().collect();
        let mut cmp = Cmp { hist: BTreeMap::new(), violations: vec![], comparisons: 0, ctx: after, content_differs: false };

        let pc = observe_patches(&self.cached_patches(), &ids);
        let pd = observe_patches(&self.direct_patches(), &ids);
        let opt = |o: &Option<Patch>| if o.is_some() { "Some".to_string() } else { "None".to_string() };
        let optr = |o: &Option<ByRevision>| if o.is_some() { "Some".to_string() } else { "None".to_string() };
        cmp.content_differs = !cmp.items("patch.list", "patch.list", &pc.list, &pd.list);
        for (k, id) in ids.iter().enumerate() {
            cmp.scalar("patch.get", kinds[k], Some(id), &pc.get[k], &pd.get[k], opt);
            cmp.scalar("patch.find_by_revision", kinds[k], Some(id), &pc.find[k], &pd.find[k], optr);
        }
        for (k, s) in PATCH_STATUSES.iter().enumerate() {
            cmp.items("patch.list_by_status", &format!("patch.list_by_status({s})"), &pc.by_status[k], &pd.by_status[k]);
        }
        cmp.scalar("patch.counts", "-", None, &pc.counts, &pd.counts, |c| if c.total() == 0 { "zero".into() } else { "nonzero".into() });
        cmp.scalar("patch.is_empty", "-", None, &pc.empty, &pd.empty, |b| b.to_string());

        let ic = observe_issues(&self.cached_issues(), &ids);
        let id_ = observe_issues(&self.direct_issues(), &ids);
        let opti = |o: &Option<Issue>| if o.is_some() { "Some".to_string() } else { "None".to_string() };
        cmp.content_differs = !cmp.items("issue.list", "issue.list", &ic.list, &id_.list);
        for (k, id) in ids.iter().enumerate() {
            cmp.scalar("issue.get", kinds[k], Some(id), &ic.get[k], &id_.get[k], opti);
        }
        for (k, s) in issue_statuses().iter().enumerate() {
            let fpq = if *s == issue::State::Open { "issue.list_by_status(open)" } else { "issue.list_by_status(closed:reason)" };
            cmp.items(fpq, &format!("issue.list_by_status({})", status_name(s)), &ic.by_status[k], &id_.by_status[k]);
        }
        cmp.scalar("issue.counts", "-", None, &ic.counts, &id_.counts, |c| if c.total() == 0 { "zero".into() } else { "nonzero".into() });
        cmp.scalar("issue.is_empty", "-", None, &ic.empty, &id_.empty, |b| b.to_string());

        let mut g = QUERY_HIST.lock().unwrap();
        for (k, v) in cmp.hist {
            *g.entry(k).or_insert(0) += v;
        }
        COMPARISONS.fetch_add(cmp.comparisons, Ordering::Relaxed);
        CHECKED_STEPS.fetch_add(1, Ordering::Relaxed);
        cmp.violations
    }

    /// Is this the first time the current history is executed in this process? (Replays of stored
    /// histories re-apply the operations but do not repeat the comparison.)
    fn first_execution(&self) -> bool {
        if CHECK_ALL.load(Ordering::Relaxed) {
            return true;
        }
        let key = mcx::hash128(serde_json::to_string(&self.hist).unwrap().as_bytes());
        CHECKED.lock().unwrap().get_or_insert_with(HashSet::new).insert(key)
    }
}

/// Transcription of `update_or_remove` in radicle-node/src/worker/fetch.rs; additionally returns
/// which branch was taken (for the outcome histogram).
fn update_or_remove<R, C, T>(store: &mut cob::store::Store<T, R>, cache: &mut C, rid: &RepoId, tid: TypedId) -> Result<&'static str, String>
where
    R: cob::Store + ReadRepository,
    T: cob::Evaluate<R> + cob::store::Cob + cob::store::CobWithType,
    T::Action: Serialize,
    C: cache::Update<T> + cache::Remove<T>,
{
    let branch = match store.get(&tid.id) {
        Ok(Some(obj)) => {
            // Object loaded correctly, update cache.
            return cache.update(rid, &tid.id, &obj).map(|_| "cache-update").map_err(|e| format!("cache update {tid}: {e}"));
        }
        // Object was not found. Fall-through.
        Ok(None) => "cache-remove",
        // Object was found, but failed to load. Fall-through.
        Err(_) => "cache-remove(load-error)",
    };
    // The object has either been removed entirely from the repository, or it failed to load.
    cache::Remove::<T>::remove(cache, &tid.id).map(|_| branch).map_err(|e| format!("cache remove {tid}: {e}"))
}

type Notes = Vec<(git::Oid, &'static str)>;

fn rev_oid(r: RevisionId) -> git::Oid {
    git::Oid::from_str(&r.to_string()).expect("a revision id prints as an oid")
}

/// The newest live (not redacted) revision of a patch, by any author.
fn newest(p: &Patch) -> (RevisionId, &patch::Revision) {
    p.revisions().next_back().expect("the root revision cannot be redacted")
}

fn apply_patch_op<C>(pm: &mut patch::PatchMut<'_, '_, Repository, C>, cur: &Patch, ev: &Ev, me: &Signer) -> Result<Notes, String>
where
    C: cache::Update<Patch>,
{
    let t = tpl();
    let pk = me.public_key();
    let (rev_id, rev) = newest(cur);
    let e = |e: patch::Error| e.to_string();
    Ok(match ev {
        Ev::Revision(..) => {
            let r = pm.update("another revision", t.base, t.head, me).map_err(e)?;
            vec![(rev_oid(r), "revision")]
        }
        Ev::Review(..) => {
            let r = pm.review(rev_id, Some(Verdict::Accept), Some("lgtm".to_string()), vec![], me).map_err(e)?;
            vec![(*r, "review")]
        }
        Ev::RevComment(..) => {
            let c = pm.thread(rev_id, "a comment", me).map_err(e)?;
            vec![(c, "revision-comment")]
        }
        Ev::ReviewComment(_) => {
            let review = rev.review_by(pk).or_else(|| rev.reviews().next().map(|(_, r)| r)).ok_or("no-target")?;
            let c = pm.review_comment(review.id(), "a review comment", None, None, no_embeds(), me).map_err(e)?;
            vec![(c, "review-comment")]
        }
        Ev::RedactRevision(_) => {
            let (root, _) = cur.root();
            let (target, _) = cur.revisions().filter(|(id, r)| *id != root && r.author().public_key() == pk).next_back().ok_or("no-target")?;
            pm.redact(target, me).map_err(e)?;
            vec![(rev_oid(target), "redacted-revision")]
        }
        Ev::RedactReview(_) => {
            let review = rev.review_by(pk).ok_or("no-target")?.id();
            pm.redact_review(review, me).map_err(e)?;
            vec![(*review, "redacted-review")]
        }
        Ev::RedactComment(_) => {
            let (cid, _) = rev.discussion().comments().filter(|(_, c)| c.author() == *pk).next_back().ok_or("no-target")?;
            let cid = *cid;
            pm.comment_redact(rev_id, cid, me).map_err(e)?;
            vec![(cid, "redacted-revision-comment")]
        }
        Ev::Lifecycle(_, lc) => {
            let lc = match lc {
                Lc::Open => Lifecycle::Open,
                Lc::Draft => Lifecycle::Draft,
                Lc::Archived => Lifecycle::Archived,
            };
            pm.lifecycle(lc, me).map_err(e)?;
            vec![]
        }
        Ev::Merge(_) => {
            pm.merge(rev_id, t.head, me).map(|_| ()).map_err(e)?;
            vec![]
        }
        other => machinery(&format!("not a patch operation: {other:?}")),
    })
}

fn apply_issue_op<C>(im: &mut issue::IssueMut<'_, '_, Repository, C>, cur: &Issue, ev: &Ev, me: &Signer) -> Result<Notes, String>
where
    C: cache::Update<Issue>,
{
    let pk = me.public_key();
    let e = |e: issue::Error| e.to_string();
    let (root, _) = cur.root();
    let root = *root;
    Ok(match ev {
        Ev::IssueComment(..) => {
            let c = im.comment("an issue comment", root, no_embeds(), me).map_err(e)?;
            vec![(c, "issue-comment")]
        }
        Ev::IssueClose(_, why) => {
            let reason = match why {
                Why::Solved => CloseReason::Solved,
                Why::Other => CloseReason::Other,
            };
            im.lifecycle(issue::State::Closed { reason }, me).map_err(e)?;
            vec![]
        }
        Ev::IssueReopen(_) => {
            im.lifecycle(issue::State::Open, me).map_err(e)?;
            vec![]
        }
        Ev::IssueLabel(_) => {
            let labels: Vec<Label> = if cur.labels().next().is_none() { vec![Label::new("bug").unwrap()] } else { vec![] };
            im.label(labels, me).map_err(e)?;
            vec![]
        }
        Ev::IssueRedactComment(_) => {
            let (cid, _) = cur.comments().filter(|(id, c)| **id != root && c.author() == *pk).last().ok_or("no-target")?;
            let cid = *cid;
            im.redact_comment(cid, me).map_err(e)?;
            vec![(cid, "redacted-issue-comment")]
        }
        other => machinery(&format!("not an issue operation: {other:?}")),
    })
}

impl System for Sys {
    type Ev = Ev;

    fn enabled(&self) -> Vec<Ev> {
        let caps = caps();
        let (a, b) = (*self.alice.public_key(), *self.bob.public_key());
        let mut evs = vec![];
        if self.patches.len() < caps.patches {
            evs.extend([Ev::PatchCreate(Via::Local), Ev::PatchDraft, Ev::PatchCreate(Via::Fetched)]);
        }
        if self.issues.len() < caps.issues {
            evs.extend([Ev::IssueCreate(Via::Local), Ev::IssueCreate(Via::Fetched)]);
        }
        for slot in 0..self.patches.len() as u8 {
            let id = self.patches[slot as usize];
            if let Some((_, p)) = self.patch_now(slot) {
                let (root, _) = p.root();
                let (_, rev) = newest(&p);
                let n_revs = p.version() + 1; // redacted ones included
                let merged = p.is_merged();
                for (via, pk) in [(Via::Local, &a), (Via::Fetched, &b)] {
                    if n_revs < caps.revisions {
                        evs.push(Ev::Revision(via, slot));
                    }
                    if rev.review_by(pk).is_none() {
                        evs.push(Ev::Review(via, slot));
                    }
                    if rev.discussion().len() < caps.rev_comments {
                        evs.push(Ev::RevComment(via, slot));
                    }
                }
                if let Some(review) = rev.review_by(&a).or_else(|| rev.reviews().next().map(|(_, r)| r)) {
                    if review.comments().count() < caps.review_comments {
                        evs.push(Ev::ReviewComment(slot));
                    }
                }
                if p.revisions().any(|(id, r)| id != root && r.author().public_key() == &a) {
                    evs.push(Ev::RedactRevision(slot));
                }
                if rev.review_by(&a).is_some() {
                    evs.push(Ev::RedactReview(slot));
                }
                if rev.discussion().comments().any(|(_, c)| c.author() == a) {
                    evs.push(Ev::RedactComment(slot));
                }
                if !merged {
                    let now = Status::from(p.state());
                    for (lc, st) in [(Lc::Open, Status::Open), (Lc::Draft, Status::Draft), (Lc::Archived, Status::Archived)] {
                        if now != st {
                            evs.push(Ev::Lifecycle(slot, lc));
                        }
                    }
                    evs.push(Ev::Merge(slot));
                }
            }
            if self.has_ref(&a, &patch::TYPENAME, &id) {
                evs.push(Ev::PatchRemove(Via::Local, slot));
            }
            if self.has_ref(&b, &patch::TYPENAME, &id) {
                evs.push(Ev::PatchRemove(Via::Fetched, slot));
            }
        }
        for slot in 0..self.issues.len() as u8 {
            let id = self.issues[slot as usize];
            if let Some((_, i)) = self.issue_now(slot) {
                let (root, _) = i.root();
                if i.thread().len() < caps.issue_comments {
                    evs.push(Ev::IssueComment(Via::Local, slot));
                    evs.push(Ev::IssueComment(Via::Fetched, slot));
                }
                match i.state() {
                    issue::State::Open => {
                        evs.push(Ev::IssueClose(slot, Why::Solved));
                        evs.push(Ev::IssueClose(slot, Why::Other));
                    }
                    issue::State::Closed { reason } => {
                        evs.push(Ev::IssueReopen(slot));
                        evs.push(Ev::IssueClose(slot, if *reason == CloseReason::Solved { Why::Other } else { Why::Solved }));
                    }
                }
                evs.push(Ev::IssueLabel(slot));
                if i.comments().any(|(id, c)| id != root && c.author() == a) {
                    evs.push(Ev::IssueRedactComment(slot));
                }
            }
            if self.has_ref(&a, &issue::TYPENAME, &id) {
                evs.push(Ev::IssueRemove(Via::Local, slot));
            }
            if self.has_ref(&b, &issue::TYPENAME, &id) {
                evs.push(Ev::IssueRemove(Via::Fetched, slot));
            }
        }
        evs
    }

    /// Departures from the base scenario (one local patch, one local issue, local operations):
    /// every fetched operation and every creation of a second object of a type.
    fn is_deviation(&self, ev: &Ev) -> bool {
        match ev {
            Ev::PatchCreate(Via::Fetched) | Ev::IssueCreate(Via::Fetched) => true,
            Ev::Revision(Via::Fetched, _) | Ev::Review(Via::Fetched, _) | Ev::RevComment(Via::Fetched, _) => true,
            Ev::PatchRemove(Via::Fetched, _) | Ev::IssueComment(Via::Fetched, _) | Ev::IssueRemove(Via::Fetched, _) => true,
            Ev::PatchCreate(Via::Local) | Ev::PatchDraft => !self.patches.is_empty(),
            Ev::IssueCreate(Via::Local) => !self.issues.is_empty(),
            _ => false,
        }
    }

    fn step(&mut self, ev: &Ev) -> StepOut {
        let t0 = Instant::now();
        self.hist.push(ev.clone());
        let first_time = self.first_execution();
        // A panic of the code under test while applying an operation propagates to the engine
        // (violation with the panic site); panics inside queries are observations (see `guard`).
        let res = self.apply(ev);
        OP_NS.fetch_add(t0.elapsed().as_nanos() as u64, Ordering::Relaxed);
        OPS.fetch_add(1, Ordering::Relaxed);
        let label = match &res {
            Ok(s) => format!("{}:{s}", ev.name()),
            Err(e) => {
                let class: String = e.split(|c: char| c == ':' || c == '`').next().unwrap_or("").trim().chars().take(40).collect();
                format!("{}:failed({class})", ev.name())
            }
        };
        let mut out = StepOut::ok(label);
        if first_time && !NO_COMPARE.load(Ordering::Relaxed) {
            let t1 = Instant::now();
            out.violations = self.compare(&ev.name());
            CHECK_NS.fetch_add(t1.elapsed().as_nanos() as u64, Ordering::Relaxed);
        }
        if res.is_err() {
            // A refused operation wrote nothing: the engine sees an unchanged canonical key and
            // may hand this very object to the next event of the same node, so the refused
            // event must not stay in the history that identifies later executions.
            self.hist.pop();
        }
        out
    }

    fn canon(&self) -> Vec<u8> {
        let mut out = String::new();
        // 1. Every COB ref of every namespace (the repository state the queries can see).
        let mut refs: Vec<(String, String)> = vec![];
        let raw = self.repo.raw();
        for r in raw.references().unwrap_or_else(|e| machinery(&format!("references: {e}"))) {
            let r = r.unwrap_or_else(|e| machinery(&format!("reference: {e}")));
            if let (Some(name), Some(target)) = (r.name(), r.target()) {
                if name.contains("/refs/cobs/") {
                    refs.push((name.to_string(), target.to_string()));
                }
            }
        }
        refs.sort();
        for (n, t) in refs {
            out.push_str(&format!("{n}={t}\n"));
        }
        // 2. Every row of the cache.
        let rows = self.db.raw_query(|conn| -> Result<Vec<String>, sqlite::Error> {
            let mut rows = vec![];
            for (table, col) in [("patches", "patch"), ("issues", "issue")] {
                let stmt = conn.prepare(format!("SELECT id, repo, {col} AS body FROM {table} ORDER BY repo, id"))?;
                for row in stmt.into_iter() {
                    let row = row?;
                    rows.push(format!("{table}|{}|{}|{}", row.read::<&str, _>("id"), row.read::<&str, _>("repo"), row.read::<&str, _>("body")));
                }
            }
            Ok(rows)
        });
        for r in rows.unwrap_or_else(|e| machinery(&format!("cannot dump cache: {e}"))) {
            out.push_str(&r);
            out.push('\n');
        }
        // 3. Bookkeeping that decides what future events mean and which ids are queried.
        out.push_str(&format!("{:?}|{:?}|{:?}", self.patches, self.issues, self.ids));
        out.into_bytes()
    }
}

fn main() {
    // Deterministic commit ids: every commit written by the repository code reads these.
    std::env::set_var("GIT_COMMITTER_DATE", FIXED_TIME);
    std::env::set_var("GIT_AUTHOR_DATE", FIXED_TIME);
    std::env::set_var("RAD_COMMIT_TIME", FIXED_TIME);
    std::env::set_var("RAD_LOCAL_TIME", FIXED_TIME);
    let ctx = Ctx::from_env("C09", "model_checking");
    let thorough = ctx.tier == mcx::Tier::Thorough;
    if std::env::var_os("C09_CHECK_ALL").is_some() || ctx.replay.is_some() {
        CHECK_ALL.store(true, Ordering::Relaxed);
    }
    if std::env::var_os("C09_NO_COMPARE").is_some() {
        NO_COMPARE.store(true, Ordering::Relaxed);
    }
    let envn = |k: &str| std::env::var(k).ok().and_then(|s| s.parse::<usize>().ok());
    let depth: usize = envn("C09_DEPTH").unwrap_or(if thorough { 5 } else { 4 });
    let devs: usize = envn("C09_DEVS").unwrap_or(1);
    let caps = Caps { patches: 2, issues: 2, revisions: 3, rev_comments: 2, review_comments: 1, issue_comments: 3 };
    let _ = CAPS.set(caps);

    let t0 = Instant::now();
    let template = build_template();
    let root = template.root.clone();
    let _ = TEMPLATE.set(template);
    let template_ms = t0.elapsed().as_millis();
    let cleanup = || {
        let _ = std::fs::remove_dir_all(&root);
    };

    if let Some(w) = ctx.replay_witness() {
        let vs = explore::replay("C09", Sys::new, &w);
        let want = w.get("detail").cloned().unwrap_or(Value::Null);
        // Report the violation the witness names first (a step can carry several).
        let mut vs: Vec<Violation> = vs;
        vs.sort_by_key(|v| (v.witness.get("query") != want.get("query") || v.witness.get("id") != want.get("id")) as u8);
        cleanup();
        ctx.finish_replay(vs);
    }

    // Thorough runs two explorations over the same alphabet: first every history of length <= 4
    // with no deviation limit (the whole alphabet), then length <= `depth` with at most `devs`
    // deviations. Histories already compared in the first pass are only re-applied in the second.
    let mut first_pass: Option<serde_json::Map<String, Value>> = None;
    let mut carried = mcx::report::Violations::default();
    let mut first_exhaustive = true;
    if thorough && std::env::var_os("C09_SINGLE_PASS").is_none() {
        let d0 = depth.min(4);
        let r0 = explore::explore("C09", Sys::new, Bounds::new(d0, d0).wall_secs(120));
        let mut m = serde_json::Map::new();
        m.insert("bounds".into(), json!({"depth": d0, "deviation_budget": "unlimited"}));
        m.insert("states".into(), json!(r0.states));
        m.insert("transitions".into(), json!(r0.transitions));
        m.insert("completed_depth".into(), json!(r0.completed_depth));
        m.insert("exhaustive".into(), json!(r0.exhaustive));
        m.insert("frontier_sizes".into(), json!(r0.frontier_sizes));
        m.insert("outcome_histogram".into(), json!(r0.outcomes));
        m.insert("violating_instances".into(), json!(r0.violations.total()));
        first_exhaustive = r0.exhaustive;
        carried = r0.violations;
        first_pass = Some(m);
    }
    let left = (if thorough { 285u64 } else { 36 }).saturating_sub(ctx.started.elapsed().as_secs()).max(5);
    let mut res = explore::explore("C09", Sys::new, Bounds::new(depth, devs).wall_secs(left));
    cleanup();
    if NO_COMPARE.load(Ordering::Relaxed) {
        eprintln!("C09_NO_COMPARE: states={} transitions={} frontier={:?} outcomes={}", res.states, res.transitions, res.frontier_sizes, res.outcomes.len());
        machinery("comparisons were disabled (C09_NO_COMPARE); this run decides nothing");
    }
    res.violations.merge(carried);
    res.exhaustive &= first_exhaustive;

    let qh = QUERY_HIST.lock().unwrap().clone();
    let mism: BTreeMap<&String, &u64> = qh.iter().filter(|(k, _)| k.ends_with("MISMATCH")).collect();
    let per = |ns: &AtomicU64, n: u64| if n == 0 { 0.0 } else { (ns.load(Ordering::Relaxed) as f64 / n as f64 / 1e4).round() / 100.0 };
    let mut cov = res.coverage(
        "breadth-first over histories of the alphabet, bounded by depth and by a budget of deviations (a deviation is a fetched operation or the creation of a \
         second patch / second issue); thorough first explores depth 4 with no deviation limit (`full_alphabet_pass`). Histories consist of local write-through operations and fetched operations followed by cache_cobs, applied to a real \
         repository copied from one template; a state = (all COB refs of all namespaces, all cache rows, slot and identifier bookkeeping); every distinct \
         history is compared once, right after its last operation, on every query for every identifier ever created plus one unknown id and every status",
    );
    cov.insert("caps".into(), json!({"patches": caps.patches, "issues": caps.issues, "revisions_per_patch": caps.revisions, "comments_per_revision": caps.rev_comments, "comments_per_review": caps.review_comments, "comments_per_issue": caps.issue_comments}));
    if let Some(m) = first_pass {
        cov.insert("full_alphabet_pass".into(), Value::Object(m));
    }
    cov.insert("query_histogram".into(), json!(qh));
    cov.insert("query_mismatch_classes".into(), json!(mism));
    cov.insert("query_comparisons".into(), json!(COMPARISONS.load(Ordering::Relaxed)));
    cov.insert("steps_compared".into(), json!(CHECKED_STEPS.load(Ordering::Relaxed)));
    cov.insert(
        "cost_ms".into(),
        json!({
            "template_build_once": template_ms,
            "fresh_system_copy_of_template": per(&MAKE_NS, MAKES.load(Ordering::Relaxed)),
            "operation_incl_cache_update": per(&OP_NS, OPS.load(Ordering::Relaxed)),
            "comparison_all_queries": per(&CHECK_NS, CHECKED_STEPS.load(Ordering::Relaxed)),
            "fresh_systems": MAKES.load(Ordering::Relaxed),
            "operations_executed": OPS.load(Ordering::Relaxed),
            "wall_ms_per_transition": if res.transitions == 0 { 0.0 } else { (ctx.started.elapsed().as_secs_f64() * 1000.0 / res.transitions as f64 * 100.0).round() / 100.0 },
        }),
    );
    let violations = res.violations;
    ctx.finish(
        cov,
        &[
            "the post-fetch path is a transcription of cache_cobs/update_or_remove of radicle-node/src/worker/fetch.rs (chk-core does not link radicle-node); a change there is not seen by this check",
            "a fetched update is represented by the remote peer's operation written through the uncached store under the peer's namespace of the same repository, followed by cache_cobs on that ref",
            "all commits carry one fixed timestamp (GIT_COMMITTER_DATE), so operations on different objects commute and are merged by the canonical key",
            "lists are compared as sets of (id, object): iteration order is not part of the statement",
            "trusted: git2/libgit2, sqlite (json_tree, ->>), serde_json, PartialEq of Patch/Issue/ByRevision/counts",
        ],
        violations,
    );
}
