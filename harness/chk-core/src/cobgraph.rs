//! Shared machinery of C05 / C06: a real radicle storage with one repository, raw COB changes with
//! harness-chosen parents / timestamps / authors / signatures written through
//! `radicle_cob::change::Storage::store`, namespaced COB refs pointed at chosen changes, and
//! evaluation through `radicle_cob::get`.
//!
//! Nothing in here re-implements code under test: changes are written by the repository's own
//! `store`, loaded and evaluated by the repository's own `get`. The harness only knows the DAG it
//! asked for (indices, parent sets) and the ids `store` returned.
#![allow(dead_code)]

use std::collections::{BTreeMap, BTreeSet, HashMap};

use nonempty::NonEmpty;
use radicle::cob::store::encoding;
use radicle::cob::{identity, issue, patch, thread, ObjectId, TypeName};
use radicle::crypto::test::signer::MockSigner;
use radicle::crypto::{PublicKey, Signature};
use radicle::git::Oid;
use radicle::identity::doc::{Doc, RawDoc};
use radicle::identity::{Did, Project, RepoId, Visibility};
use radicle::node::device::Device;
use radicle::node::Alias;
use radicle::storage::git::{Repository, Storage};
use radicle_cob::change::Storage as _;
use radicle_cob::object::Storage as _;
use radicle_cob::signatures::ExtendedSignature;
use radicle_cob::{CollaborativeObject, Embed};
use radicle_crypto::signature::Signer as SigSigner;
use radicle_crypto::Signer as _;
use serde_json::{json, Value};

/// Base timestamp of every world (seconds).
pub const T0: i64 = 1_700_000_000;

/// Actor indices.
pub const A: usize = 0; // founder, delegate
pub const B: usize = 1; // delegate
pub const C: usize = 2; // delegate
pub const N: usize = 3; // not a delegate

/// A signer that produces a signature which does not verify over the change (it signs other
/// bytes with the right key, so the commit is well-formed and attributed to `key`).
struct BadSigner<'a>(&'a Device<MockSigner>);

impl SigSigner<ExtendedSignature> for BadSigner<'_> {
    fn try_sign(&self, msg: &[u8]) -> Result<ExtendedSignature, radicle_crypto::signature::Error> {
        let mut other = msg.to_vec();
        other.push(0x42);
        let sig: Signature = SigSigner::<Signature>::try_sign(self.0, &other)?;
        Ok(ExtendedSignature { key: *self.0.public_key(), sig })
    }
}

/// What to write as one change.
#[derive(Clone, Debug)]
pub struct ChangeSpec {
    pub ty: TypeName,
    /// Identity commit the change commits to (`None` for identity changes).
    pub resource: Option<Oid>,
    pub parents: Vec<Oid>,
    /// Seconds added to `T0`.
    pub ts: i64,
    pub author: usize,
    pub bad_sig: bool,
    /// One encoded action per blob.
    pub contents: Vec<Vec<u8>>,
    /// `(name, blob)` embeds.
    pub embeds: Vec<(String, Oid)>,
    /// Only purpose: vary the commit id.
    pub salt: u32,
}

pub struct World {
    _tmp: tempfile::TempDir,
    pub storage: Storage,
    pub repo: Repository,
    pub rid: RepoId,
    /// Root commit of the identity COB (= id of the identity object, = `resource` of other COBs).
    pub identity: Oid,
    pub root_doc: Doc,
    pub actors: Vec<Device<MockSigner>>,
    /// Namespace keys sorted by their reference-name order (the enumeration order of
    /// `references_glob`).
    pub namespaces: Vec<PublicKey>,
    memo: HashMap<Vec<u8>, Oid>,
    pub writes: u64,
    pub memo_hits: u64,
}

fn set_time(ts: i64) {
    // Process-global; every caller is single-threaded (sweep::procs worker, replay, or the
    // single-threaded preparation phase).
    std::env::set_var("GIT_COMMITTER_DATE", (T0 + ts).to_string());
}

pub fn actor(i: usize) -> Device<MockSigner> {
    Device::mock_from_seed([0x10 + i as u8; 32])
}

impl World {
    pub fn new(seed: u64, n_namespaces: usize) -> World {
        let tmp = tempfile::Builder::new().prefix("cobdag-").tempdir().expect("tempdir");
        let actors: Vec<_> = (0..4).map(actor).collect();
        set_time(0);
        let storage = Storage::open(
            tmp.path().join("storage"),
            radicle::git::UserInfo { alias: Alias::new("harness"), key: *actors[A].public_key() },
        )
        .expect("storage");
        let project = Project::new(
            "acme".try_into().unwrap(),
            "Acme's repository".to_string(),
            radicle::git::refname!("master"),
        )
        .expect("project");
        let delegates: Vec<Did> = [A, B, C].iter().map(|i| Did::from(*actors[*i].public_key())).collect();
        let root_doc = RawDoc::new(project, delegates, 1, Visibility::Public).verified().expect("doc");
        let (repo, identity) = Repository::init(&root_doc, &storage, &actors[A]).expect("repository init");
        let rid = repo.id;
        // Namespace keys: deterministic, `seed` permutes which keys are used (their order is a
        // dimension that the checks enumerate explicitly).
        let mut namespaces: Vec<PublicKey> = (0..n_namespaces)
            .map(|k| {
                let mut s = [0x80u8; 32];
                s[0] = k as u8;
                s[1..9].copy_from_slice(&seed.to_le_bytes());
                *MockSigner::from_seed(s).public_key()
            })
            .collect();
        namespaces.sort_by_key(|k| k.to_string());
        World {
            _tmp: tmp,
            storage,
            repo,
            rid,
            identity,
            root_doc,
            actors,
            namespaces,
            memo: HashMap::new(),
            writes: 0,
            memo_hits: 0,
        }
    }

    pub fn did(&self, a: usize) -> Did {
        Did::from(*self.actors[a].public_key())
    }

    /// Write a blob (identity documents of proposed revisions).
    pub fn blob(&self, bytes: &[u8]) -> Oid {
        self.repo.backend.blob(bytes).expect("blob").into()
    }

    /// Write one change through `change::Storage::store` (memoised: the same specification was
    /// already written into this repository and has the same id).
    pub fn write(&mut self, spec: &ChangeSpec) -> Oid {
        let key = format!("{spec:?}").into_bytes();
        if let Some(id) = self.memo.get(&key) {
            self.memo_hits += 1;
            return *id;
        }
        set_time(spec.ts);
        let contents = NonEmpty::from_vec(spec.contents.clone()).expect("non-empty change");
        let template = radicle_cob::change::Template {
            type_name: spec.ty.clone(),
            tips: spec.parents.clone(),
            message: format!("harness change salt={}", spec.salt),
            embeds: spec.embeds.iter().map(|(name, content)| Embed { name: name.clone(), content: *content }).collect(),
            contents,
        };
        let signer = &self.actors[spec.author];
        let entry = if spec.bad_sig {
            self.repo.store(spec.resource, vec![], &BadSigner(signer), template)
        } else {
            self.repo.store(spec.resource, vec![], signer, template)
        }
        .expect("store change");
        self.writes += 1;
        self.memo.insert(key, entry.id);
        entry.id
    }

    pub fn ref_name(&self, ns: usize, ty: &TypeName, obj: &ObjectId) -> String {
        radicle::git::refs::storage::cob(&self.namespaces[ns], ty, obj).to_string()
    }

    /// Remove every namespaced ref of the object, then point namespace `ns` at `target` for each
    /// pair (through `object::Storage::update`).
    pub fn present(&self, ty: &TypeName, obj: &ObjectId, refs: &[(usize, Oid)]) {
        self.clear(ty, obj);
        for (ns, target) in refs {
            self.repo.update(&self.namespaces[*ns], ty, obj, target).expect("update ref");
        }
    }

    pub fn clear(&self, ty: &TypeName, obj: &ObjectId) {
        let pattern = radicle::git::refs::storage::cobs(ty, obj);
        let names: Vec<String> = self
            .repo
            .backend
            .references_glob(pattern.as_str())
            .expect("glob")
            .filter_map(|r| r.ok().and_then(|r| r.name().map(|s| s.to_string())))
            .collect();
        for n in names {
            if let Ok(mut r) = self.repo.backend.find_reference(&n) {
                // The identity ref `refs/namespaces/<A>/refs/rad/id` is symbolic to the founder's
                // identity COB ref; nothing in the evaluation path reads it.
                r.delete().expect("delete ref");
            }
        }
    }
}

/// Observation of one evaluation: the object (JSON via its `Serialize`, plus `Debug` for fields
/// that are not serialised) and the complete history graph.
#[derive(Clone, Debug, PartialEq, Eq)]
pub struct Observed {
    pub object: Value,
    pub debug: String,
    /// node -> (parents in the graph, children in the graph)
    pub graph: BTreeMap<Oid, (BTreeSet<Oid>, BTreeSet<Oid>)>,
    pub tips: BTreeSet<Oid>,
    pub manifest: String,
}

impl Observed {
    pub fn nodes(&self) -> BTreeSet<Oid> {
        self.graph.keys().copied().collect()
    }
}

pub fn observe<T: serde::Serialize + std::fmt::Debug>(cob: &CollaborativeObject<T>) -> Observed {
    let h = cob.history();
    let g = h.graph();
    let mut graph = BTreeMap::new();
    for k in g.sorted() {
        let n = g.get(&k).expect("node");
        graph.insert(k, (n.dependencies.clone(), n.dependents.clone()));
    }
    Observed {
        object: serde_json::to_value(cob.object()).expect("object serialises"),
        debug: format!("{:?}", cob.object()),
        graph,
        tips: h.tips(),
        manifest: format!("{:?}", cob.manifest()),
    }
}

/// Result of `cob::get` in comparable form.
#[derive(Clone, Debug, PartialEq, Eq)]
pub enum Eval {
    Object(Box<Observed>),
    Absent,
    Error(String),
}

impl Eval {
    pub fn label(&self) -> &'static str {
        match self {
            Eval::Object(_) => "object",
            Eval::Absent => "absent",
            Eval::Error(_) => "error",
        }
    }
    pub fn observed(&self) -> Option<&Observed> {
        match self {
            Eval::Object(o) => Some(o),
            _ => None,
        }
    }
}

#[derive(Clone, Copy, Debug, PartialEq, Eq, PartialOrd, Ord, serde::Serialize, serde::Deserialize)]
pub enum Kind {
    Issue,
    Patch,
    Thread,
    Identity,
}

pub const KINDS: [Kind; 4] = [Kind::Issue, Kind::Patch, Kind::Thread, Kind::Identity];

impl Kind {
    pub fn name(self) -> &'static str {
        match self {
            Kind::Issue => "issue",
            Kind::Patch => "patch",
            Kind::Thread => "thread",
            Kind::Identity => "identity",
        }
    }
    pub fn type_name(self) -> TypeName {
        match self {
            Kind::Issue => issue::TYPENAME.clone(),
            Kind::Patch => patch::TYPENAME.clone(),
            Kind::Thread => thread::TYPENAME.clone(),
            Kind::Identity => identity::TYPENAME.clone(),
        }
    }
}

fn conv<T: serde::Serialize + std::fmt::Debug>(
    r: Result<Option<CollaborativeObject<T>>, radicle_cob::object::collaboration::error::Retrieve>,
) -> Eval {
    match r {
        Ok(Some(c)) => Eval::Object(Box::new(observe(&c))),
        Ok(None) => Eval::Absent,
        Err(e) => Eval::Error(e.to_string()),
    }
}

/// Evaluate the object through the real `cob::get`.
pub fn eval(w: &World, kind: Kind, obj: &ObjectId) -> Eval {
    let ty = kind.type_name();
    match kind {
        Kind::Issue => conv(radicle_cob::get::<issue::Issue, _>(&w.repo, &ty, obj)),
        Kind::Patch => conv(radicle_cob::get::<patch::Patch, _>(&w.repo, &ty, obj)),
        Kind::Thread => conv(radicle_cob::get::<thread::Thread, _>(&w.repo, &ty, obj)),
        Kind::Identity => conv(radicle_cob::get::<identity::Identity, _>(&w.repo, &ty, obj)),
    }
}

pub fn enc<T: serde::Serialize>(a: &T) -> Vec<u8> {
    encoding::encode(a).expect("encode action")
}

/// An object id that never names a change.
pub fn missing_id() -> Oid {
    "ffffffffffffffffffffffffffffffffffffffff".parse().unwrap()
}

// ------------------------------------------------------------------------------------------------
// DAG family

/// A DAG on nodes `0..=n` (0 = root): `parents[i-1]` is the non-empty bit mask over `0..i` of the
/// parents of node `i`.
#[derive(Clone, Debug, PartialEq, Eq, serde::Serialize, serde::Deserialize)]
pub struct Shape {
    pub parents: Vec<u32>,
}

impl Shape {
    pub fn n(&self) -> usize {
        self.parents.len()
    }
    pub fn count(n: usize) -> u64 {
        (1..=n as u32).map(|i| (1u64 << i) - 1).product()
    }
    /// `idx < count(n)`; last node varies fastest.
    pub fn nth(n: usize, mut idx: u64) -> Shape {
        let mut parents = vec![0u32; n];
        for i in (1..=n).rev() {
            let r = (1u64 << i) - 1;
            parents[i - 1] = (idx % r) as u32 + 1;
            idx /= r;
        }
        Shape { parents }
    }
    pub fn parents_of(&self, i: usize) -> Vec<usize> {
        if i == 0 {
            return vec![];
        }
        (0..i).filter(|p| self.parents[i - 1] & (1 << p) != 0).collect()
    }
    pub fn children_of(&self, p: usize) -> Vec<usize> {
        (p + 1..=self.n()).filter(|c| self.parents[c - 1] & (1 << p) != 0).collect()
    }
    /// Proper descendants.
    pub fn descendants(&self, p: usize) -> BTreeSet<usize> {
        let mut out = BTreeSet::new();
        for c in p + 1..=self.n() {
            if self.parents_of(c).iter().any(|q| *q == p || out.contains(q)) {
                out.insert(c);
            }
        }
        out
    }
    /// Proper ancestors.
    pub fn ancestors(&self, c: usize) -> BTreeSet<usize> {
        let mut out = BTreeSet::new();
        let mut stack = self.parents_of(c);
        while let Some(p) = stack.pop() {
            if out.insert(p) {
                stack.extend(self.parents_of(p));
            }
        }
        out
    }
    /// Tips of the sub-DAG induced by the ancestor-closed node set `keep`.
    pub fn tips_within(&self, keep: &BTreeSet<usize>) -> Vec<usize> {
        keep.iter().copied().filter(|p| !self.children_of(*p).iter().any(|c| keep.contains(c))).collect()
    }
    pub fn tips(&self) -> Vec<usize> {
        (0..=self.n()).filter(|p| self.children_of(*p).is_empty()).collect()
    }
    /// True when some parent edge is implied by another one (parent that is an ancestor of
    /// another parent).
    pub fn has_redundant_edge(&self) -> bool {
        (1..=self.n()).any(|i| {
            let ps = self.parents_of(i);
            ps.iter().any(|p| ps.iter().any(|q| q != p && self.ancestors(*q).contains(p)))
        })
    }
    /// Coarse label for histograms.
    pub fn class(&self) -> String {
        let n = self.n();
        let tips = self.tips().len();
        let merges = (1..=n).filter(|i| self.parents_of(*i).len() > 1).count();
        format!("n{n}/tips{tips}/merges{merges}{}", if self.has_redundant_edge() { "/redundant-edge" } else { "" })
    }
}

/// All permutations of `0..n` in lexicographic order.
pub fn permutations(n: usize) -> Vec<Vec<usize>> {
    fn rec(cur: &mut Vec<usize>, used: &mut Vec<bool>, n: usize, out: &mut Vec<Vec<usize>>) {
        if cur.len() == n {
            out.push(cur.clone());
            return;
        }
        for i in 0..n {
            if !used[i] {
                used[i] = true;
                cur.push(i);
                rec(cur, used, n, out);
                cur.pop();
                used[i] = false;
            }
        }
    }
    let mut out = vec![];
    rec(&mut vec![], &mut vec![false; n], n, &mut out);
    out
}

/// `rank[i]` = position of element `i` when the slice is sorted.
pub fn ranks<T: Ord>(xs: &[T]) -> Vec<usize> {
    let mut idx: Vec<usize> = (0..xs.len()).collect();
    idx.sort_by(|a, b| xs[*a].cmp(&xs[*b]));
    let mut r = vec![0; xs.len()];
    for (pos, i) in idx.iter().enumerate() {
        r[*i] = pos;
    }
    r
}

/// Does the relative order of `ids` agree with the target ranks restricted to the same elements?
pub fn order_consistent(ids: &[Oid], target_rank: &[usize]) -> bool {
    for i in 0..ids.len() {
        for j in 0..i {
            if (ids[i] < ids[j]) != (target_rank[i] < target_rank[j]) {
                return false;
            }
        }
    }
    true
}

pub const SALT_CAP: u32 = 400;

pub fn oid_json(ids: &[Oid]) -> Value {
    json!(ids.iter().map(|o| o.to_string()).collect::<Vec<_>>())
}

/// Short description of the difference of two observations (top-level JSON fields that differ,
/// or the graph).
pub fn diff_fields(a: &Observed, b: &Observed) -> Vec<String> {
    let mut out = vec![];
    if let (Some(x), Some(y)) = (a.object.as_object(), b.object.as_object()) {
        let keys: BTreeSet<&String> = x.keys().chain(y.keys()).collect();
        for k in keys {
            if x.get(k) != y.get(k) {
                out.push(k.clone());
            }
        }
    } else if a.object != b.object {
        out.push("object".into());
    }
    if out.is_empty() && a.debug != b.debug {
        out.push("debug-only".into());
    }
    out
}
